//! W-WIRE: the real header-ex codec, the shrex status reader and EDS response decoder, and every
//! peer-facing decoder, fed through `SimStream` (chooser-driven chunking, stalls, truncation, bit
//! flips, duplicated / swapped segments, garbage, io errors) and by structure-aware mutants.
//!
//! * `wire.hx_framing` decides C30, `wire.shrex_eds` decides C09, `wire.decoders` decides C16.

use std::sync::Arc;
use std::time::Duration;

use celestia_proto::p2p::pb::header_request::Data;
use celestia_proto::p2p::pb::{HeaderRequest, HeaderResponse, StatusCode};
use futures::AsyncWriteExt;
use lumina_node::verif::hx;
use prost::Message;
use tendermint_proto::Protobuf;

use crate::kernel::ctx::{PanicInfo, RunCtx};
use crate::kernel::runner::{World, WorldFut, is_harness_location};
use crate::seams::chain::{Chain, ChainParams};
use crate::seams::stream::{Chunking, Fired, LinkPlan, Profile, pipe};

#[path = "wire_fixtures.rs"]
pub mod fixtures;
#[path = "wire_eds.rs"]
mod eds_world;
#[path = "wire_decoders.rs"]
mod decoders_world;

#[derive(Clone, Copy, PartialEq, Eq)]
pub enum Which {
    HxFraming,
    ShrexEds,
    Decoders,
}

pub struct WireWorld {
    pub which: Which,
}

impl World for WireWorld {
    fn name(&self) -> &'static str {
        match self.which {
            Which::HxFraming => "wire.hx_framing",
            Which::ShrexEds => "wire.shrex_eds",
            Which::Decoders => "wire.decoders",
        }
    }
    fn run<'a>(&'a self, ctx: &'a Arc<RunCtx>) -> WorldFut<'a> {
        Box::pin(async move {
            match self.which {
                Which::HxFraming => run_hx(ctx).await,
                Which::ShrexEds => eds_world::run_eds(ctx).await,
                Which::Decoders => decoders_world::run_decoders(ctx).await,
            }
        })
    }
    fn vtime_cap(&self) -> Duration {
        Duration::from_secs(3600 * 6)
    }
}

// ------------------------------------------------------------------------------------ common

pub(super) const REQUEST_SIZE_LIMIT: usize = 1024;
pub(super) const REQUEST_TIME_LIMIT_MS: u64 = 1000;
pub(super) const RESPONSE_SIZE_LIMIT: usize = 10 * 1024 * 1024;
pub(super) const RESPONSE_TIME_LIMIT_MS: u64 = 5000;

pub(super) fn panic_mark(ctx: &RunCtx) -> usize {
    ctx.panics.lock().unwrap().len()
}

/// Panics recorded since `mark` whose location is not in the harness.
pub(super) fn repo_panics_since(ctx: &RunCtx, mark: usize) -> Vec<PanicInfo> {
    ctx.panics.lock().unwrap()[mark..]
        .iter()
        .filter(|p| !is_harness_location(&p.location))
        .cloned()
        .collect()
}

/// "<file>:<line>" with the machine-specific cargo registry prefix removed (stable key).
pub(super) fn panic_site(p: &PanicInfo) -> String {
    let mut parts = p.location.rsplitn(3, ':');
    let _col = parts.next();
    let line = parts.next().unwrap_or("?");
    let file = parts.next().unwrap_or(&p.location);
    let file = match file.find("/registry/src/") {
        Some(i) => {
            let rest = &file[i + "/registry/src/".len()..];
            rest.split_once('/').map(|(_, r)| r).unwrap_or(rest)
        }
        None => file,
    };
    format!("{file}:{line}")
}

pub(super) fn hex_head(b: &[u8], max: usize) -> String {
    if b.len() <= max {
        hex::encode(b)
    } else {
        format!("{}.. ({} bytes)", hex::encode(&b[..max]), b.len())
    }
}

/// FNV-1a of the bytes (of the first and last 64 KiB and the length for very long inputs).
pub(super) fn fnv(b: &[u8]) -> u64 {
    let mut h = 0xcbf2_9ce4_8422_2325u64 ^ b.len() as u64;
    const EDGE: usize = 64 << 10;
    if b.len() > 4 * EDGE {
        return fnv(&b[..EDGE]) ^ fnv(&b[b.len() - EDGE..]).rotate_left(21) ^ h;
    }
    for x in b {
        h ^= *x as u64;
        h = h.wrapping_mul(0x0000_0100_0000_01B3);
    }
    h
}

#[derive(Clone, Copy, Debug, PartialEq, Eq)]
pub(super) enum Label {
    /// the reader consumed exactly the honest stream
    Complete,
    /// a strict prefix of it (truncation, stall past the time limit, io error, size limit)
    Prefix,
    /// something else
    Corrupted,
}

pub(super) fn label(delivered: &[u8], honest: &[u8]) -> Label {
    if delivered == honest {
        Label::Complete
    } else if honest.starts_with(delivered) {
        Label::Prefix
    } else {
        Label::Corrupted
    }
}

/// Independent parse of a response stream: prost's own length-delimited decoding, message after
/// message, stopping at the first one that does not decode.
pub(super) fn ref_parse_responses(mut d: &[u8]) -> Vec<HeaderResponse> {
    let mut out = Vec::new();
    while !d.is_empty() {
        match HeaderResponse::decode_length_delimited(&mut d) {
            Ok(m) => out.push(m),
            Err(_) => break,
        }
    }
    out
}

pub(super) fn stop(ctx: &RunCtx) -> bool {
    !ctx.findings.lock().unwrap().is_empty()
}

// ------------------------------------------------------------------------------------ C30

fn gen_request(ctx: &RunCtx, chain: &Chain) -> HeaderRequest {
    let mut rng = ctx.fixture_rng(0x4E01 + ctx.seq());
    let data = match ctx.choose("req.data", 6) {
        0 => Some(Data::Origin(ctx.range("req.origin", 0, 200))),
        1 => Some(Data::Hash(chain.get(ctx.range("req.hash_of", 1, chain.len())).hash().as_bytes().to_vec())),
        2 => None,
        3 => Some(Data::Origin(*ctx.pick("req.origin_x", &[u64::MAX, u64::MAX - 1, 1 << 63, 1 << 32, (1 << 32) - 1, 127, 128, 16383, 16384]))),
        4 => {
            let mut h = vec![0u8; ctx.range("req.hash_len", 0, 64) as usize];
            rng.fill(&mut h);
            Some(Data::Hash(h))
        }
        _ => {
            // around the request size limit (1024 B)
            let mut h = vec![0u8; ctx.range("req.hash_len_big", 990, 1100) as usize];
            rng.fill(&mut h);
            Some(Data::Hash(h))
        }
    };
    let amount = match ctx.choose("req.amount", 4) {
        0 => 1,
        1 => ctx.range("req.amount_small", 0, 600),
        2 => *ctx.pick("req.amount_x", &[u64::MAX, u64::MAX - 1, 1 << 63, 1 << 32, 127, 128, 16384]),
        _ => rng.next_u64(),
    };
    HeaderRequest { data, amount }
}

fn hx_profile(len: usize, hot: Vec<usize>, limit_ms: u64) -> Profile {
    Profile {
        len,
        hot,
        align: 0,
        align_off: 0,
        limit_ms,
        // none, truncate, flip, dup, swap, garbage, io error, stall, drip, writer stall
        weights: [10, 5, 3, 1, 1, 2, 1, 4, 1, 1],
        second_fault: 120,
        max_chunks: 96,
    }
}

/// Harness-side expectation that makes the "within the protocol time limit" clause checkable:
/// when the link neither cut nor changed anything and all injected delays sum to less than the
/// limit minus a guard band, the codec must have consumed the whole stream. The guard is 1 s for
/// the 5 s response limit and 0.5 s for the 1 s request limit (virtual time is exact here; the
/// band only keeps the oracle away from the codec's own `Instant` arithmetic at the boundary).
fn must_be_complete(f: &Fired, limit_ms: u64) -> bool {
    let guard = (limit_ms / 2).min(1000);
    !f.truncated
        && !f.error
        && !f.content_fault()
        && f.read_stalled_ms + f.write_stalled_ms + guard <= limit_ms
}

async fn request_op(ctx: &Arc<RunCtx>, chain: &Chain) {
    let req = gen_request(ctx, chain);
    let enc = req.encode_length_delimited_to_vec();
    let prefix_len = enc.len() - req.encoded_len();
    let profile = hx_profile(enc.len(), vec![0, prefix_len.saturating_sub(1), prefix_len, enc.len()], REQUEST_TIME_LIMIT_MS);
    let plan = LinkPlan::draw(ctx, &profile);
    ctx.ev_with("hx.req", enc.len() as u64, fnv(&enc), || format!("{req:?} plan={plan:?}"));
    let flips_in_prefix = plan.flips.iter().filter(|(p, _)| *p < prefix_len).count();
    let (w, r, h) = pipe(ctx, plan);
    let mark = panic_mark(ctx);
    let req_w = req.clone();
    let wt = tokio::spawn(async move {
        let mut w = w;
        let res = hx::write_request(&mut w, req_w).await;
        let _ = w.close().await;
        res.map_err(|e| e.to_string())
    });
    let rt = tokio::spawn(async move {
        let mut r = r;
        hx::read_request(&mut r).await.map_err(|e| e.to_string())
    });
    let wres = wt.await;
    let rres = rt.await;
    let fired = h.fired();
    let d = h.delivered();
    ctx.ev("hx.req.delivered", d.len() as u64, fnv(&d));

    // ---- never a panic
    ctx.oracle("C30.no_panic");
    if let Some(p) = repo_panics_since(ctx, mark).first() {
        let side = if wres.is_err() { "write_request" } else { "read_request" };
        ctx.violation("C30", "no_panic", &format!("{side}:{}", panic_site(p)),
            format!("header-ex {side} panicked at {}: {}; stream as delivered: {}", p.location, p.message, hex_head(&d, 1200)));
        return;
    }
    let (Ok(wres), Ok(rres)) = (wres, rres) else { return };
    if wres.is_err() {
        ctx.probe("write_request_timed_out");
    }
    if fired.max_stall_ms > REQUEST_TIME_LIMIT_MS {
        ctx.probe("stall_longer_than_limit");
    }
    if flips_in_prefix > 0 && fired.flips > 0 {
        ctx.probe("bit_flip_in_length_prefix");
    }
    // What the reader can see at most: the first REQUEST_SIZE_LIMIT bytes.
    let honest = &enc[..enc.len().min(REQUEST_SIZE_LIMIT)];
    let lab = label(&d, honest);
    ctx.ev("hx.req.result", lab as u64, rres.is_ok() as u64);
    if enc.len() > REQUEST_SIZE_LIMIT {
        // Narrower reading: "any request" is read as "any request the size limit lets through";
        // a request above 1024 B cannot arrive whole, so only "no invented value" is judged.
        ctx.probe("request_above_size_limit");
        if let Ok(got) = &rres {
            ctx.oracle("C30.garbage");
            if HeaderRequest::decode_length_delimited(&d[..]).ok().as_ref() != Some(got) {
                ctx.violation("C30", "garbage", "request_oversize",
                    format!("read_request returned {got:?}, which does not decode from the {} delivered bytes", d.len()));
            }
        }
        return;
    }
    if must_be_complete(&fired, REQUEST_TIME_LIMIT_MS) {
        ctx.oracle("C30.within_time_limit");
        if lab != Label::Complete {
            ctx.violation("C30", "within_time_limit", "request",
                format!("no truncation/corruption and only {} ms of delay, but read_request consumed {} of {} bytes",
                    fired.read_stalled_ms + fired.write_stalled_ms, d.len(), enc.len()));
            return;
        }
    }
    match lab {
        Label::Complete => {
            ctx.oracle("C30.roundtrip");
            if fired.chunks > 1 {
                ctx.probe("request_roundtrip_in_several_chunks");
            }
            match &rres {
                Ok(got) if *got == req => {}
                Ok(got) => ctx.violation("C30", "roundtrip", "request",
                    format!("wrote {req:?}, read back {got:?} ({} chunks)", fired.chunks)),
                // the stream failed (reset) right after the last byte instead of ending: a
                // failed stream, like a truncated one, may yield an error
                Err(_) if fired.error => ctx.probe("io_error_after_last_byte"),
                Err(e) => ctx.violation("C30", "roundtrip", "request",
                    format!("wrote {req:?} ({} bytes, all delivered in {} chunks), read_request failed: {e}", enc.len(), fired.chunks)),
            }
        }
        Label::Prefix => {
            ctx.oracle("C30.truncated");
            if d.len() == prefix_len {
                ctx.probe("truncation_exactly_at_message_boundary");
            }
            if let Ok(got) = &rres {
                ctx.violation("C30", "truncated", "request",
                    format!("only {} of {} bytes of the request arrived, yet read_request returned {got:?}", d.len(), enc.len()));
            }
        }
        Label::Corrupted => {
            // Narrower reading (DESIGN.md C30): garbage yields an error or a message that
            // genuinely decodes from the delivered bytes.
            ctx.oracle("C30.garbage");
            if let Ok(got) = &rres {
                ctx.probe("corrupted_stream_still_decodes");
                if HeaderRequest::decode_length_delimited(&d[..]).ok().as_ref() != Some(got) {
                    ctx.violation("C30", "garbage", "request",
                        format!("read_request returned {got:?}, which does not decode from the delivered bytes {}", hex_head(&d, 600)));
                }
            }
        }
    }
}

fn gen_responses(ctx: &RunCtx, chain: &Chain) -> (Vec<HeaderResponse>, bool) {
    let mut rng = ctx.fixture_rng(0x4E02 + ctx.seq());
    let n = if ctx.coin("resp.empty", 30) { 0 } else { 1 + ctx.range("resp.n_minus_1", 0, 39) };
    let mut v = Vec::new();
    for _ in 0..n {
        v.push(match ctx.weighted("resp.entry", &[8, 1, 1, 1]) {
            0 => HeaderResponse {
                body: chain.get(ctx.range("resp.height", 1, chain.len())).clone().encode_vec(),
                status_code: StatusCode::Ok.into(),
            },
            1 => HeaderResponse { body: vec![], status_code: StatusCode::NotFound.into() },
            2 => HeaderResponse { body: vec![], status_code: StatusCode::Invalid.into() },
            _ => {
                let mut b = vec![0u8; ctx.range("resp.junk_len", 0, 300) as usize];
                rng.fill(&mut b);
                HeaderResponse { body: b, status_code: ctx.range("resp.junk_status", 0, 5) as i32 }
            }
        });
    }
    // rare and slow: a list whose encoding exceeds the 10 MiB response limit
    let oversize = ctx.coin("resp.oversize", 1);
    if oversize {
        for _ in 0..3 {
            let mut b = vec![0u8; 3_700_000];
            rng.fill(&mut b[..4096]);
            v.push(HeaderResponse { body: b, status_code: StatusCode::Ok.into() });
        }
    }
    (v, oversize)
}

fn is_prefix_of(v: &[HeaderResponse], w: &[HeaderResponse]) -> bool {
    v.len() <= w.len() && v.iter().zip(w).all(|(a, b)| a == b)
}

async fn response_op(ctx: &Arc<RunCtx>, chain: &Chain) {
    let (resps, oversize) = gen_responses(ctx, chain);
    let mut enc = Vec::new();
    let mut bounds = Vec::new(); // end offset of each message
    let mut prefix_pos = Vec::new(); // offsets of length-prefix bytes
    for r in &resps {
        let start = enc.len();
        r.encode_length_delimited(&mut enc).expect("vec grows");
        let plen = enc.len() - start - r.encoded_len();
        prefix_pos.extend(start..start + plen);
        bounds.push(enc.len());
    }
    let mut hot = vec![0, enc.len()];
    hot.extend(bounds.iter().copied());
    let profile = hx_profile(enc.len(), hot, RESPONSE_TIME_LIMIT_MS);
    let mut plan = LinkPlan::draw(ctx, &profile);
    if oversize {
        // keep the number of chunks of an 11 MiB stream small
        plan.chunking = Chunking::Fixed(1 << 19);
        plan.write_chunk = 0;
        if plan.drip_ms > 0 {
            plan.drip_ms = plan.drip_ms.min(400);
        }
    }
    ctx.ev_with("hx.resp", resps.len() as u64, enc.len() as u64, || format!("plan={plan:?}"));
    let flips_in_prefix = plan.flips.iter().filter(|(p, _)| prefix_pos.binary_search(p).is_ok()).count();
    let (w, r, h) = pipe(ctx, plan);
    let mark = panic_mark(ctx);
    let resps_w = resps.clone();
    let wt = tokio::spawn(async move {
        let mut w = w;
        let res = hx::write_response(&mut w, resps_w).await;
        let _ = w.close().await;
        res.map_err(|e| e.to_string())
    });
    let rt = tokio::spawn(async move {
        let mut r = r;
        hx::read_response(&mut r).await.map_err(|e| e.to_string())
    });
    let wres = wt.await;
    let rres = rt.await;
    let fired = h.fired();
    let d = h.delivered();
    ctx.ev("hx.resp.delivered", d.len() as u64, fnv(&d));

    ctx.oracle("C30.no_panic");
    if let Some(p) = repo_panics_since(ctx, mark).first() {
        let side = if wres.is_err() { "write_response" } else { "read_response" };
        ctx.violation("C30", "no_panic", &format!("{side}:{}", panic_site(p)),
            format!("header-ex {side} panicked at {}: {}; stream as delivered: {}", p.location, p.message, hex_head(&d, 1200)));
        return;
    }
    let (Ok(wres), Ok(rres)) = (wres, rres) else { return };
    if wres.is_err() {
        ctx.probe("write_response_timed_out");
    }
    if fired.max_stall_ms > RESPONSE_TIME_LIMIT_MS {
        ctx.probe("stall_longer_than_limit");
    }
    if flips_in_prefix > 0 && fired.flips > 0 {
        ctx.probe("bit_flip_in_length_prefix");
    }
    if oversize {
        ctx.probe("response_list_above_size_limit");
    }
    let honest = &enc[..enc.len().min(RESPONSE_SIZE_LIMIT)];
    let lab = label(&d, honest);
    let complete_msgs = bounds.iter().filter(|b| **b <= d.len()).count();
    ctx.ev("hx.resp.result", lab as u64, rres.as_ref().map(|v| v.len() as u64).unwrap_or(u64::MAX));
    if must_be_complete(&fired, RESPONSE_TIME_LIMIT_MS) {
        ctx.oracle("C30.within_time_limit");
        if lab != Label::Complete {
            ctx.violation("C30", "within_time_limit", "response",
                format!("no truncation/corruption and only {} ms of delay, but read_response consumed {} of {} bytes",
                    fired.read_stalled_ms + fired.write_stalled_ms, d.len(), honest.len()));
            return;
        }
    }
    match lab {
        Label::Complete if resps.is_empty() => {
            // Assumption (by design of the codec): an empty list is written as an empty stream,
            // which the reader reports as "invalid or incomplete response". Not judged.
            ctx.probe("empty_response_list");
        }
        Label::Complete if oversize => {
            // Above the size limit: the documented partial response, a prefix.
            ctx.oracle("C30.oversize_prefix");
            match &rres {
                Ok(v) if !v.is_empty() && is_prefix_of(v, &resps) => ctx.probe("oversize_list_read_as_prefix"),
                Ok(v) => ctx.violation("C30", "oversize_prefix", "response",
                    format!("list of {} messages ({} bytes) read back as {} messages that are not a prefix of it", resps.len(), enc.len(), v.len())),
                Err(_) => {} // outside the statement ("fits the size limit")
            }
        }
        Label::Complete => {
            ctx.oracle("C30.roundtrip");
            if fired.chunks > 1 {
                ctx.probe("response_roundtrip_in_several_chunks");
            }
            match &rres {
                Ok(v) if *v == resps => {}
                Err(_) if fired.error => ctx.probe("io_error_after_last_byte"),
                Ok(v) => ctx.violation("C30", "roundtrip", "response",
                    format!("wrote {} messages ({} bytes), read back {} messages; first difference at index {:?}",
                        resps.len(), enc.len(), v.len(), v.iter().zip(&resps).position(|(a, b)| a != b))),
                Err(e) => ctx.violation("C30", "roundtrip", "response",
                    format!("wrote {} messages ({} bytes, all delivered in {} chunks), read_response failed: {e}", resps.len(), enc.len(), fired.chunks)),
            }
        }
        Label::Prefix => {
            // Narrower reading (DESIGN.md C30): a truncated response stream yields an error or a
            // prefix of complete messages of what was written; an error when no complete message
            // arrived. (The strict reading "always an error" contradicts the codec's designed
            // partial-response behaviour.)
            ctx.oracle("C30.truncated");
            if bounds.contains(&d.len()) || d.is_empty() {
                ctx.probe("truncation_exactly_at_message_boundary");
            }
            match &rres {
                Err(_) => {
                    if complete_msgs == 0 {
                        ctx.probe("truncated_before_first_message_is_error");
                    }
                }
                Ok(v) => {
                    if complete_msgs == 0 {
                        ctx.violation("C30", "truncated", "response_no_complete_message",
                            format!("{} bytes arrived (first message ends at {:?}) yet read_response returned {} messages", d.len(), bounds.first(), v.len()));
                    } else if v.is_empty() || !is_prefix_of(v, &resps) {
                        ctx.violation("C30", "truncated", "response_not_a_prefix",
                            format!("{} of {} bytes arrived; read_response returned {} messages that are not a prefix of the {} written", d.len(), enc.len(), v.len(), resps.len()));
                    } else {
                        ctx.probe("truncated_response_read_as_prefix");
                    }
                }
            }
        }
        Label::Corrupted => {
            // Narrower reading: an error, or messages that genuinely decode from the garbage.
            ctx.oracle("C30.garbage");
            if let Ok(v) = &rres {
                ctx.probe("corrupted_stream_still_decodes");
                let reference = ref_parse_responses(&d);
                if v.is_empty() || !is_prefix_of(v, &reference) {
                    ctx.violation("C30", "garbage", "response",
                        format!("read_response returned {} messages that do not decode from the {} delivered bytes (independent parse finds {})", v.len(), d.len(), reference.len()));
                }
            }
        }
    }
}

async fn run_hx(ctx: &Arc<RunCtx>) {
    let class = ctx.range("chain.class", 0, 1);
    let chain = Chain::cached(ChainParams {
        class,
        len: 48,
        validators: if class == 0 { 1 } else { 4 },
        block_time_ms: 6000,
        head_offset_ms: -3_600_000,
    });
    let n_ops = ctx.range("ops", 1, 3);
    for _ in 0..n_ops {
        ctx.begin_span("op");
        if ctx.weighted("op.kind", &[4, 6]) == 0 {
            request_op(ctx, &chain).await;
        } else {
            response_op(ctx, &chain).await;
        }
        ctx.end_span();
        if stop(ctx) {
            break;
        }
    }
}
