//! `wire.shrex_eds` (C09): an honest shrex EDS response (status frame + ODS shares) travels through
//! SimStream; the reader side does what `shrex::client::request_response_task` does (10 s receive
//! timeout, `read_status`, `read_to_end`) and then `ResponseCodec for ExtendedDataSquare`.

use std::sync::Arc;
use std::time::Duration;

use celestia_proto::share::p2p::shrex::{Response as ProtoResponse, Status as ProtoStatus};
use celestia_types::consts::appconsts::{AppVersion, SHARE_SIZE};
use celestia_types::eds::EdsId;
use celestia_types::{DataAvailabilityHeader, ExtendedDataSquare};
use futures::AsyncReadExt;
use lumina_node::verif::shrex;
use prost::Message;

use super::fixtures::Square;
use super::{fnv, hex_head, panic_mark, panic_site, repo_panics_since, stop};
use crate::kernel::ctx::{RunCtx, Tier};
use crate::seams::stream::{LinkPlan, Profile, preloaded};

const RECV_RESP_TIMEOUT: Duration = Duration::from_secs(10);

enum ClientResult {
    TimedOut,
    Io,
    Status(i32),
    /// status Ok: the bytes handed to the decoder and its verdict
    Decoded(Vec<u8>, Result<ExtendedDataSquare, String>),
}

pub(super) async fn run_eds(ctx: &Arc<RunCtx>) {
    let widths: &[u16] = if ctx.tier == Tier::Thorough { &[2, 4, 8, 16, 32] } else { &[2, 4, 8, 16] };
    let n_ops = ctx.range("ops", 1, 2);
    for _ in 0..n_ops {
        ctx.begin_span("op");
        let width = *ctx.pick("eds.width", widths);
        let class = ctx.range("eds.class", 0, 3);
        one_response(ctx, &Square::cached(class, width)).await;
        ctx.end_span();
        if stop(ctx) {
            break;
        }
    }
}

async fn one_response(ctx: &Arc<RunCtx>, sq: &Arc<Square>) {
    // 0 = Ok; the other statuses are the non-Ok fault
    let status = match ctx.weighted("eds.status", &[20, 1, 1, 1, 1]) {
        0 => ProtoStatus::Ok as i32,
        1 => ProtoStatus::NotFound as i32,
        2 => ProtoStatus::Internal as i32,
        3 => ProtoStatus::Invalid as i32,
        _ => 4 + ctx.range("eds.status_unknown", 0, 200) as i32,
    };
    let frame = ProtoResponse { status }.encode_length_delimited_to_vec();
    let mut stream = frame.clone();
    stream.extend_from_slice(&sq.payload);
    // 0 = the header's app version
    let app = match ctx.weighted("eds.app", &[12, 1, 1, 1]) {
        0 => sq.app,
        1 => AppVersion::V1,
        2 => AppVersion::V2,
        _ => AppVersion::latest(),
    };
    let shares = sq.payload.len() / SHARE_SIZE;
    let profile = Profile {
        len: stream.len(),
        hot: vec![0, 1, frame.len(), stream.len()],
        align: SHARE_SIZE,
        align_off: frame.len(),
        limit_ms: RECV_RESP_TIMEOUT.as_millis() as u64,
        // none, truncate, flip, dup, swap, garbage, io error, stall, drip, writer stall
        weights: [8, 6, 5, 1, 5, 1, 1, 2, 1, 0],
        second_fault: 80,
        max_chunks: 64,
    };
    let plan = LinkPlan::draw(ctx, &profile);
    ctx.ev_with("eds.resp", sq.width as u64, (sq.class << 32) | (status as u64), || format!("app={app:?} shares={shares} plan={plan:?}"));
    let (r, h) = preloaded(ctx, plan, stream.clone());
    let mark = panic_mark(ctx);
    // The header the client holds: normally the one committing to this square; sometimes one
    // whose DAH is not the square's (a peer answering with the square of another block, or a
    // proposer whose row and column roots disagree): single roots replaced, all column roots
    // foreign, or the DAH of another square of the same width.
    let mut dah = sq.dah.clone();
    let dah_fault = ctx.weighted("eds.header_dah", &[12, 1, 1, 1, 1]);
    if dah_fault != 0 {
        let mut rows = sq.dah.row_roots().to_vec();
        let mut cols = sq.dah.column_roots().to_vec();
        let n = rows.len();
        let i = ctx.choose("eds.dah_index", n as u32) as usize;
        let j = (i + 1 + ctx.choose("eds.dah_other", (n - 1) as u32) as usize) % n;
        match dah_fault {
            1 => rows[i] = rows[j].clone(),
            2 => cols[i] = cols[j].clone(),
            3 => cols = rows.clone(),
            _ => {
                rows.swap(i, j);
                cols.swap(i, j);
            }
        }
        let forged = DataAvailabilityHeader::new_unchecked(rows, cols);
        if forged != sq.dah {
            dah = forged;
            ctx.fault("header_dah_is_not_the_squares");
        }
    }
    let dah_is_squares = dah == sq.dah;
    let dah_used = dah.clone();
    let height = sq.height;
    let task = tokio::spawn(async move {
        let mut r = r;
        // mirrors request_response_task: the whole receive is under one 10 s timeout
        let recv = tokio::time::timeout(RECV_RESP_TIMEOUT, async {
            let status = shrex::read_status(&mut r).await?;
            let mut data = Vec::new();
            if status == ProtoStatus::Ok as i32 {
                r.read_to_end(&mut data).await?;
            }
            Ok::<_, std::io::Error>((status, data))
        })
        .await;
        match recv {
            Err(_) => ClientResult::TimedOut,
            Ok(Err(_)) => ClientResult::Io,
            Ok(Ok((status, _))) if status != ProtoStatus::Ok as i32 => ClientResult::Status(status),
            Ok(Ok((_, data))) => {
                let id = EdsId::new(height).expect("height > 0");
                let res = shrex::decode_eds(&data, &id, &dah, app);
                ClientResult::Decoded(data, res)
            }
        }
    });
    let res = task.await;
    let fired = h.fired();
    let d = h.delivered();
    ctx.ev("eds.delivered", d.len() as u64, fnv(&d));

    ctx.oracle("C09.no_panic");
    if let Some(p) = repo_panics_since(ctx, mark).first() {
        ctx.violation("C09", "no_panic", &format!("shrex_eds_client:{}", panic_site(p)),
            format!("shrex EDS receive/decode panicked at {}: {} (width {}, {} bytes delivered, head {})",
                p.location, p.message, sq.width, d.len(), hex_head(&d, 64)));
        return;
    }
    let Ok(res) = res else { return };
    if fired.max_stall_ms > RECV_RESP_TIMEOUT.as_millis() as u64 {
        ctx.probe("stall_longer_than_limit");
    }
    let frame_intact = d.len() >= frame.len() && d[..frame.len()] == frame[..];
    match res {
        ClientResult::TimedOut => {
            ctx.ev("eds.result.timeout", 0, 0);
            ctx.probe("receive_timed_out");
        }
        ClientResult::Io => {
            ctx.ev("eds.result.io", 0, 0);
            ctx.probe("receive_io_error");
        }
        ClientResult::Status(s) => {
            ctx.ev("eds.result.status", s as u64, 0);
            // the status reader is part of the client path: an intact frame reads back as sent
            if frame_intact {
                ctx.oracle("C09.status_roundtrip");
                if s != status {
                    ctx.violation("C09", "status_roundtrip", "read_status",
                        format!("status frame {} delivered intact, read_status returned {s} instead of {status}", hex::encode(&frame)));
                }
                ctx.probe("non_ok_status_not_decoded");
            }
        }
        ClientResult::Decoded(data, verdict) => {
            ctx.ev("eds.result.decoded", data.len() as u64, verdict.is_ok() as u64);
            // label by construction: the decoder saw the honest payload iff byte-equal
            let honest = data == sq.payload;
            if !honest {
                if data.len() < sq.payload.len() && sq.payload.starts_with(&data) {
                    ctx.probe(if data.len() % SHARE_SIZE == 0 { "truncated_at_share_boundary" } else { "truncated_inside_share" });
                } else if data.len() == sq.payload.len() {
                    let diff = data.iter().zip(&sq.payload).filter(|(a, b)| a != b).count();
                    ctx.probe(if diff == 1 { "single_byte_changed" } else if fired.swap { "shares_swapped" } else { "several_bytes_changed" });
                } else {
                    ctx.probe("payload_longer_than_honest");
                }
            }
            match &verdict {
                Ok(eds) => {
                    // Ok => the original square, whose extension reproduces the DAH
                    ctx.oracle("C09.ok_is_original");
                    let w = eds.square_width();
                    let ods = w / 2;
                    let mut same = w == sq.width;
                    if same {
                        'outer: for row in 0..ods {
                            for col in 0..ods {
                                let i = (row as usize * ods as usize + col as usize) * SHARE_SIZE;
                                let got = eds.share(row, col).map(|s| s.data().to_vec());
                                if got.as_deref().ok() != Some(&sq.payload[i..i + SHARE_SIZE]) {
                                    same = false;
                                    break 'outer;
                                }
                            }
                        }
                    }
                    let dah_ok = DataAvailabilityHeader::from_eds(eds) == dah_used;
                    if !same || !dah_ok {
                        ctx.violation("C09", "ok_is_original", "decode_eds",
                            format!("decode_eds accepted a square (width {w}) with ods_equal={same} dah_equal={dah_ok} for the header's DAH (width {})", sq.width));
                    }
                    ctx.oracle("C09.corrupted_rejected");
                    if honest && app == sq.app && dah_is_squares {
                        ctx.oracle("C09.honest_accepted");
                    }
                    if !dah_is_squares {
                        // any acceptance against a DAH that is not the square's was flagged above
                        ctx.probe("accepted_against_foreign_dah");
                    } else if !honest {
                        ctx.violation("C09", "corrupted_rejected", "decode_eds",
                            format!("decode_eds accepted a payload of {} bytes that differs from the honest one ({} bytes); link faults: {fired:?}", data.len(), sq.payload.len()));
                    } else if app != sq.app {
                        ctx.probe("wrong_app_version_accepted_same_square");
                    } else {
                        ctx.probe("honest_payload_accepted");
                    }
                }
                Err(e) => {
                    if !dah_is_squares {
                        ctx.oracle("C09.corrupted_rejected");
                        ctx.probe("payload_rejected_against_foreign_dah");
                    } else if honest && app == sq.app {
                        ctx.oracle("C09.honest_accepted");
                        ctx.violation("C09", "honest_accepted", "decode_eds",
                            format!("decode_eds rejected the honest payload of a width-{} square (class {}): {e}", sq.width, sq.class));
                    } else if honest {
                        // may-reject: the payload is the original square but the caller's app
                        // version is not the header's
                        ctx.probe("wrong_app_version_rejected");
                    } else {
                        ctx.oracle("C09.corrupted_rejected");
                        ctx.probe("corrupted_payload_rejected");
                    }
                }
            }
        }
    }
}
