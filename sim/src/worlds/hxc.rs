//! W-HXC: the real `HeaderExClientHandler` (through `hx::HxClient<SimNetSender>`) with a real
//! `PeerTracker` (`verif::Peers`), driven by a poll loop like the repo's own tests. The
//! simulator is the transport: `SimNetSender` records every `send_request` and the harness later
//! delivers, per attempt, a response list, an `OutboundFailure`, or nothing, in chooser-chosen
//! order and delay, while peers connect / disconnect / gain and lose the trusted and archival
//! flags.
//!
//! Three worlds:
//!  * `hxc.validate` (C28): Byzantine response lists (valid, bad signature, wrong data hash,
//!    corrupted body, not-found, duplicated, shuffled, gapped, oversized, fork and foreign-chain
//!    entries), duplicates, failures; every `Ok` a caller receives and every `Ok` of a direct
//!    `decode_and_verify_responses` call is judged against labels fixed by construction.
//!  * `hxc.head` (C31): best-head rule, recipients of head requests, same answer for all waiting
//!    callers, retry of rounds without a valid answer.
//!  * `hxc.retry` (C32): at most three sends, only to connected peers, third to an archival peer,
//!    the answer is the first valid response or the final error, liveness after the last fault
//!    and on stop.

use std::collections::{BTreeMap, BTreeSet};
use std::sync::Arc;
use std::sync::atomic::{AtomicBool, Ordering};
use std::task::{Context, Poll, Wake, Waker};
use std::time::Duration;

use celestia_proto::p2p::pb::header_request::Data;
use celestia_proto::p2p::pb::{HeaderRequest, HeaderResponse, StatusCode};
use celestia_types::ExtendedHeader;
use libp2p::PeerId;
use libp2p::request_response::OutboundFailure;
use lumina_node::node::{HeaderExError, P2pError};
use lumina_node::verif::{Events, Peers, hx};
use tendermint::block::CommitSig;
use tendermint_proto::Protobuf;
use tokio::sync::{Notify, oneshot};

use crate::kernel::ctx::{RunCtx, Tier};
use crate::kernel::rng::Xoshiro;
use crate::kernel::runner::{World, WorldFut, is_harness_location};
use crate::seams::chain::{Chain, ChainParams, HeaderSpec, KeyedSet, build_header, empty_dah, rehash_and_resign};

#[derive(Clone, Copy, Debug, PartialEq, Eq)]
pub enum Mode {
    Validate,
    Head,
    Retry,
}

pub struct HxcWorld {
    pub mode: Mode,
}

impl World for HxcWorld {
    fn name(&self) -> &'static str {
        match self.mode {
            Mode::Validate => "hxc.validate",
            Mode::Head => "hxc.head",
            Mode::Retry => "hxc.retry",
        }
    }
    fn run<'a>(&'a self, ctx: &'a Arc<RunCtx>) -> WorldFut<'a> {
        let mode = self.mode;
        Box::pin(async move {
            // The whole scenario runs inside a spawned task: a panic of the code under test is
            // then a JoinError (plus an entry in ctx.panics), not a panic of the world future.
            let c = ctx.clone();
            let joined = tokio::spawn(async move { scenario(c, mode).await }).await;
            if let Err(e) = joined {
                if e.is_panic() {
                    let panics = ctx.panics.lock().unwrap().clone();
                    if let Some(p) = panics.iter().rev().find(|p| !is_harness_location(&p.location)) {
                        ctx.probe("repo_panic_observed");
                        ctx.note("repo_panic", format!("{}: {}", p.location, p.message));
                        if mode == Mode::Validate {
                            // C28: "anything else is an error" — a panic while handling a
                            // response is not an error return.
                            ctx.oracle("C28.anything_else_is_error");
                            ctx.violation("C28", "anything_else_is_error", "client_panic",
                                format!("the header-ex client panicked at {}: {}", p.location, p.message));
                        }
                    }
                }
            }
        })
    }
    fn vtime_cap(&self) -> Duration {
        Duration::from_secs(600)
    }
}

// ------------------------------------------------------------------------------------ fixtures

pub(crate) fn peer_id(i: u64) -> PeerId {
    // identity multihash of 32 bytes: a syntactically valid peer id, no OS randomness
    let mut b = [0u8; 32];
    b[..8].copy_from_slice(&i.to_le_bytes());
    b[31] = 0xC3;
    let mh = multihash::Multihash::<64>::wrap(0x00, &b).expect("32 bytes fit");
    PeerId::from_multihash(mh).expect("identity multihash of 32 bytes is a peer id")
}

/// What the statement's "validated" says about a response entry, fixed by construction (never by
/// running the validation under test):
///  * `Valid`: status Ok and the body is an unmodified honest SimChain header, or a
///    self-consistent header signed by its own validator set (fork / foreign chain) — these pass
///    `ExtendedHeader::validate`;
///  * `Invalid`: cannot be a validated header (bad signature of a single-validator commit,
///    data hash different from the DAH, commit signed over other bytes, non-Ok status with an
///    empty body, empty body);
///  * `Ambiguous`: the statement does not decide it (random bit flip that may hit an un-hashed
///    field, unknown status code or not-found status in front of a valid body). NARROWER READING:
///    an output element that equals an ambiguous entry is accepted.
#[derive(Clone, Copy, Debug, PartialEq, Eq)]
enum Label {
    Valid,
    Invalid,
    Ambiguous,
}

#[derive(Clone, Debug)]
struct Entry {
    resp: HeaderResponse,
    label: Label,
    /// the header the body encodes (by construction for Valid; plain decode for Ambiguous)
    header: Option<ExtendedHeader>,
    what: &'static str,
}

fn ok_entry(h: &ExtendedHeader, label: Label, what: &'static str) -> Entry {
    Entry {
        resp: HeaderResponse { body: h.clone().encode_vec(), status_code: StatusCode::Ok.into() },
        label,
        header: Some(h.clone()),
        what,
    }
}

fn status_entry(code: i32, what: &'static str) -> Entry {
    Entry { resp: HeaderResponse { body: vec![], status_code: code }, label: Label::Invalid, header: None, what }
}

struct Fix {
    chain: Arc<Chain>,
    byz_set: KeyedSet,
    frng: Xoshiro,
    other_chain: tendermint::chain::Id,
}

impl Fix {
    fn new(ctx: &RunCtx, len: u64) -> Fix {
        let chain = Chain::cached(ChainParams {
            class: ctx.range("fix.chain_class", 0, 2),
            len,
            validators: 1,
            block_time_ms: 6000,
            head_offset_ms: -3_600_000,
        });
        let mut fr = ctx.fixture_rng(0x4858);
        let byz_set = KeyedSet::generate(&mut fr, 1 + ctx.choose("fix.byz_set_size", 3) as usize, 1000);
        Fix { chain, byz_set, frng: ctx.fixture_rng(0x4859), other_chain: "other-chain".try_into().unwrap() }
    }

    fn clamp(&self, h: u64) -> u64 {
        h.clamp(1, self.chain.len())
    }

    fn honest(&self, h: u64) -> Entry {
        ok_entry(self.chain.get(self.clamp(h)), Label::Valid, "honest")
    }

    /// same validator set, same height, different block: validates
    fn fork_header(&mut self, h: u64) -> ExtendedHeader {
        let h = self.clamp(h);
        self.chain.fork(&mut self.frng, h, h).remove(0)
    }

    /// another chain id, its own validator set: self-consistent, validates
    fn foreign_header(&mut self, h: u64) -> ExtendedHeader {
        let h = self.clamp(h);
        build_header(&mut self.frng, HeaderSpec {
            chain_id: &self.other_chain,
            height: h,
            time: self.chain.time_of(h),
            prev: None,
            set: &self.byz_set,
            next_set: &self.byz_set,
            dah: empty_dah(),
            app_version: 1,
            votes: None,
        })
    }

    /// honest header (single validator) with one bit of its only commit signature flipped
    fn bad_sig(&self, ctx: &RunCtx, h: u64) -> Entry {
        let mut hd = self.chain.get(self.clamp(h)).clone();
        if let Some(CommitSig::BlockIdFlagCommit { signature, .. }) = hd.commit.signatures.first_mut() {
            if let Some(sig) = signature.as_ref() {
                let mut b = sig.as_bytes().to_vec();
                let at = ctx.choose("byz.sig_byte", b.len() as u32) as usize;
                b[at] ^= 1 << ctx.choose("byz.sig_bit", 8);
                if let Ok(s) = tendermint::Signature::new(b) {
                    *signature = s;
                }
            }
        }
        let mut e = ok_entry(&hd, Label::Invalid, "bad_signature");
        e.header = None;
        e
    }

    /// data_hash != dah.hash(); block hash and signatures consistent with the changed header
    fn wrong_data_hash(&self, h: u64) -> Entry {
        let mut hd = self.chain.get(self.clamp(h)).clone();
        hd.header.data_hash = Some(celestia_types::hash::Hash::Sha256([0x5D; 32]));
        rehash_and_resign(&mut hd, &self.chain.set);
        let mut e = ok_entry(&hd, Label::Invalid, "wrong_data_hash");
        e.header = None;
        e
    }

    /// honest header moved to another chain id; the honest validator never signed that
    fn foreign_unsigned(&self, h: u64) -> Entry {
        let mut hd = self.chain.get(self.clamp(h)).clone();
        hd.header.chain_id = self.other_chain.clone();
        rehash_and_resign(&mut hd, &self.byz_set);
        let mut e = ok_entry(&hd, Label::Invalid, "foreign_chain_unsigned");
        e.header = None;
        e
    }

    fn bit_flip(&self, ctx: &RunCtx, h: u64) -> Entry {
        let mut body = self.chain.get(self.clamp(h)).clone().encode_vec();
        let at = ctx.choose("byz.body_byte", body.len() as u32) as usize;
        body[at] ^= 1 << ctx.choose("byz.body_bit", 8);
        let header = ExtendedHeader::decode(&body[..]).ok();
        Entry { resp: HeaderResponse { body, status_code: StatusCode::Ok.into() }, label: Label::Ambiguous, header, what: "bit_flip" }
    }
}

/// Replace / restructure a base list with Byzantine mutations.
fn mutate(ctx: &RunCtx, fix: &mut Fix, v: &mut Vec<Entry>, start: u64) {
    let kind = ctx.choose("byz.kind", 18);
    let idx = if v.is_empty() { 0 } else { ctx.choose("byz.idx", v.len() as u32) as usize };
    let h_at = |v: &Vec<Entry>, i: usize| v.get(i).and_then(|e| e.header.as_ref().map(|h| h.height())).unwrap_or(start + i as u64);
    let put = |v: &mut Vec<Entry>, e: Entry| {
        if v.is_empty() { v.push(e) } else { v[idx] = e }
    };
    let h = h_at(v, idx);
    match kind {
        0 => { let e = fix.bad_sig(ctx, h); put(v, e) }
        1 => { let e = fix.wrong_data_hash(h); put(v, e) }
        2 => { let e = fix.bit_flip(ctx, h); put(v, e) }
        3 => put(v, status_entry(StatusCode::NotFound.into(), "not_found")),
        4 => {
            // a non-Ok status: with an empty body, or (status and body vary independently) with
            // the honest header of that height as its body — flagged not-Ok, so never a header
            if ctx.coin("byz.status_with_body", 500) {
                let mut e = fix.honest(h);
                e.resp.status_code = if ctx.coin("byz.status_unknown", 400) { 1000 + ctx.range("byz.status_code", 0, 500) as i32 } else { StatusCode::Invalid.into() };
                e.label = Label::Invalid;
                e.header = None;
                e.what = "non_ok_status_with_valid_body";
                put(v, e)
            } else {
                put(v, status_entry(StatusCode::Invalid.into(), "invalid_status"))
            }
        }
        5 => { let f = fix.fork_header(h); put(v, ok_entry(&f, Label::Valid, "fork")) }
        6 => { let f = fix.foreign_header(h); put(v, ok_entry(&f, Label::Valid, "foreign_chain")) }
        7 => { let e = fix.foreign_unsigned(h); put(v, e) }
        8 => { let e = fix.honest(h + 1 + ctx.range("byz.shift", 0, 4)); put(v, e) }
        9 => {
            // duplicate an entry somewhere
            if !v.is_empty() {
                let e = v[idx].clone();
                let at = ctx.choose("byz.dup_at", v.len() as u32 + 1) as usize;
                v.insert(at, e);
            }
        }
        10 => v.reverse(),
        11 => {
            // random transpositions
            for _ in 0..v.len() {
                if v.len() > 1 {
                    let a = ctx.choose("byz.swap_a", v.len() as u32) as usize;
                    let b = ctx.choose("byz.swap_b", v.len() as u32) as usize;
                    v.swap(a, b);
                }
            }
        }
        12 => { if v.len() > 1 { v.remove(idx); } } // gap (or shorter list)
        13 => { if !v.is_empty() { v.truncate(idx); } }
        14 => {
            // oversize: more consecutive honest headers
            let n = 1 + ctx.range("byz.extra", 0, 3);
            let last = v.iter().rev().find_map(|e| e.header.as_ref().map(|h| h.height())).unwrap_or(start);
            for k in 1..=n {
                let e = fix.honest(last + k);
                v.push(e);
            }
        }
        15 => {
            // unknown status code in front of a valid body
            let mut e = fix.honest(h);
            e.resp.status_code = 1234;
            e.label = Label::Ambiguous;
            e.what = "unknown_status_valid_body";
            put(v, e)
        }
        16 => {
            let mut e = fix.honest(h);
            e.resp.status_code = StatusCode::NotFound.into();
            e.label = Label::Ambiguous;
            e.what = "not_found_with_valid_body";
            put(v, e)
        }
        _ => {
            let e = Entry { resp: HeaderResponse { body: vec![], status_code: StatusCode::Ok.into() }, label: Label::Invalid, header: None, what: "ok_empty_body" };
            put(v, e)
        }
    }
}

/// A Byzantine server's answer to `req`.
fn gen_response(ctx: &RunCtx, fix: &mut Fix, req: &HeaderRequest, hash_target: Option<&ExtendedHeader>, head_height: u64) -> Vec<Entry> {
    let mut v: Vec<Entry> = Vec::new();
    let mut start = 1;
    match &req.data {
        Some(Data::Origin(0)) => {
            start = head_height;
            v.push(fix.honest(head_height));
        }
        Some(Data::Origin(o)) => {
            start = *o;
            let amount = req.amount.min(40);
            // 0: everything asked, 1: a prefix, 2: more than asked
            let k = match ctx.weighted("resp.len_class", &[6, 3, 2]) {
                0 => amount,
                1 => ctx.range("resp.prefix", 1, amount.max(1)),
                _ => amount + ctx.range("resp.over", 1, 3),
            };
            for h in *o..o.saturating_add(k) {
                if h >= 1 && h <= fix.chain.len() {
                    v.push(fix.honest(h));
                }
            }
        }
        Some(Data::Hash(_)) => match hash_target {
            Some(t) => v.push(ok_entry(t, Label::Valid, "hash_target")),
            None => v.push(fix.honest(ctx.range("resp.any_height", 1, fix.chain.len()))),
        },
        None => v.push(fix.honest(1)),
    }
    let m = ctx.weighted("resp.mutations", &[5, 4, 2, 1]);
    for _ in 0..m {
        mutate(ctx, fix, &mut v, start);
    }
    v
}

fn describe_req(r: &HeaderRequest) -> String {
    match &r.data {
        None => format!("data=None amount={}", r.amount),
        Some(Data::Origin(o)) => format!("origin={o} amount={}", r.amount),
        Some(Data::Hash(h)) => format!("hash[{}]={} amount={}", h.len(), hex::encode(&h[..h.len().min(4)]), r.amount),
    }
}

fn describe_list(v: &[Entry]) -> String {
    let parts: Vec<String> = v
        .iter()
        .take(12)
        .map(|e| match &e.header {
            Some(h) => format!("{}@{}", e.what, h.height()),
            None => e.what.to_string(),
        })
        .collect();
    format!("[{}]{}", parts.join(","), if v.len() > 12 { format!("+{}", v.len() - 12) } else { String::new() })
}

fn elem_matches(out: &ExtendedHeader, e: &Entry) -> bool {
    match (e.label, &e.header) {
        // byte-identical to the entry (and structurally equal to the header it was built from)
        (Label::Valid, Some(h)) => out == h && out.clone().encode_vec() == e.resp.body,
        // NARROWER READING: ambiguous entries are acceptable sources
        (Label::Ambiguous, Some(h)) => out == h,
        _ => false,
    }
}

/// C28 on one `Ok(out)`: `lists` are the response lists that may have produced it.
/// Returns (clause, key, detail) of the first definite violation.
fn judge_ok(req: &HeaderRequest, out: &[ExtendedHeader], lists: &[&Vec<Entry>]) -> Option<(&'static str, &'static str, String)> {
    let from_one_list = |out: &[ExtendedHeader]| lists.iter().any(|l| out.iter().all(|o| l.iter().any(|e| elem_matches(o, e))));
    let heights: Vec<u64> = out.iter().map(|h| h.height()).collect();
    let shown = || lists.iter().take(3).map(|l| describe_list(l)).collect::<Vec<_>>().join(" | ");
    match &req.data {
        Some(Data::Origin(0)) if req.amount == 1 => {
            if out.len() != 1 {
                return Some(("head_request", "not_single", format!("head request accepted {} headers {heights:?}; responses {}", out.len(), shown())));
            }
            if !from_one_list(out) {
                return Some(("head_request", "element_not_a_valid_entry", format!("head request accepted a header (height {}) that is no valid entry of any response {}", heights[0], shown())));
            }
            None
        }
        Some(Data::Origin(start)) if *start > 0 && req.amount > 0 => {
            if out.is_empty() {
                return Some(("height_request", "empty", format!("{} accepted an empty run; responses {}", describe_req(req), shown())));
            }
            if out.len() as u64 > req.amount {
                return Some(("height_request", "longer_than_amount", format!("{} accepted {} headers {heights:?}; responses {}", describe_req(req), out.len(), shown())));
            }
            if heights.iter().enumerate().any(|(i, h)| Some(*h) != start.checked_add(i as u64)) {
                return Some(("height_request", "heights_not_consecutive", format!("{} accepted heights {heights:?}; responses {}", describe_req(req), shown())));
            }
            if !from_one_list(out) {
                return Some(("height_request", "element_not_a_valid_entry", format!("{} accepted heights {heights:?}, not all of them valid entries of one response {}", describe_req(req), shown())));
            }
            None
        }
        Some(Data::Hash(hash)) if hash.len() == 32 && req.amount == 1 => {
            if out.len() != 1 {
                return Some(("hash_request", "not_single", format!("{} accepted {} headers; responses {}", describe_req(req), out.len(), shown())));
            }
            if out[0].hash().as_bytes() != &hash[..] {
                return Some(("hash_request", "wrong_hash", format!("{} accepted a header with hash {}; responses {}", describe_req(req), out[0].hash(), shown())));
            }
            if !from_one_list(out) {
                return Some(("hash_request", "element_not_a_valid_entry", format!("{} accepted a header that is no valid entry of any response {}", describe_req(req), shown())));
            }
            None
        }
        // not a height / hash / head request at all: nothing may be accepted
        _ => Some(("anything_else_is_error", "ok_for_invalid_request", format!("{} was answered Ok with {} headers", describe_req(req), out.len()))),
    }
}

fn clause_oracle(ctx: &RunCtx, req: &HeaderRequest) {
    match &req.data {
        Some(Data::Origin(0)) if req.amount == 1 => ctx.oracle("C28.head_request"),
        Some(Data::Origin(s)) if *s > 0 && req.amount > 0 => ctx.oracle("C28.height_request"),
        Some(Data::Hash(h)) if h.len() == 32 && req.amount == 1 => ctx.oracle("C28.hash_request"),
        _ => ctx.oracle("C28.anything_else_is_error"),
    }
}

/// The anchored function, called directly on one (request, response list) pair.
async fn direct_check(ctx: &Arc<RunCtx>, req: &HeaderRequest, list: &Vec<Entry>) {
    let r2 = req.clone();
    let resps: Vec<HeaderResponse> = list.iter().map(|e| e.resp.clone()).collect();
    let joined = tokio::spawn(async move { hx::decode_and_verify_responses(&r2, &resps).await }).await;
    match joined {
        Ok(Ok(out)) => {
            clause_oracle(ctx, req);
            ctx.probe("direct_ok");
            if (out.len() as u64) < req.amount && list.len() > out.len() {
                ctx.probe("ok_prefix_before_bad_entry");
            }
            if let Some((clause, key, detail)) = judge_ok(req, &out, &[list]) {
                ctx.violation("C28", clause, key, format!("decode_and_verify_responses: {detail}"));
            }
        }
        Ok(Err(_)) => {
            ctx.oracle("C28.anything_else_is_error");
            ctx.probe("direct_err");
        }
        Err(e) => {
            if e.is_panic() {
                let panics = ctx.panics.lock().unwrap().clone();
                if let Some(p) = panics.iter().rev().find(|p| !is_harness_location(&p.location)) {
                    ctx.oracle("C28.anything_else_is_error");
                    ctx.violation("C28", "anything_else_is_error", "decode_panic",
                        format!("decode_and_verify_responses({}, {}) panicked at {}: {}", describe_req(req), describe_list(list), p.location, p.message));
                }
            }
        }
    }
}

// ------------------------------------------------------------------------------------ peers

#[derive(Clone, Copy, Debug, Default, PartialEq, Eq)]
struct Flags {
    connected: bool,
    trusted: bool,
    archival: bool,
}

struct PeerModel {
    id: PeerId,
    conns: BTreeSet<usize>,
    trusted: bool,
    archival: bool,
}

struct PeerSet {
    peers: Peers,
    _events: Events,
    model: Vec<PeerModel>,
    next_conn: usize,
}

impl PeerSet {
    fn new() -> Self {
        let events = Events::new();
        PeerSet { peers: Peers::new(&events), _events: events, model: Vec::new(), next_conn: 1 }
    }
    fn add(&mut self) -> usize {
        let i = self.model.len();
        let id = peer_id(i as u64 + 1);
        self.peers.add_peer_id(&id);
        self.model.push(PeerModel { id, conns: BTreeSet::new(), trusted: false, archival: false });
        i
    }
    fn connect(&mut self, i: usize) {
        let c = self.next_conn;
        self.next_conn += 1;
        self.peers.add_connection(&self.model[i].id, c);
        self.model[i].conns.insert(c);
    }
    fn disconnect(&mut self, i: usize) {
        let conns: Vec<usize> = self.model[i].conns.iter().copied().collect();
        for c in conns {
            self.peers.remove_connection(&self.model[i].id, c);
        }
        self.model[i].conns.clear();
        // PeerTracker forgets the archival flag with the last connection
        self.model[i].archival = false;
    }
    fn set_trusted(&mut self, i: usize, t: bool) {
        self.peers.set_trusted(&self.model[i].id, t);
        self.model[i].trusted = t;
    }
    fn mark_archival(&mut self, i: usize) {
        self.peers.mark_as_archival(&self.model[i].id);
        self.model[i].archival = true;
    }
    fn flags(&self, i: usize) -> Flags {
        let m = &self.model[i];
        Flags { connected: !m.conns.is_empty(), trusted: m.trusted, archival: m.archival }
    }
    fn index_of(&self, id: &PeerId) -> Option<usize> {
        self.model.iter().position(|m| m.id == *id)
    }
    /// the real tracker's view
    fn snapshot(&self) -> BTreeMap<PeerId, Flags> {
        self.peers
            .snapshot()
            .into_iter()
            .map(|p| (p.id, Flags { connected: p.connected, trusted: p.trusted, archival: p.archival }))
            .collect()
    }
    fn model_agrees(&self, snap: &BTreeMap<PeerId, Flags>) -> bool {
        self.model.iter().enumerate().all(|(i, m)| snap.get(&m.id).copied().unwrap_or_default() == self.flags(i))
    }
}

// ------------------------------------------------------------------------------------ transport

#[derive(Clone, Debug)]
struct SendRec {
    id: u64,
    peer: PeerId,
    request: HeaderRequest,
    at_ms: u64,
    flags: Flags,
    sched_seq: u64,
}

/// The `SimSender` seam: records each send with the tracker's snapshot taken immediately
/// before the `schedule_pending_requests` call that produced it.
struct SimNetSender {
    ctx: Arc<RunCtx>,
    snapshot: BTreeMap<PeerId, Flags>,
    sched_seq: u64,
    next_id: u64,
    log: Vec<SendRec>,
}

fn is_head(r: &HeaderRequest) -> bool {
    matches!((&r.data, r.amount), (Some(Data::Origin(0)), 1))
}

impl hx::SimSender for SimNetSender {
    fn send_request(&mut self, peer: &PeerId, request: HeaderRequest) -> u64 {
        let ctx = &self.ctx;
        self.next_id += 1;
        let id = self.next_id;
        let flags = self.snapshot.get(peer).copied().unwrap_or_default();
        let pno = u64::from_le_bytes(peer.to_bytes()[2..10].try_into().unwrap_or([0; 8]));
        ctx.ev_with("send", id, pno, || format!("{} to peer {pno} {flags:?}", describe_req(&request)));
        if is_head(&request) {
            ctx.oracle("C31.sent_only_to_connected_trusted");
            if !(flags.connected && flags.trusted) {
                ctx.violation("C31", "sent_only_to_connected_trusted", if !flags.connected { "not_connected" } else { "not_trusted" },
                    format!("head request #{id} sent to peer {pno} whose tracker state at send time is {flags:?}"));
            }
        } else {
            ctx.oracle("C32.sent_only_to_connected");
            if !flags.connected {
                ctx.violation("C32", "sent_only_to_connected", "not_connected",
                    format!("request #{id} ({}) sent to peer {pno} which is not connected at send time ({flags:?})", describe_req(&request)));
            }
        }
        self.log.push(SendRec { id, peer: *peer, request, at_ms: ctx.now_ms(), flags, sched_seq: self.sched_seq });
        id
    }
}

#[derive(Clone, Copy, Debug, PartialEq, Eq)]
enum FailKind {
    Timeout,
    ConnectionClosed,
    DialFailure,
    UnsupportedProtocols,
    Io,
}

impl FailKind {
    fn make(self) -> OutboundFailure {
        match self {
            FailKind::Timeout => OutboundFailure::Timeout,
            FailKind::ConnectionClosed => OutboundFailure::ConnectionClosed,
            FailKind::DialFailure => OutboundFailure::DialFailure,
            FailKind::UnsupportedProtocols => OutboundFailure::UnsupportedProtocols,
            FailKind::Io => OutboundFailure::Io(std::io::Error::new(std::io::ErrorKind::UnexpectedEof, "sim")),
        }
    }
    fn of(f: &OutboundFailure) -> FailKind {
        match f {
            OutboundFailure::Timeout => FailKind::Timeout,
            OutboundFailure::ConnectionClosed => FailKind::ConnectionClosed,
            OutboundFailure::DialFailure => FailKind::DialFailure,
            OutboundFailure::UnsupportedProtocols => FailKind::UnsupportedProtocols,
            OutboundFailure::Io(_) => FailKind::Io,
        }
    }
    fn pick(ctx: &RunCtx) -> FailKind {
        *ctx.pick("fail.kind", &[FailKind::Timeout, FailKind::ConnectionClosed, FailKind::DialFailure, FailKind::UnsupportedProtocols, FailKind::Io])
    }
}

#[derive(Clone, Debug, PartialEq, Eq)]
enum ErrKind {
    NotFound,
    InvalidResponse,
    InvalidRequest,
    Cancelled,
    Outbound(FailKind),
    Other(String),
}

fn err_kind(e: &P2pError) -> ErrKind {
    match e {
        P2pError::HeaderEx(HeaderExError::HeaderNotFound) => ErrKind::NotFound,
        P2pError::HeaderEx(HeaderExError::InvalidResponse) => ErrKind::InvalidResponse,
        P2pError::HeaderEx(HeaderExError::InvalidRequest) => ErrKind::InvalidRequest,
        P2pError::HeaderEx(HeaderExError::RequestCancelled) => ErrKind::Cancelled,
        P2pError::HeaderEx(HeaderExError::OutboundFailure(f)) => ErrKind::Outbound(FailKind::of(f)),
        other => ErrKind::Other(other.to_string()),
    }
}

/// Waker handed to the client: remembers that it was woken and wakes the harness loop.
struct WakeFlag {
    woken: AtomicBool,
    notify: Notify,
}

impl Wake for WakeFlag {
    fn wake(self: Arc<Self>) {
        self.woken.store(true, Ordering::SeqCst);
        self.notify.notify_one();
    }
}

// ------------------------------------------------------------------------------------ the run

#[derive(Clone, Copy, Debug, PartialEq, Eq)]
enum OutKind {
    Valid,
    NotFound,
    Invalid,
    Fail(FailKind),
}

#[derive(Clone, Debug)]
enum Outcome {
    Resp(Vec<Entry>),
    Fail(FailKind),
}

enum Action {
    Submit(usize),
    Deliver { send_id: u64, outcome: Outcome, kind: Option<OutKind> },
    Flip { peer: usize, kind: u32 },
    Cancel(usize),
    Stop,
    FaultsEnd,
}

type Answer = Result<Vec<ExtendedHeader>, ErrKind>;

struct Caller {
    req: HeaderRequest,
    hash_target: Option<ExtendedHeader>,
    cancel_at: Option<u64>,
    submitted_at: Option<u64>,
    rx: Option<oneshot::Receiver<Result<Vec<ExtendedHeader>, P2pError>>>,
    answer: Option<(u64, Answer)>,
    /// the client dropped the sender without a value
    dropped: bool,
    cancelled_at: Option<u64>,
    sends: Vec<u64>,
    /// response lists delivered to attempts of this caller (C28)
    lists: Vec<Vec<Entry>>,
    /// headers of the first valid response delivered while the caller was waiting (C32)
    first_valid: Option<Vec<ExtendedHeader>>,
    /// outcome delivered to the latest attempt (C32)
    last_outcome: Option<(u64, OutKind)>,
}

impl Caller {
    fn new(req: HeaderRequest, hash_target: Option<ExtendedHeader>, cancel_at: Option<u64>) -> Caller {
        Caller {
            req, hash_target, cancel_at, submitted_at: None, rx: None, answer: None, dropped: false,
            cancelled_at: None, sends: Vec::new(), lists: Vec::new(), first_valid: None, last_outcome: None,
        }
    }
    fn waiting(&self) -> bool {
        self.submitted_at.is_some() && self.answer.is_none() && self.cancelled_at.is_none() && !self.dropped
    }
}

struct SendMeta {
    rec: SendRec,
    caller: Option<usize>,
    round: Option<usize>,
    delivered: u32,
    planned_silent: bool,
    lists: Vec<Vec<Entry>>,
}

struct Round {
    sched_seq: u64,
    sends: Vec<u64>,
    /// which peer each send of the round went to
    peer_of: BTreeMap<u64, PeerId>,
    waiting_at_start: Vec<usize>,
    /// first outcome delivered per send: the valid single header it reported (if any), and
    /// whether the reporting peer was still trusted at delivery time
    answers: BTreeMap<u64, (Option<ExtendedHeader>, bool)>,
    value: Option<ExtendedHeader>,
    completed_ms: Option<u64>,
    flipped_while_pending: bool,
}

struct Cfg {
    p_dup: u32,
    max_delay: u32,
    end_ms: u64,
    faults_end_ms: u64,
    stabilise: bool,
}

struct Sim {
    ctx: Arc<RunCtx>,
    mode: Mode,
    fix: Fix,
    ps: PeerSet,
    client: hx::HxClient<SimNetSender>,
    sender: hx::SenderAdapter<SimNetSender>,
    wake: Arc<WakeFlag>,
    timeline: BTreeMap<(u64, u64), Action>,
    seq: u64,
    seen_sends: usize,
    callers: Vec<Caller>,
    sends: BTreeMap<u64, SendMeta>,
    rounds: Vec<Round>,
    sched_seq: u64,
    stopped_at: Option<u64>,
    faults_ended: bool,
    eligible_since: Option<u64>,
    head_pool: Vec<ExtendedHeader>,
    head_height: u64,
    cfg: Cfg,
}

/// The best-head rule over the valid single-header answers of a round: acceptable block hashes.
/// NARROWER READING: when several different headers of the decisive height qualify (equal
/// height, each reported by >= 2 peers; or no agreement at all and several at the maximum
/// height), any of them is accepted.
fn best_head(answers: &[&ExtendedHeader]) -> (BTreeSet<Vec<u8>>, bool) {
    let mut counts: BTreeMap<Vec<u8>, (u64, usize)> = BTreeMap::new();
    for h in answers {
        let e = counts.entry(h.hash().as_bytes().to_vec()).or_insert((h.height(), 0));
        e.1 += 1;
    }
    let agreed_max = counts.values().filter(|(_, c)| *c >= 2).map(|(h, _)| *h).max();
    let overall_max = counts.values().map(|(h, _)| *h).max();
    match (agreed_max, overall_max) {
        (Some(hm), Some(om)) => (
            counts.iter().filter(|(_, (h, c))| *h == hm && *c >= 2).map(|(k, _)| k.clone()).collect(),
            hm < om,
        ),
        (None, Some(om)) => (counts.iter().filter(|(_, (h, _))| *h == om).map(|(k, _)| k.clone()).collect(), false),
        _ => (BTreeSet::new(), false),
    }
}

impl Sim {
    fn at(&mut self, due_ms: u64, a: Action) {
        self.seq += 1;
        self.timeline.insert((due_ms, self.seq), a);
    }

    fn has_findings(&self) -> bool {
        !self.ctx.findings.lock().unwrap().is_empty()
    }

    fn schedule(&mut self) {
        self.sched_seq += 1;
        let snap = self.ps.snapshot();
        if !self.ps.model_agrees(&snap) {
            // harness doubt, not a finding of C28/C31/C32: the tracker disagrees with the flags set
            self.ctx.probe("peer_model_mismatch");
            self.ctx.note("peer_model_mismatch", format!("tracker {snap:?}"));
        }
        self.sender.0.snapshot = snap;
        self.sender.0.sched_seq = self.sched_seq;
        self.ctx.ev("schedule", self.sched_seq, 0);
        self.client.schedule_pending_requests(&mut self.sender, &self.ps.peers);
    }

    /// Poll the client until it returns Pending (handling its events).
    fn poll_until_pending(&mut self) {
        let waker = Waker::from(self.wake.clone());
        let mut cx = Context::from_waker(&waker);
        let mut polls = 0;
        loop {
            self.wake.woken.store(false, Ordering::SeqCst);
            polls += 1;
            match self.client.poll(&mut cx) {
                Poll::Ready(hx::HxEvent::SchedulePendingRequests) => self.schedule(),
                Poll::Ready(hx::HxEvent::NeedTrustedPeers) => {
                    self.ctx.ev("event.need_trusted_peers", 0, 0);
                    self.ctx.probe("need_trusted_peers_event");
                }
                Poll::Ready(hx::HxEvent::NeedArchivalPeers) => {
                    self.ctx.ev("event.need_archival_peers", 0, 0);
                    self.ctx.probe("need_archival_peers_event");
                }
                Poll::Pending => break,
            }
            if polls > 10_000 {
                self.ctx.note("drive_poll_cap", "client kept returning events".into());
                break;
            }
        }
    }

    /// Drive the client until it is quiescent at the current virtual instant.
    async fn drive(&mut self) {
        let mut rounds = 0;
        loop {
            self.poll_until_pending();
            self.observe().await;
            // let deferred wake-ups (yield_now inside the response validation) land
            tokio::task::yield_now().await;
            rounds += 1;
            if !self.wake.woken.load(Ordering::SeqCst) || rounds > 100_000 || self.has_findings() {
                break;
            }
        }
    }

    async fn exec(&mut self, a: Action) {
        let ctx = self.ctx.clone();
        let now = ctx.now_ms();
        match a {
            Action::Submit(i) => {
                let (tx, rx) = oneshot::channel();
                let req = self.callers[i].req.clone();
                ctx.ev_with("caller.submit", i as u64, req.amount, || describe_req(&req));
                self.callers[i].submitted_at = Some(now);
                self.callers[i].rx = Some(rx);
                if self.rounds.last().is_some_and(|r| r.completed_ms.is_none()) && is_head(&req) {
                    ctx.probe("head_caller_joined_running_round");
                }
                self.client.on_send_request(req, tx);
            }
            Action::Deliver { send_id, outcome, kind } => {
                let Some(meta) = self.sends.get_mut(&send_id) else { return };
                meta.delivered += 1;
                let first = meta.delivered == 1;
                let peer = meta.rec.peer;
                let caller = meta.caller;
                let round = meta.round;
                if let Outcome::Resp(list) = &outcome {
                    meta.lists.push(list.clone());
                }
                if let Some(ci) = caller {
                    let c = &mut self.callers[ci];
                    if let Outcome::Resp(list) = &outcome {
                        c.lists.push(list.clone());
                    }
                    let live = c.waiting() && self.stopped_at.is_none();
                    if let Some(k) = kind {
                        if c.sends.last() == Some(&send_id) && first && live {
                            c.last_outcome = Some((send_id, k));
                            if k == OutKind::Valid && c.first_valid.is_none() {
                                if let Outcome::Resp(list) = &outcome {
                                    c.first_valid = Some(list.iter().filter_map(|e| e.header.clone()).collect());
                                }
                            }
                        }
                    }
                }
                if let Some(ri) = round {
                    let trusted_now = self.ps.index_of(&peer).map(|i| self.ps.flags(i).trusted).unwrap_or(false);
                    let r = &mut self.rounds[ri];
                    if !r.answers.contains_key(&send_id) {
                        let valid_single = match &outcome {
                            Outcome::Resp(l) if l.len() == 1 && l[0].label == Label::Valid => l[0].header.clone(),
                            _ => None,
                        };
                        r.answers.insert(send_id, (valid_single, trusted_now));
                        if r.answers.len() == r.sends.len() {
                            r.completed_ms = Some(now);
                            ctx.ev("round.all_answered", ri as u64, 0);
                        }
                    }
                }
                match outcome {
                    Outcome::Resp(list) => {
                        ctx.ev_with("deliver.resp", send_id, list.len() as u64, || describe_list(&list));
                        let resps: Vec<HeaderResponse> = list.into_iter().map(|e| e.resp).collect();
                        self.client.on_response_received(peer, send_id, resps);
                    }
                    Outcome::Fail(f) => {
                        ctx.ev_with("deliver.fail", send_id, 0, || format!("{f:?}"));
                        ctx.fault("outbound_failure");
                        self.client.on_failure(peer, send_id, f.make());
                    }
                }
            }
            Action::Flip { peer, kind } => {
                if peer >= self.ps.model.len() {
                    return;
                }
                let f = self.ps.flags(peer);
                match kind {
                    0 => {
                        if f.connected { self.ps.disconnect(peer) } else { self.ps.connect(peer) }
                    }
                    1 => self.ps.set_trusted(peer, !f.trusted),
                    2 => {
                        if !f.connected {
                            self.ps.connect(peer);
                        }
                        self.ps.mark_archival(peer);
                    }
                    4 => {
                        // a Kademlia provider of the archival topic is marked before it is dialled
                        // (and may never be): archival, possibly without any connection
                        self.ps.mark_archival(peer);
                        if !f.connected {
                            ctx.probe("archival_mark_on_unconnected_peer");
                        }
                    }
                    _ => {
                        for i in 0..self.ps.model.len() {
                            self.ps.disconnect(i);
                        }
                    }
                }
                ctx.fault("peer_flag_flipped");
                ctx.ev("flip", peer as u64, kind as u64);
                if let Some(r) = self.rounds.last_mut() {
                    if r.completed_ms.is_none() {
                        r.flipped_while_pending = true;
                        ctx.probe("peer_flags_changed_while_head_round_pending");
                    }
                }
            }
            Action::Cancel(i) => {
                let in_flight = self.callers[i].sends.last().is_some_and(|s| self.sends.get(s).is_some_and(|m| m.delivered == 0));
                let c = &mut self.callers[i];
                if c.waiting() {
                    c.rx = None; // drops the receiver
                    c.cancelled_at = Some(now);
                    ctx.ev("caller.cancel", i as u64, 0);
                    ctx.fault("caller_cancelled");
                    ctx.probe(if in_flight { "caller_cancelled_while_in_flight" } else { "caller_cancelled_while_pending" });
                }
            }
            Action::Stop => {
                if self.stopped_at.is_none() {
                    if self.callers.iter().any(|c| c.waiting()) {
                        ctx.probe("on_stop_with_pending_requests");
                    }
                    ctx.ev("client.stop", 0, 0);
                    ctx.fault("client_stopped");
                    self.client.on_stop();
                    self.stopped_at = Some(now);
                }
            }
            Action::FaultsEnd => {
                self.faults_ended = true;
                ctx.ev("faults_end", now, 0);
                if self.cfg.stabilise {
                    // peers of every required kind stay connected from now on
                    if self.ps.model.is_empty() {
                        self.ps.add();
                    }
                    if !self.ps.flags(0).connected {
                        self.ps.connect(0);
                    }
                    self.ps.mark_archival(0);
                }
                // "every send is then answered": what the simulator left unanswered times out,
                // as libp2p's request timeout would report
                let silent: Vec<u64> = self.sends.iter().filter(|(_, m)| m.planned_silent && m.delivered == 0).map(|(id, _)| *id).collect();
                for id in silent {
                    self.at(now, Action::Deliver { send_id: id, outcome: Outcome::Fail(FailKind::Timeout), kind: Some(OutKind::Fail(FailKind::Timeout)) });
                }
            }
        }
    }

    /// New sends (attribute, judge the per-send clauses, plan the outcome) and new answers.
    async fn observe(&mut self) {
        let ctx = self.ctx.clone();
        let now = ctx.now_ms();
        while self.seen_sends < self.sender.0.log.len() {
            let rec = self.sender.0.log[self.seen_sends].clone();
            self.seen_sends += 1;
            let mut meta = SendMeta { rec: rec.clone(), caller: None, round: None, delivered: 0, planned_silent: false, lists: Vec::new() };
            if is_head(&rec.request) {
                let ri = match self.rounds.iter().position(|r| r.sched_seq == rec.sched_seq) {
                    Some(ri) => ri,
                    None => {
                        let waiting: Vec<usize> = self.callers.iter().enumerate().filter(|(_, c)| is_head(&c.req) && c.waiting()).map(|(i, _)| i).collect();
                        if self.rounds.last().is_some_and(|r| r.completed_ms.is_some() && r.value.is_none()) {
                            ctx.probe("head_round_retried_after_no_valid_answer");
                        }
                        self.rounds.push(Round { sched_seq: rec.sched_seq, sends: vec![], peer_of: BTreeMap::new(), waiting_at_start: waiting, answers: BTreeMap::new(), value: None, completed_ms: None, flipped_while_pending: false });
                        ctx.ev("round.start", self.rounds.len() as u64 - 1, 0);
                        if self.eligible_since.is_some() {
                            // the clause held: a round started while one was due
                            ctx.oracle("C31.retried_on_next_schedule");
                        }
                        self.eligible_since = None;
                        self.rounds.len() - 1
                    }
                };
                // one request (and so one vote) per trusted peer, however many connections it has
                ctx.oracle("C31.one_request_per_peer");
                if self.rounds[ri].peer_of.values().any(|p| *p == rec.peer) {
                    ctx.violation("C31", "one_request_per_peer", "peer_asked_twice",
                        format!("head round {ri}: request #{} goes to a peer that was already asked in this round", rec.id));
                }
                self.rounds[ri].peer_of.insert(rec.id, rec.peer);
                self.rounds[ri].sends.push(rec.id);
                meta.round = Some(ri);
            } else {
                let ci = self.callers.iter().position(|c| !is_head(&c.req) && c.submitted_at.is_some() && c.req == rec.request);
                meta.caller = ci;
                match ci {
                    None => {
                        ctx.probe("unattributed_send");
                        ctx.note("unattributed_send", describe_req(&rec.request));
                    }
                    Some(ci) => {
                        let c = &mut self.callers[ci];
                        c.sends.push(rec.id);
                        c.last_outcome = None;
                        let n = c.sends.len();
                        ctx.oracle("C32.at_most_three_sends");
                        if n > 3 {
                            ctx.violation("C32", "at_most_three_sends", "fourth_send",
                                format!("request of caller {ci} ({}) was sent {n} times (send ids {:?})", describe_req(&c.req), c.sends));
                        }
                        if n == 3 {
                            ctx.oracle("C32.third_send_to_archival");
                            if rec.flags.archival {
                                ctx.probe("third_try_sent_to_archival_peer");
                            } else {
                                ctx.violation("C32", "third_send_to_archival", "not_archival",
                                    format!("third send #{} of caller {ci} ({}) went to a peer that is not archival at send time ({:?})", rec.id, describe_req(&c.req), rec.flags));
                            }
                        }
                        if let Some((t, Err(k))) = &c.answer {
                            ctx.oracle("C32.answer_is_first_valid_or_final_error");
                            ctx.violation("C32", "answer_is_first_valid_or_final_error", "send_after_final_error",
                                format!("caller {ci} ({}) was answered {k:?} at {t} ms, yet send #{} followed at {now} ms", describe_req(&c.req), rec.id));
                        }
                    }
                }
            }
            self.sends.insert(rec.id, meta);
            ctx.begin_span("plan");
            self.plan(&rec).await;
            ctx.end_span();
        }

        // ---- answers
        let mut got_head_values: Vec<(usize, ExtendedHeader)> = Vec::new();
        for i in 0..self.callers.len() {
            let Some(rx) = self.callers[i].rx.as_mut() else { continue };
            let ans: Answer = match rx.try_recv() {
                Ok(Ok(v)) => Ok(v),
                Ok(Err(e)) => Err(err_kind(&e)),
                Err(oneshot::error::TryRecvError::Empty) => continue,
                Err(oneshot::error::TryRecvError::Closed) => {
                    self.callers[i].rx = None;
                    self.callers[i].dropped = true;
                    ctx.ev("caller.sender_dropped", i as u64, 0);
                    continue;
                }
            };
            self.callers[i].rx = None;
            ctx.ev_with("caller.answer", i as u64, ans.as_ref().map(|v| v.len() as u64).unwrap_or(u64::MAX), || match &ans {
                Ok(v) => format!("Ok heights {:?}", v.iter().map(|h| h.height()).collect::<Vec<_>>()),
                Err(k) => format!("Err {k:?}"),
            });
            self.callers[i].answer = Some((now, ans.clone()));
            let req = self.callers[i].req.clone();
            // ---- C28 on every Ok the caller's oneshot receives (all modes)
            if let Ok(v) = &ans {
                clause_oracle(&ctx, &req);
                let lists: Vec<&Vec<Entry>> = if is_head(&req) {
                    self.sends.values().filter(|m| m.round.is_some()).flat_map(|m| m.lists.iter()).collect()
                } else {
                    self.callers[i].lists.iter().collect()
                };
                if let Some((clause, key, detail)) = judge_ok(&req, v, &lists) {
                    ctx.violation("C28", clause, key, format!("caller {i}: {detail}"));
                }
                ctx.probe(if is_head(&req) { "caller_ok_head" } else if matches!(req.data, Some(Data::Hash(_))) { "caller_ok_hash" } else { "caller_ok_height" });
                if !is_head(&req) && (v.len() as u64) < req.amount {
                    ctx.probe("caller_ok_shorter_than_amount");
                }
            } else {
                ctx.oracle("C28.anything_else_is_error");
            }
            if is_head(&req) {
                if let Ok(v) = &ans {
                    if let Some(h) = v.first() {
                        got_head_values.push((i, h.clone()));
                    }
                }
            } else if self.mode == Mode::Retry {
                self.judge_retry_answer(i, &ans);
            }
        }
        if self.mode == Mode::Head && !got_head_values.is_empty() {
            self.judge_head_values(&got_head_values);
        }
    }

    // -------------------------------------------------------------------------------- C31

    fn judge_head_values(&mut self, got: &[(usize, ExtendedHeader)]) {
        let ctx = self.ctx.clone();
        ctx.oracle("C31.best_head_rule");
        let Some(ri) = self.rounds.len().checked_sub(1) else {
            ctx.violation("C31", "best_head_rule", "value_without_round",
                format!("caller {} received head {} although no head request was ever sent", got[0].0, got[0].1.height()));
            return;
        };
        let r = &self.rounds[ri];
        // The rule over the answers of this round delivered so far. Two readings of "reported by
        // trusted peers" when a peer lost the trusted flag between send and answer: its answer
        // counts (A) or not (B). NARROWER READING: a value acceptable under either is accepted.
        // one vote per peer: only the answer to a peer's first request of the round counts
        let mut voted: BTreeSet<PeerId> = BTreeSet::new();
        let first_per_peer: Vec<&(Option<ExtendedHeader>, bool)> = r
            .answers
            .iter()
            .filter(|(id, _)| r.peer_of.get(*id).is_none_or(|p| voted.insert(*p)))
            .map(|(_, v)| v)
            .collect();
        let all: Vec<&ExtendedHeader> = first_per_peer.iter().filter_map(|(h, _)| h.as_ref()).collect();
        let still_trusted: Vec<&ExtendedHeader> = first_per_peer.iter().filter(|(_, t)| *t).filter_map(|(h, _)| h.as_ref()).collect();
        let (mut acceptable, below_a) = best_head(&all);
        let (acc_b, _) = best_head(&still_trusted);
        acceptable.extend(acc_b);
        let desc = || {
            let mut counts: BTreeMap<(u64, String), usize> = BTreeMap::new();
            for h in &all {
                *counts.entry((h.height(), h.hash().to_string()[..8].to_string())).or_default() += 1;
            }
            format!("round {ri}: {} sends, {} answered, valid single answers (height, hash) x count: {:?}", r.sends.len(), r.answers.len(), counts)
        };
        if acceptable.is_empty() {
            ctx.oracle("C31.nothing_without_valid_answer");
            ctx.violation("C31", "nothing_without_valid_answer", "value_delivered",
                format!("caller {} received head {} but no valid single-header answer was delivered; {}", got[0].0, got[0].1.height(), desc()));
            return;
        }
        if below_a {
            ctx.probe("head_round_agreement_below_maximum");
        }
        if all.len() >= 2 {
            ctx.probe("head_round_with_several_valid_answers");
        }
        for (ci, h) in got {
            if !acceptable.contains(&h.hash().as_bytes().to_vec()) {
                let agreement = all.iter().filter(|x| x.hash() == h.hash()).count();
                let key = if below_a { "agreement_ignored" } else if agreement >= 2 { "lower_agreement_chosen" } else { "not_the_highest" };
                ctx.violation("C31", "best_head_rule", key,
                    format!("caller {ci} received head height {} hash {} (reported by {agreement}); {}", h.height(), &h.hash().to_string()[..8], desc()));
                return;
            }
        }
        // ---- every waiting caller receives the same answer
        ctx.oracle("C31.same_answer_for_all_waiting_callers");
        let first = self.rounds[ri].value.clone().unwrap_or_else(|| got[0].1.clone());
        for (ci, h) in got {
            if *h != first {
                ctx.violation("C31", "same_answer_for_all_waiting_callers", "different_headers",
                    format!("caller {ci} received head {} ({}) while another caller of the same round received {} ({})", h.height(), &h.hash().to_string()[..8], first.height(), &first.hash().to_string()[..8]));
                return;
            }
        }
        self.rounds[ri].value = Some(first);
        if got.len() >= 2 {
            ctx.probe("several_callers_answered_by_one_round");
        }
    }

    /// Head-mode checks that need the passage of time.
    fn periodic_head(&mut self, now: u64, at_end: bool) {
        let ctx = self.ctx.clone();
        // ---- a round without a valid answer is retried on the next schedule (and the first
        // round is started): liveness with a 2 s bound (the schedule interval is 100 ms).
        let waiting = self.callers.iter().any(|c| is_head(&c.req) && c.waiting());
        let in_flight = self.rounds.last().is_some_and(|r| r.completed_ms.is_none());
        let peer_ok = (0..self.ps.model.len()).any(|i| { let f = self.ps.flags(i); f.connected && f.trusted });
        if waiting && !in_flight && peer_ok && self.stopped_at.is_none() {
            let since = *self.eligible_since.get_or_insert(now);
            if now.saturating_sub(since) > 2000 {
                ctx.oracle("C31.retried_on_next_schedule");
                let after_failed = self.rounds.last().is_some_and(|r| r.value.is_none());
                ctx.violation("C31", "retried_on_next_schedule", if after_failed { "no_retry_after_failed_round" } else { "no_round_started" },
                    format!("a head caller has been waiting with a connected trusted peer and no round in flight for {} ms, and no head request was sent", now - since));
            }
        } else {
            self.eligible_since = None;
        }
        if at_end {
            // ---- callers that waited on a round which produced a value were answered
            for (ri, r) in self.rounds.iter().enumerate() {
                let (Some(done), Some(_)) = (r.completed_ms, r.value.as_ref()) else { continue };
                if now < done + 1000 {
                    continue;
                }
                for ci in &r.waiting_at_start {
                    let c = &self.callers[*ci];
                    ctx.oracle("C31.same_answer_for_all_waiting_callers");
                    if c.answer.is_none() && c.cancelled_at.is_none() {
                        ctx.violation("C31", "same_answer_for_all_waiting_callers", "waiting_caller_not_answered",
                            format!("caller {ci} was waiting when round {ri} was sent; the round delivered a head at {done} ms to other callers but not to it (now {now} ms)"));
                    }
                }
            }
            // a completed round without any valid answer delivered nothing: judged at receipt
            // (judge_head_values); count the rounds that exercised it
            for r in &self.rounds {
                if r.completed_ms.is_some() && r.answers.values().all(|(h, _)| h.is_none()) {
                    ctx.oracle("C31.nothing_without_valid_answer");
                    ctx.probe("head_round_without_valid_answer");
                }
            }
        }
    }

    // -------------------------------------------------------------------------------- C32

    fn judge_retry_answer(&mut self, i: usize, ans: &Answer) {
        let ctx = self.ctx.clone();
        let c = &self.callers[i];
        ctx.oracle("C32.answer_is_first_valid_or_final_error");
        let d = || format!("caller {i} ({}), sends {:?}, last outcome {:?}", describe_req(&c.req), c.sends, c.last_outcome);
        match ans {
            Ok(v) => {
                if c.first_valid.as_ref() != Some(v) {
                    ctx.violation("C32", "answer_is_first_valid_or_final_error", "ok_is_not_first_valid_response",
                        format!("Ok with heights {:?} but the first valid response delivered was {:?}; {}", v.iter().map(|h| h.height()).collect::<Vec<_>>(),
                            c.first_valid.as_ref().map(|f| f.iter().map(|h| h.height()).collect::<Vec<_>>()), d()));
                } else {
                    ctx.probe(match c.sends.len() { 1 => "answered_ok_on_first_try", 2 => "answered_ok_on_second_try", _ => "answered_ok_on_third_try" });
                }
            }
            Err(k) => {
                if self.stopped_at.is_some() && *k == ErrKind::Cancelled {
                    ctx.probe("answered_cancelled_on_stop");
                    return;
                }
                if c.first_valid.is_some() {
                    ctx.violation("C32", "answer_is_first_valid_or_final_error", "error_after_valid_response",
                        format!("Err({k:?}) although a valid response had been delivered; {}", d()));
                    return;
                }
                match (&c.last_outcome, k) {
                    (_, ErrKind::Cancelled) => ctx.violation("C32", "answer_is_first_valid_or_final_error", "cancelled_without_stop",
                        format!("RequestCancelled although the client was not stopped and the caller was waiting; {}", d())),
                    (Some((_, OutKind::Fail(f))), ErrKind::Outbound(g)) if f == g => ctx.probe("answered_final_error"),
                    // NARROWER READING: the statement does not fix which error kind a bad
                    // response list maps to; either response-level error is accepted.
                    (Some((_, OutKind::NotFound | OutKind::Invalid)), ErrKind::NotFound | ErrKind::InvalidResponse) => ctx.probe("answered_final_error"),
                    _ => ctx.violation("C32", "answer_is_first_valid_or_final_error", "error_is_not_the_final_error",
                        format!("Err({k:?}) does not correspond to the outcome of the last attempt; {}", d())),
                }
            }
        }
    }

    fn final_retry(&mut self, now: u64) {
        let ctx = self.ctx.clone();
        for (i, c) in self.callers.iter().enumerate() {
            if c.submitted_at.is_none() || c.cancelled_at.is_some() || is_head(&c.req) {
                continue;
            }
            if let Some(st) = self.stopped_at {
                ctx.oracle("C32.answered_on_stop");
                if now >= st + 1000 && c.answer.is_none() {
                    ctx.violation("C32", "answered_on_stop", "no_answer_after_stop",
                        format!("caller {i} ({}) has no answer {} ms after on_stop (sender dropped without a value: {})", describe_req(&c.req), now - st, c.dropped));
                }
            } else if self.faults_ended && self.cfg.stabilise && now >= self.cfg.faults_end_ms + 3000 {
                // after the last fault a connected peer and a connected archival peer exist, every
                // send is answered within 100 ms: 2 s (+1 s guard band) suffice for three tries
                ctx.oracle("C32.answered_when_peers_connected");
                if c.answer.is_none() {
                    ctx.violation("C32", "answered_when_peers_connected", "no_answer_2s_after_last_fault",
                        format!("caller {i} ({}) has no answer {} ms after the last fault; sends {:?}, last outcome {:?}, sender dropped: {}", describe_req(&c.req), now - self.cfg.faults_end_ms, c.sends, c.last_outcome, c.dropped));
                } else {
                    ctx.probe("answered_after_faults_stopped");
                }
            } else {
                ctx.probe("liveness_not_judged_partition_persists");
            }
        }
    }
}

// ------------------------------------------------------------------------------------ planning

impl Sim {
    /// Decide what the network does with one send.
    async fn plan(&mut self, rec: &SendRec) {
        let ctx = self.ctx.clone();
        let now = ctx.now_ms();
        let id = rec.id;
        let head = is_head(&rec.request);
        match self.mode {
            Mode::Validate => {
                // 0: a Byzantine response list, 1: failure, 2: timeout after 10 s, 3: never
                match ctx.weighted("plan.kind", &[80, 12, 5, 3]) {
                    0 => {
                        let target = self.sends.get(&id).and_then(|m| m.caller).and_then(|ci| self.callers[ci].hash_target.clone());
                        let hh = self.head_height;
                        let list = gen_response(&ctx, &mut self.fix, &rec.request, target.as_ref(), hh);
                        if list.len() as u64 > rec.request.amount {
                            ctx.probe("response_list_longer_than_amount");
                        }
                        direct_check(&ctx, &rec.request, &list).await;
                        let d = ctx.delay("plan.delay", self.cfg.max_delay).as_millis() as u64;
                        self.at(now + d, Action::Deliver { send_id: id, outcome: Outcome::Resp(list.clone()), kind: None });
                        if ctx.coin("plan.dup", self.cfg.p_dup) {
                            ctx.fault("duplicate_delivery");
                            let d2 = ctx.delay("plan.dup_delay", self.cfg.max_delay).as_millis() as u64;
                            // 0: the same list again, 1: another list, 2: a failure for the same id
                            let outcome = match ctx.choose("plan.dup_kind", 3) {
                                0 => Outcome::Resp(list),
                                1 => {
                                    let l2 = gen_response(&ctx, &mut self.fix, &rec.request, target.as_ref(), hh);
                                    direct_check(&ctx, &rec.request, &l2).await;
                                    Outcome::Resp(l2)
                                }
                                _ => Outcome::Fail(FailKind::pick(&ctx)),
                            };
                            self.at(now + d2, Action::Deliver { send_id: id, outcome, kind: None });
                        }
                    }
                    1 => {
                        let f = FailKind::pick(&ctx);
                        let d = ctx.delay("plan.delay", self.cfg.max_delay).as_millis() as u64;
                        self.at(now + d, Action::Deliver { send_id: id, outcome: Outcome::Fail(f), kind: None });
                    }
                    2 => self.at(now + 10_000, Action::Deliver { send_id: id, outcome: Outcome::Fail(FailKind::Timeout), kind: None }),
                    _ => {
                        ctx.fault("request_never_answered");
                        if let Some(m) = self.sends.get_mut(&id) {
                            m.planned_silent = true;
                        }
                    }
                }
            }
            Mode::Head => {
                if !head {
                    return;
                }
                // 0: a valid header of the pool, 1: invalid header, 2: two valid headers,
                // 3: not found, 4: invalid status, 5: empty list, 6: failure, 7: timeout, 8: never
                let k = ctx.weighted("plan.kind", &[60, 8, 6, 5, 3, 2, 12, 2, 2]);
                let outcome = match k {
                    0 => {
                        let i = ctx.choose("plan.pool", self.head_pool.len() as u32) as usize;
                        Some(Outcome::Resp(vec![ok_entry(&self.head_pool[i], Label::Valid, "pool")]))
                    }
                    1 => {
                        let h = self.head_height + ctx.range("plan.bad_height", 0, 6);
                        Some(Outcome::Resp(vec![if ctx.coin("plan.bad_kind", 500) { self.fix.wrong_data_hash(h) } else { self.fix.bad_sig(&ctx, h) }]))
                    }
                    2 => {
                        let i = ctx.choose("plan.pool", self.head_pool.len() as u32) as usize;
                        let a = self.head_pool[i].clone();
                        let b = self.fix.honest(a.height() + 1);
                        Some(Outcome::Resp(vec![ok_entry(&a, Label::Valid, "pool"), b]))
                    }
                    3 => Some(Outcome::Resp(vec![status_entry(StatusCode::NotFound.into(), "not_found")])),
                    4 => Some(Outcome::Resp(vec![status_entry(StatusCode::Invalid.into(), "invalid_status")])),
                    5 => Some(Outcome::Resp(vec![])),
                    6 => Some(Outcome::Fail(FailKind::pick(&ctx))),
                    7 => {
                        self.at(now + 10_000, Action::Deliver { send_id: id, outcome: Outcome::Fail(FailKind::Timeout), kind: None });
                        None
                    }
                    _ => {
                        ctx.fault("request_never_answered");
                        if let Some(m) = self.sends.get_mut(&id) {
                            m.planned_silent = true;
                        }
                        None
                    }
                };
                if k != 0 {
                    ctx.fault("bad_head_answer");
                }
                if let Some(o) = outcome {
                    let d = ctx.delay("plan.delay", self.cfg.max_delay).as_millis() as u64;
                    self.at(now + d, Action::Deliver { send_id: id, outcome: o, kind: None });
                }
            }
            Mode::Retry => {
                if head {
                    return;
                }
                let calm = self.faults_ended;
                // 0: valid, 1: not found, 2: invalid response, 3: failure, 4: never
                let k = if calm { ctx.weighted("plan.kind", &[40, 20, 20, 20]) } else { ctx.weighted("plan.kind", &[25, 15, 15, 35, 10]) };
                let max_delay = if calm { 100 } else { self.cfg.max_delay };
                let d = ctx.delay("plan.delay", max_delay).as_millis() as u64;
                let amount = rec.request.amount;
                let target = self.sends.get(&id).and_then(|m| m.caller).and_then(|ci| self.callers[ci].hash_target.clone());
                // for a hash request the "height" the bad answers are built around is the target's
                let origin = match (&rec.request.data, &target) {
                    (Some(Data::Origin(o)), _) => *o,
                    (_, Some(t)) => t.height(),
                    _ => 1,
                };
                let is_hash = matches!(rec.request.data, Some(Data::Hash(_)));
                let (outcome, kind) = match k {
                    // a hash nobody has a header for cannot be answered validly
                    0 if is_hash && target.is_none() => (Outcome::Resp(vec![self.fix.honest(origin)]), OutKind::Invalid),
                    0 => {
                        let list: Vec<Entry> = match &target {
                            Some(t) => vec![ok_entry(t, Label::Valid, "hash_target")],
                            None => {
                                let n = ctx.range("plan.valid_len", 1, amount.max(1));
                                (origin..origin + n).map(|h| self.fix.honest(h)).collect()
                            }
                        };
                        (Outcome::Resp(list), OutKind::Valid)
                    }
                    1 => (Outcome::Resp(vec![status_entry(StatusCode::NotFound.into(), "not_found")]), OutKind::NotFound),
                    2 => {
                        let list = match ctx.choose("plan.invalid_kind", 6) {
                            0 => vec![self.fix.bad_sig(&ctx, origin)],
                            1 => vec![status_entry(StatusCode::Invalid.into(), "invalid_status")],
                            2 => vec![],
                            3 => vec![self.fix.honest(origin + 1)],
                            4 => vec![self.fix.wrong_data_hash(origin)],
                            _ => {
                                ctx.probe("response_list_longer_than_amount");
                                (origin..=origin + amount).map(|h| self.fix.honest(h)).collect()
                            }
                        };
                        (Outcome::Resp(list), OutKind::Invalid)
                    }
                    3 => {
                        let f = FailKind::pick(&ctx);
                        (Outcome::Fail(f), OutKind::Fail(f))
                    }
                    _ => {
                        ctx.fault("request_never_answered");
                        if let Some(m) = self.sends.get_mut(&id) {
                            m.planned_silent = true;
                        }
                        return;
                    }
                };
                if k != 0 {
                    ctx.fault("attempt_fails");
                }
                self.at(now + d, Action::Deliver { send_id: id, outcome, kind: Some(kind) });
            }
        }
    }
}

fn distinct_request(ctx: &RunCtx, fix: &mut Fix, used: &mut Vec<HeaderRequest>, allow_head: bool, allow_invalid: bool, idx: u64) -> (HeaderRequest, Option<ExtendedHeader>) {
    // 0: by height, 1: by hash, 2: head, 3: invalid
    let w = [6, 2, if allow_head { 2 } else { 0 }, if allow_invalid { 1 } else { 0 }];
    let (req, target) = match ctx.weighted("caller.kind", &w) {
        1 => {
            // distinct hashes: the height is the caller's own
            let h = 2 + idx * 5 + ctx.range("caller.hash_height", 0, 4);
            match ctx.choose("caller.hash_of", 3) {
                0 => {
                    let t = fix.chain.get(fix.clamp(h)).clone();
                    (HeaderRequest { data: Some(Data::Hash(t.hash().as_bytes().to_vec())), amount: 1 }, Some(t))
                }
                1 => {
                    let t = fix.fork_header(h);
                    (HeaderRequest { data: Some(Data::Hash(t.hash().as_bytes().to_vec())), amount: 1 }, Some(t))
                }
                _ => {
                    let mut b = vec![0u8; 32];
                    fix.frng.fill(&mut b);
                    (HeaderRequest { data: Some(Data::Hash(b)), amount: 1 }, None)
                }
            }
        }
        2 => (HeaderRequest { data: Some(Data::Origin(0)), amount: 1 }, None),
        3 => {
            let r = match ctx.choose("caller.invalid_kind", 5) {
                0 => HeaderRequest { data: Some(Data::Origin(3 + idx)), amount: 0 },
                1 => HeaderRequest { data: Some(Data::Origin(0)), amount: 2 + idx },
                2 => HeaderRequest { data: Some(Data::Hash(vec![idx as u8; 31])), amount: 1 },
                3 => HeaderRequest { data: None, amount: 1 + idx },
                _ => HeaderRequest { data: Some(Data::Hash(vec![idx as u8; 32])), amount: 2 },
            };
            (r, None)
        }
        _ => {
            let start = ctx.range("caller.start", 1, 30);
            let amount = *ctx.pick("caller.amount", &[1u64, 2, 3, 5, 8, 16]);
            (HeaderRequest { data: Some(Data::Origin(start)), amount }, None)
        }
    };
    // sends are attributed to callers by request content: keep non-head requests distinct
    let mut req = req;
    while !is_head(&req) && used.contains(&req) {
        match &mut req.data {
            Some(Data::Origin(o)) => *o += 1,
            Some(Data::Hash(h)) => {
                if let Some(b) = h.first_mut() {
                    *b = b.wrapping_add(1);
                }
            }
            None => req.amount += 1,
        }
    }
    used.push(req.clone());
    // a hash request whose hash had to be changed no longer has a target
    let target = match (&req.data, target) {
        (Some(Data::Hash(h)), Some(t)) if t.hash().as_bytes() == &h[..] => Some(t),
        _ => None,
    };
    (req, target)
}

async fn scenario(ctx: Arc<RunCtx>, mode: Mode) {
    let thorough = ctx.tier == Tier::Thorough;
    let mut fix = Fix::new(&ctx, 64);
    let mut ps = PeerSet::new();
    let mut timeline: Vec<(u64, Action)> = Vec::new();
    let mut callers: Vec<Caller> = Vec::new();
    let mut used: Vec<HeaderRequest> = Vec::new();
    let head_height = ctx.range("cfg.head_height", 5, 30);
    let mut head_pool: Vec<ExtendedHeader> = Vec::new();
    let mut cfg = Cfg { p_dup: 0, max_delay: 300, end_ms: 12_000, faults_end_ms: 0, stabilise: false };

    match mode {
        Mode::Validate => {
            let n_peers = 2 + ctx.choose("cfg.peers", 5) as usize;
            for i in 0..n_peers {
                ps.add();
                ps.connect(i);
                if i < 2 || ctx.coin("peer.trusted", 500) {
                    ps.set_trusted(i, true);
                }
                if i == 0 || ctx.coin("peer.archival", 300) {
                    ps.mark_archival(i);
                }
            }
            cfg.p_dup = ctx.range("cfg.p_dup", 0, 250) as u32;
            cfg.max_delay = ctx.range("cfg.max_delay", 0, 300) as u32;
            let n_callers = 1 + ctx.choose("cfg.callers", if thorough { 8 } else { 6 }) as u64;
            for i in 0..n_callers {
                ctx.begin_span("caller");
                let (req, target) = distinct_request(&ctx, &mut fix, &mut used, true, true, i);
                let at = ctx.range("caller.at_ms", 0, 400);
                ctx.end_span();
                callers.push(Caller::new(req, target, None));
                timeline.push((at, Action::Submit(i as usize)));
            }
            cfg.end_ms = 15_000;
        }
        Mode::Head => {
            let n_peers = match ctx.weighted("cfg.peers_class", &[12, 1]) {
                0 => 1 + ctx.choose("cfg.peers", 10) as usize,
                _ => 11 + ctx.choose("cfg.peers_over", 3) as usize,
            };
            for i in 0..n_peers {
                ps.add();
                if !ctx.coin("peer.untrusted", 250) {
                    ps.set_trusted(i, true);
                }
                if !ctx.coin("peer.disconnected", 150) {
                    ps.connect(i);
                    // several simultaneous connections to one peer are legal in libp2p
                    // (simultaneous dial, inbound + outbound): still one peer, one vote
                    while ps.model[i].conns.len() < 3 && ctx.coin("peer.extra_connection", 200) {
                        ps.connect(i);
                    }
                }
            }
            // candidate heads: honest heights and forks of them, all valid; a small candidate
            // set makes agreement between peers frequent
            let pool_n = 2 + ctx.choose("cfg.pool", 6) as usize;
            let cands: Vec<(u64, bool)> = vec![(0, false), (1, false), (1, true), (2, false), (0, true), (3, false), (3, true), (2, true)];
            for (dh, forked) in cands.into_iter().take(pool_n) {
                let h = head_height + dh;
                head_pool.push(if forked { fix.fork_header(h) } else { fix.chain.get(fix.clamp(h)).clone() });
            }
            cfg.max_delay = ctx.range("cfg.max_delay", 0, 400) as u32;
            let n_callers = 1 + ctx.choose("cfg.callers", 4) as usize;
            let mut last = 0;
            for i in 0..n_callers {
                ctx.begin_span("caller");
                let at = ctx.range("caller.at_ms", 0, 800);
                let cancel = if ctx.coin("caller.cancels", 80) { Some(at + ctx.range("caller.cancel_after", 0, 600)) } else { None };
                ctx.end_span();
                callers.push(Caller::new(HeaderRequest { data: Some(Data::Origin(0)), amount: 1 }, None, cancel));
                timeline.push((at, Action::Submit(i)));
                if let Some(c) = cancel {
                    timeline.push((c, Action::Cancel(i)));
                }
                last = last.max(at);
            }
            let n_flips = ctx.weighted("cfg.flips", &[4, 2, 2, 1, 1, 1, 1]);
            for _ in 0..n_flips {
                ctx.begin_span("flip");
                let at = ctx.range("flip.at_ms", 0, 2500);
                let peer = ctx.choose("flip.peer", n_peers as u32) as usize;
                let kind = ctx.choose("flip.kind", 2);
                ctx.end_span();
                timeline.push((at, Action::Flip { peer, kind }));
                last = last.max(at);
            }
            cfg.end_ms = last + 4000;
        }
        Mode::Retry => {
            let n_peers = ctx.choose("cfg.peers", 7) as usize;
            for i in 0..n_peers {
                ps.add();
                if !ctx.coin("peer.disconnected", 300) {
                    ps.connect(i);
                    if ctx.coin("peer.archival", 400) {
                        ps.mark_archival(i);
                    }
                } else if ctx.coin("peer.archival_unconnected", 350) {
                    // discovered as an archival provider, never dialled
                    ps.mark_archival(i);
                }
                if ctx.coin("peer.trusted", 300) {
                    ps.set_trusted(i, true);
                }
            }
            cfg.max_delay = ctx.range("cfg.max_delay", 0, 300) as u32;
            cfg.faults_end_ms = ctx.range("cfg.faults_end_ms", 300, 3000);
            cfg.stabilise = !ctx.coin("cfg.partition_persists", 120);
            let n_callers = 1 + ctx.choose("cfg.callers", 5) as u64;
            for i in 0..n_callers {
                ctx.begin_span("caller");
                let (req, target) = distinct_request(&ctx, &mut fix, &mut used, false, false, i);
                let at = ctx.range("caller.at_ms", 0, cfg.faults_end_ms);
                let cancel = if ctx.coin("caller.cancels", 120) { Some(at + ctx.range("caller.cancel_after", 0, 800)) } else { None };
                ctx.end_span();
                callers.push(Caller::new(req, target, cancel));
                timeline.push((at, Action::Submit(i as usize)));
                if let Some(c) = cancel {
                    timeline.push((c, Action::Cancel(i as usize)));
                }
            }
            let n_flips = ctx.weighted("cfg.flips", &[3, 2, 2, 2, 1, 1, 1, 1, 1]);
            for _ in 0..n_flips {
                ctx.begin_span("flip");
                let at = ctx.range("flip.at_ms", 0, cfg.faults_end_ms - 1);
                let peer = ctx.choose("flip.peer", n_peers.max(1) as u32) as usize;
                let kind = ctx.weighted("flip.kind", &[5, 1, 3, 1, 2]) as u32;
                ctx.end_span();
                timeline.push((at, Action::Flip { peer, kind }));
            }
            timeline.push((cfg.faults_end_ms, Action::FaultsEnd));
            if ctx.coin("cfg.stop", 200) {
                let at = ctx.range("stop.at_ms", 0, cfg.faults_end_ms + 1500);
                timeline.push((at, Action::Stop));
                // a caller arriving after the stop
                if ctx.coin("stop.late_caller", 400) {
                    let (req, target) = distinct_request(&ctx, &mut fix, &mut used, false, false, n_callers);
                    callers.push(Caller::new(req, target, None));
                    timeline.push((at + ctx.range("stop.late_after", 0, 300), Action::Submit(callers.len() - 1)));
                }
            }
            cfg.end_ms = cfg.faults_end_ms + 3500;
        }
    }

    let wake = Arc::new(WakeFlag { woken: AtomicBool::new(false), notify: Notify::new() });
    let mut sim = Sim {
        ctx: ctx.clone(),
        mode,
        fix,
        ps,
        client: hx::HxClient::new(),
        sender: hx::SenderAdapter(SimNetSender { ctx: ctx.clone(), snapshot: BTreeMap::new(), sched_seq: 0, next_id: 0, log: Vec::new() }),
        wake,
        timeline: BTreeMap::new(),
        seq: 0,
        seen_sends: 0,
        callers,
        sends: BTreeMap::new(),
        rounds: Vec::new(),
        sched_seq: 0,
        stopped_at: None,
        faults_ended: false,
        eligible_since: None,
        head_pool,
        head_height,
        cfg,
    };
    for (at, a) in timeline {
        sim.at(at, a);
    }

    let mut now;
    loop {
        now = ctx.now_ms();
        // ---- due actions, one at a time, the client driven to quiescence after each
        loop {
            let Some((&(due, seq), _)) = sim.timeline.iter().next() else { break };
            if due > now {
                break;
            }
            let Some(a) = sim.timeline.remove(&(due, seq)) else { break };
            sim.exec(a).await;
            sim.drive().await;
            if sim.has_findings() {
                break;
            }
        }
        sim.drive().await;
        if mode == Mode::Head {
            sim.periodic_head(now, false);
        }
        if sim.has_findings() || ctx.over_step_cap() || now >= sim.cfg.end_ms {
            break;
        }
        let all_resolved = sim.callers.iter().all(|c| c.submitted_at.is_some() && !c.waiting());
        if all_resolved && sim.timeline.is_empty() && mode != Mode::Retry {
            break;
        }
        let next = sim.timeline.keys().next().map(|k| k.0).unwrap_or(u64::MAX).min(sim.cfg.end_ms);
        let wait = Duration::from_millis(next.saturating_sub(now).max(1));
        let wake = sim.wake.clone();
        tokio::select! {
            _ = tokio::time::sleep(wait) => {}
            _ = wake.notify.notified() => {}
        }
    }
    if !sim.has_findings() {
        match mode {
            Mode::Head => sim.periodic_head(now, true),
            Mode::Retry => sim.final_retry(now),
            Mode::Validate => {}
        }
    }
    for c in &sim.callers {
        if c.waiting() {
            ctx.probe("caller_still_waiting_at_end");
        }
    }
}
