//! W-STORE, concurrent callers: several tasks (the syncer, the daser, the pruner and the API all
//! share one `Store`) issue operations on the same store at the same time, and the simulator
//! decides where each call is preempted.
//!
//! On the single-threaded simulated runtime a store call runs until it awaits something. The
//! preemption points that exist inside the stores are tokio's cooperative-scheduling points (every
//! `RwLock`/`Mutex`/`Notify`/channel acquisition consumes one unit of the task's budget and
//! yields when it is exhausted). Before each call a task burns a chooser-selected amount of its
//! budget, so the call is forced to yield at its 1st, 2nd, ... n-th synchronisation point — the
//! place where a second thread of the real multi-threaded runtime could run. (`RedbStore` runs
//! its transactions inline here; whole transactions are its atomic steps.)
//!
//! Oracles: the recorded concurrent history (invoke/return stamped with the global event
//! sequence number) must be linearizable against the sequential reference model, with the final
//! store state equal to the model state of some admissible linearization (C19); in the final
//! state every two consecutive stored headers are hash-linked and the hash index is consistent
//! (C21).

use std::collections::BTreeSet;
use std::sync::Arc;
use std::time::Duration;

use lumina_node::store::{InMemoryStore, Store};
use lumina_node::verif;

use crate::kernel::ctx::{RunCtx, Tier};
use crate::kernel::runner::{World, WorldFut};
use crate::seams::disk::SimDisk;
use crate::seams::store_model::{Kind, Model, kind_of_res};
use crate::worlds::store::{Gen, Op, apply_to_store, battery, model_step, open_redb};

pub struct StoreConcWorld;

impl World for StoreConcWorld {
    fn name(&self) -> &'static str {
        "store.concurrent"
    }
    fn run<'a>(&'a self, ctx: &'a Arc<RunCtx>) -> WorldFut<'a> {
        Box::pin(run_conc(ctx))
    }
    fn vtime_cap(&self) -> Duration {
        Duration::from_secs(600)
    }
}

#[derive(Clone)]
struct Rec {
    task: usize,
    op: Op,
    invoke: u64,
    ret: u64,
    kind: Kind,
}

/// All final model states reachable by linearizations of `recs` (grouped per task in program
/// order) that respect real-time order and in which every op's observed result kind is one the
/// model allows at its linearization point.
fn linearize(model: &Model, per_task: &[Vec<Rec>], pos: &mut Vec<usize>, now_ns: i64, out: &mut Vec<Model>, budget: &mut u64) {
    if *budget == 0 {
        return;
    }
    *budget -= 1;
    if per_task.iter().enumerate().all(|(t, v)| pos[t] == v.len()) {
        if !out.iter().any(|m| m == model) {
            out.push(model.clone());
        }
        return;
    }
    // earliest return among the pending (not yet linearized) head ops: an op invoked after that
    // return cannot be linearized before it
    let min_ret = per_task
        .iter()
        .enumerate()
        .filter_map(|(t, v)| v.get(pos[t]).map(|r| r.ret))
        .min()
        .unwrap_or(u64::MAX);
    for t in 0..per_task.len() {
        let Some(r) = per_task[t].get(pos[t]) else { continue };
        if r.invoke > min_ret {
            continue;
        }
        let (allowed, next) = model_step(model, &r.op, now_ns);
        if !allowed.contains(&r.kind) {
            continue;
        }
        pos[t] += 1;
        match (r.kind, next) {
            (Kind::Ok, Some(m2)) => linearize(&m2, per_task, pos, now_ns, out, budget),
            (Kind::Ok, None) => {}
            _ => linearize(model, per_task, pos, now_ns, out, budget),
        }
        pos[t] -= 1;
    }
}

async fn run_conc(ctx: &Arc<RunCtx>) {
    let thorough = ctx.tier == Tier::Thorough;
    let mut g = Gen::new(ctx, false, if thorough { 60 } else { 30 });
    let max_h = g.chain.len();
    let now_ns = ctx.wall_now_ns();
    let use_redb = ctx.coin("cfg.redb", 250);
    if use_redb {
        verif::set_inline_blocking(true);
    }

    // ---- sequential prefix: build a state with ranges and gaps
    let mut model = Model::default();
    let mut prefix: Vec<Op> = Vec::new();
    let n_pre = ctx.range("pre.n", 0, 8);
    for _ in 0..n_pre {
        ctx.begin_span("pre");
        let op = g.next_op(&model);
        let (allowed, next) = model_step(&model, &op, now_ns);
        if let (true, Some(m2)) = (allowed.contains(&Kind::Ok), next) {
            model = m2;
            prefix.push(op);
        }
        ctx.end_span();
    }
    // ---- concurrent ops, all generated against the same state (so that they collide)
    let k = 2 + ctx.choose("cfg.tasks", 2) as usize;
    let mut plans: Vec<Vec<(Op, u32)>> = Vec::new();
    for _ in 0..k {
        let n = 1 + ctx.choose("cfg.ops_per_task", 3);
        let mut v = Vec::new();
        for _ in 0..n {
            ctx.begin_span("cop");
            // often: an insert directly above or below a range another caller inserts at the
            // same time (honest or forked), so that each is the other's unverified neighbour
            let anchor: Option<(u64, u64)> = plans.iter().flatten().filter_map(|(o, _): &(Op, u32)| match o {
                Op::Insert(b) if !b.is_empty() && b.first().unwrap().height() <= b.last().unwrap().height() => Some((b.first().unwrap().height(), b.last().unwrap().height())),
                Op::InsertOne(h) => Some((h.height(), h.height())),
                _ => None,
            }).last();
            let op = match anchor {
                Some((alo, ahi)) if ctx.coin("cop.neighbour", 500) => {
                    let len = ctx.range("cop.nlen", 1, 4);
                    let (lo, hi) = if ctx.coin("cop.above", 500) { (ahi + 1, ahi + len) } else { (alo.saturating_sub(len).max(1), alo.saturating_sub(1)) };
                    if lo >= 1 && lo <= hi && hi <= max_h {
                        ctx.probe("neighbouring_concurrent_inserts");
                        if ctx.coin("cop.fork", 500) {
                            let f = g.chain.fork(&mut g.frng, lo, hi);
                            g.forks.push(f.clone());
                            Op::Insert(f)
                        } else {
                            Op::Insert((lo..=hi).map(|h| g.chain.get(h).clone()).collect())
                        }
                    } else {
                        g.next_op(&model)
                    }
                }
                _ => g.next_op(&model),
            };
            // burn so that the call is preempted at one of its first synchronisation points
            // (128 = yield before the call; 127 = after its first acquisition, ...)
            let burn = 128 - ctx.choose("burn", 12);
            ctx.end_span();
            v.push((op, burn));
        }
        plans.push(v);
    }
    let hashes = g.known_hashes();

    for backend in ["in_memory", "redb"] {
        if (backend == "redb") != use_redb {
            continue;
        }
        let disk = SimDisk::new(ctx);
        let mem = Arc::new(InMemoryStore::new());
        let redb = if use_redb {
            match open_redb(ctx, &disk).await {
                Ok((s, _db)) => Some(Arc::new(s)),
                Err(e) => {
                    ctx.note("open_failed", e.to_string());
                    return;
                }
            }
        } else {
            None
        };
        for op in &prefix {
            let r = match &redb {
                Some(s) => apply_to_store(&**s, op).await,
                None => apply_to_store(&*mem, op).await,
            };
            if r.is_err() {
                ctx.note("prefix_op_failed", op.describe());
                return;
            }
        }
        let (tx, mut rx) = tokio::sync::mpsc::unbounded_channel::<Rec>();
        let mut set = tokio::task::JoinSet::new();
        for (t, plan) in plans.iter().cloned().enumerate() {
            let ctx2 = ctx.clone();
            let mem = mem.clone();
            let redb = redb.clone();
            let tx = tx.clone();
            set.spawn(async move {
                for (op, burn) in plan {
                    for _ in 0..burn {
                        tokio::task::consume_budget().await;
                    }
                    ctx2.ev_with("invoke", t as u64, 0, || op.describe());
                    let invoke = ctx2.seq();
                    let r = match &redb {
                        Some(s) => apply_to_store(&**s, &op).await,
                        None => apply_to_store(&*mem, &op).await,
                    };
                    let kind = kind_of_res(&r);
                    ctx2.ev("return", t as u64, kind as u64);
                    let ret = ctx2.seq();
                    let _ = tx.send(Rec { task: t, op, invoke, ret, kind });
                }
            });
        }
        drop(tx);
        let mut panicked = false;
        while let Some(r) = set.join_next().await {
            if r.is_err() {
                panicked = true;
            }
        }
        let mut recs: Vec<Rec> = Vec::new();
        while let Ok(r) = rx.try_recv() {
            recs.push(r);
        }
        if panicked {
            let p = ctx.panics.lock().unwrap().iter().rev().find(|p| !crate::kernel::runner::is_harness_location(&p.location)).cloned();
            let (loc, msg) = p.map(|p| (p.location, p.message)).unwrap_or_default();
            ctx.violation("C19", "no_panic", &crate::kernel::runner::short_location(&loc), format!("a store operation panicked under concurrent callers at {loc}: {msg}"));
            return;
        }
        let mut per_task: Vec<Vec<Rec>> = vec![Vec::new(); k];
        for r in &recs {
            per_task[r.task].push(r.clone());
        }
        for v in per_task.iter_mut() {
            v.sort_by_key(|r| r.invoke);
        }
        // was there real overlap (an op invoked before another one returned)?
        let overlapped = recs.iter().any(|a| recs.iter().any(|b| a.task != b.task && a.invoke < b.ret && b.invoke < a.ret));
        if overlapped {
            ctx.probe("operations_overlapped");
        }
        if recs.iter().any(|r| r.kind != Kind::Ok) {
            ctx.probe("concurrent_op_rejected");
        }

        // ---- C21 on the final state (direct statement)
        let all: Vec<u64> = (1..=max_h + 1).collect();
        c21_final(ctx, &mem, redb.as_deref(), &all, backend).await;

        // ---- C19: linearizable, and the final state is the state of an admissible linearization
        ctx.oracle("C19.concurrent_linearizable");
        let mut finals: Vec<Model> = Vec::new();
        let mut budget = 200_000u64;
        let mut pos = vec![0usize; k];
        linearize(&model, &per_task, &mut pos, now_ns, &mut finals, &mut budget);
        if budget == 0 {
            ctx.probe("linearization_search_cut");
            continue;
        }
        let describe = || {
            let mut v: Vec<&Rec> = recs.iter().collect();
            v.sort_by_key(|r| r.invoke);
            v.iter().map(|r| format!("t{}:{}@{}..{}->{:?}", r.task, r.op.describe(), r.invoke, r.ret, r.kind)).collect::<Vec<_>>().join(", ")
        };
        if finals.is_empty() {
            ctx.violation("C19", "concurrent_linearizable", backend,
                format!("no sequential order of the concurrent operations (respecting each caller's order and real-time order) explains the results the callers got: {}", describe()));
            continue;
        }
        let mut errs = Vec::new();
        let mut matched = false;
        for m in &finals {
            let r = match &redb {
                Some(s) => battery(&**s, m, None, &hashes, max_h).await,
                None => battery(&*mem, m, None, &hashes, max_h).await,
            };
            match r {
                Ok(()) => { matched = true; break; }
                Err(e) => errs.push(e),
            }
        }
        if !matched {
            ctx.violation("C19", "concurrent_linearizable", &format!("{backend}_final_state"),
                format!("the final store state equals the model state of none of the {} admissible linearizations ({}): {}", finals.len(), describe(), errs.first().cloned().unwrap_or_default()));
        }
    }
}

async fn c21_final(ctx: &RunCtx, mem: &InMemoryStore, redb: Option<&lumina_node::store::RedbStore>, heights: &[u64], backend: &'static str) {
    match redb {
        Some(s) => c21_scan(ctx, s, heights, backend).await,
        None => c21_scan(ctx, mem, heights, backend).await,
    }
}

async fn c21_scan<S: Store>(ctx: &RunCtx, s: &S, heights: &[u64], backend: &'static str) {
    let mut stored = BTreeSet::new();
    for &h in heights {
        let Ok(a) = s.get_by_height(h).await else { continue };
        stored.insert(h);
        ctx.oracle("C21.hash_index");
        match s.get_by_hash(&a.hash()).await {
            Ok(b) if b == a => {}
            r => ctx.violation("C21", "hash_index", backend,
                format!("after concurrent operations get_by_hash(hash of stored header {h}) returned {:?}", r.map(|x| x.height()).map_err(|e| e.to_string()))),
        }
        if let Ok(b) = s.get_by_height(h + 1).await {
            ctx.oracle("C21.adjacent");
            if let Err(e) = a.verify_adjacent(&b) {
                ctx.violation("C21", "adjacent", backend,
                    format!("after concurrent operations stored headers {h} and {} are not linked: {e}", h + 1));
            }
        }
    }
    if stored.len() > 1 {
        ctx.probe("concurrent_final_state_nonempty");
    }
}
