//! W-DAS: the real `Daser` over a recording store and a mocked `P2p` whose bitswap side is played
//! by the simulator. Every block "received from the network" passes through the real
//! `ShwapMultihasher` and is delivered to the daser's query only if the returned multihash equals
//! the wanted CID (beetswap's rule).
//!
//! Faults: samples answered late, never, out of order; withholding/Byzantine peers that answer a
//! request for (r,c) with other positions' honest samples re-wrapped, altered shares, altered
//! proofs, foreign ids, unknown multihash codes, blocks for unknown or pruned heights; store
//! growth (new heads, backward batches) and pruning while sampling; connection loss; pruner
//! reports.
//!
//! Decides C33 (sampled only after full success), C34 (limits and recency), C04 (verified sample
//! is the share at the requested coordinates), C10 (multihasher accepts only verifying blocks).

use std::collections::{BTreeMap, BTreeSet};
use std::sync::{Arc, Mutex};
use std::time::Duration;

use bytes::BytesMut;
use celestia_proto::bitswap::Block;
use celestia_types::AxisType;
use celestia_types::sample::{RawSample, SAMPLE_ID_MULTIHASH_CODE, Sample, SampleId};
use cid::Cid;
use lumina_node::events::{EventSubscriber, NodeEvent, TryRecvError};
use lumina_node::node::{P2pError, PeerTrackerInfo};
use lumina_node::store::{InMemoryStore, Store};
use lumina_node::verif::{self, DaserHandle, Events, P2pCommand};
use prost::Message;
use tokio::sync::oneshot;

use crate::kernel::ctx::{RunCtx, Tier, time_to_ns};
use crate::kernel::runner::{World, WorldFut, is_harness_location};
use crate::seams::rec_store::{Call, RecStore, Ret, StoreObserver};
use crate::seams::squares::{DataChain, DataChainParams};
use crate::seams::store_model::ranges_to_set;

pub struct DasWorld;

impl World for DasWorld {
    fn name(&self) -> &'static str {
        "das.net"
    }
    fn run<'a>(&'a self, ctx: &'a Arc<RunCtx>) -> WorldFut<'a> {
        Box::pin(run_das(ctx))
    }
    fn vtime_cap(&self) -> Duration {
        Duration::from_secs(3600 * 24)
    }
}

const EPS_NS: i64 = 1_000_000_000;
const PRUNER_THRESHOLD: u64 = 512;

// ------------------------------------------------------------------------------------ observer

#[derive(Default)]
struct Attempt {
    /// (row, col) chosen for this attempt
    ids: BTreeSet<(u16, u16)>,
    /// ids for which a verified block carrying the true share was delivered to the daser
    delivered_true: BTreeSet<(u16, u16)>,
    /// ids whose caller gave up (response channel closed before delivery) or that got nothing
    any_timeout_event: bool,
    started_seq: u64,
}


struct ObsState {
    attempts: BTreeMap<u64, Attempt>,
    /// daser's last reads
    last_stored: Option<BTreeSet<u64>>,
    last_sampled: Option<BTreeSet<u64>>,
    /// heights granted to the pruner (daser answered `true`)
    granted: BTreeSet<u64>,
    /// heights started (or dropped as out of the window) so far
    started: BTreeSet<u64>,
    /// A disconnection was published at some point. When the daser notices it, it forgets its
    /// in-progress, timed-out and queue bookkeeping; the instant at which it notices is not
    /// observable, so from then on the concurrency and recency clauses are not judged (the
    /// window and prunable-pause clauses still are).
    disconnected_once: bool,
    starts: u64,
    results: u64,
    /// fenced pruner reports
    highest_prunable: Option<u64>,
    backlog: u64,
    /// an update is in flight (sent, fence not yet returned): the prunable clause is not judged
    report_in_flight: bool,
    /// heights whose want_to_prune is in flight (answer unknown yet)
    prune_in_flight: BTreeSet<u64>,
    marked: BTreeSet<u64>,
    /// wall clock when the daser read the header of a height: its sampling-window check follows
    /// that read at once, while the metadata write that announces the attempt comes after a
    /// (delayed) store call during which the clock may jump
    header_read_at: BTreeMap<u64, i64>,
}

struct Obs {
    ctx: Arc<RunCtx>,
    chain: Arc<DataChain>,
    limit: usize,
    extra: usize,
    sampling_window_ns: i64,
    events: Mutex<EventSubscriber>,
    st: Mutex<ObsState>,
}

impl Obs {
    fn drain_events(&self) {
        let mut sub = self.events.lock().unwrap();
        loop {
            match sub.try_recv() {
                Ok(info) => self.on_event(info.event),
                Err(TryRecvError::Empty) | Err(TryRecvError::Closed) => break,
            }
        }
    }

    fn on_event(&self, ev: NodeEvent) {
        match ev {
            NodeEvent::SamplingStarted { height, square_width, shares } => {
                self.ctx.ev("ev.sampling_started", height, square_width as u64);
                // C33: the chosen shares are those recorded for the attempt
                let st = self.st.lock().unwrap();
                if let Some(a) = st.attempts.get(&height) {
                    self.ctx.oracle("C33.event_matches_metadata");
                    let evset: BTreeSet<(u16, u16)> = shares.iter().copied().collect();
                    if evset != a.ids {
                        self.ctx.violation("C33", "event_matches_metadata", "daser",
                            format!("SamplingStarted for {height} lists {} shares that differ from the {} CIDs recorded in the sampling metadata", evset.len(), a.ids.len()));
                    }
                }
            }
            NodeEvent::ShareSamplingResult { height, timed_out, .. } => {
                if timed_out {
                    if let Some(a) = self.st.lock().unwrap().attempts.get_mut(&height) {
                        a.any_timeout_event = true;
                    }
                    self.ctx.probe("share_sampling_timed_out");
                }
            }
            NodeEvent::SamplingResult { height, timed_out, .. } => {
                self.ctx.ev("ev.sampling_result", height, timed_out as u64);
                self.st.lock().unwrap().results += 1;
                if timed_out {
                    self.ctx.probe("block_sampling_timed_out");
                }
            }
            NodeEvent::FatalDaserError { error } => {
                self.ctx.note("fatal_daser_error", error);
                self.ctx.probe("fatal_daser_error");
            }
            _ => {}
        }
    }

    /// The daser announced the shares of a new attempt (this directly precedes the start).
    fn on_attempt(&self, height: u64, cids: &[Cid]) {
        let ctx = &self.ctx;
        let mut st = self.st.lock().unwrap();
        let width = if height <= self.chain.len() { self.chain.square(height).width() } else { 0 };
        // ---- C33: distinct, inside the square, min(w^2, 16) many
        ctx.oracle("C33.chosen_shares");
        let mut ids = BTreeSet::new();
        let mut bad = None;
        for cid in cids {
            match SampleId::try_from(cid) {
                Ok(id) if id.block_height() == height && id.row_index() < width && id.column_index() < width => {
                    if !ids.insert((id.row_index(), id.column_index())) {
                        bad = Some(format!("share ({},{}) chosen twice", id.row_index(), id.column_index()));
                    }
                }
                Ok(id) => bad = Some(format!("share ({},{}) of height {} is outside the {width}x{width} square of height {height}", id.row_index(), id.column_index(), id.block_height())),
                Err(e) => bad = Some(format!("recorded CID does not decode to a sample id: {e}")),
            }
        }
        let want = (width as usize * width as usize).min(16);
        if bad.is_none() && ids.len() != want {
            bad = Some(format!("{} shares chosen for a {width}x{width} square, expected {want}", ids.len()));
        }
        if let Some(b) = bad {
            ctx.violation("C33", "chosen_shares", "daser", format!("height {height}: {b}"));
        }
        let seq = ctx.seq();
        st.attempts.insert(height, Attempt { ids, started_seq: seq, ..Default::default() });

        // ---- C34: concurrency limit
        if !st.disconnected_once {
            ctx.oracle("C34.concurrency_limit");
            let in_progress = (st.starts - st.results) as usize;
            let is_head = st.last_stored.as_ref().and_then(|s| s.iter().next_back().copied()) == Some(height);
            let allowed = if is_head { self.limit + self.extra } else { self.limit };
            if in_progress >= allowed {
                ctx.violation("C34", "concurrency_limit", if is_head { "head" } else { "non_head" },
                    format!("sampling of height {height} started while {in_progress} blocks were in progress (limit {}, header-sub allowance {}, newest stored: {is_head})", self.limit, self.extra));
            }
            if in_progress + 1 == allowed {
                ctx.probe("started_at_the_limit");
            }
        }
        st.starts += 1;

        // ---- C34: never older than the sampling window
        ctx.oracle("C34.inside_window");
        if height <= self.chain.len() {
            let t = time_to_ns(self.chain.time_of(height));
            let now = st.header_read_at.get(&height).copied().unwrap_or_else(|| ctx.wall_now_ns());
            if t < now - self.sampling_window_ns - EPS_NS {
                ctx.violation("C34", "inside_window", "daser",
                    format!("sampling of height {height} started although its block is {} s older than the sampling window", (now - self.sampling_window_ns - t) / 1_000_000_000));
            }
        }
        // ---- C34: prunable blocks are not started while the pruner reports a big backlog
        if !st.report_in_flight {
            ctx.oracle("C34.prunable_pause");
            if st.highest_prunable.is_some_and(|hp| height <= hp) && st.backlog >= PRUNER_THRESHOLD {
                ctx.violation("C34", "prunable_pause", "daser",
                    format!("sampling of prunable height {height} started (highest prunable {:?}) while the pruner reports a backlog of {}", st.highest_prunable, st.backlog));
            }
        }
        // ---- C34: never a block promised to the pruner (the daser keeps its promises across
        // disconnections, so this clause is judged throughout)
        ctx.oracle("C34.not_promised_to_pruner");
        if st.granted.contains(&height) {
            ctx.violation("C34", "not_promised_to_pruner", "daser",
                format!("sampling of height {height} started although the daser had answered want_to_prune({height}) with true"));
        }
        // ---- C34: recency order
        if let (Some(stored), Some(sampled), false) = (st.last_stored.clone(), st.last_sampled.clone(), st.disconnected_once) {
            ctx.oracle("C34.recency_order");
            // candidates: stored as last read, minus sampled as last read, minus everything
            // started or dropped as out-of-window so far, minus what the pruner was granted;
            // a height whose want_to_prune is still in flight may or may not be excluded already
            let cands: BTreeSet<u64> = stored
                .iter()
                .copied()
                .filter(|h| !sampled.contains(h) && !st.started.contains(h) && !st.granted.contains(h))
                .collect();
            let mut ok = false;
            let mut expected = None;
            for h in cands.iter().rev() {
                if *h == height {
                    ok = true;
                    break;
                }
                if st.prune_in_flight.contains(h) {
                    continue;
                }
                expected = Some(*h);
                break;
            }
            if !ok {
                ctx.violation("C34", "recency_order", "daser",
                    format!("sampling of height {height} started, but the highest eligible height was {expected:?} (stored {:?}, sampled {:?}, started so far {:?}, granted to pruner {:?})",
                        compact(&stored), compact(&sampled), compact(&st.started), compact(&st.granted)));
            }
        }
        st.started.insert(height);
    }
}

impl StoreObserver for Obs {
    fn before(&self, _tag: &'static str, _call: &Call) {
        self.drain_events();
    }

    fn after(&self, tag: &'static str, call: &Call, ret: &Ret) {
        if tag != "daser" {
            return;
        }
        match (call, ret) {
            (Call::GetStored, Ret::Ranges(r)) => {
                self.st.lock().unwrap().last_stored = Some(ranges_to_set(r));
            }
            (Call::GetSampled, Ret::Ranges(r)) => {
                self.st.lock().unwrap().last_sampled = Some(ranges_to_set(r));
            }
            (Call::UpdateMeta(h, cids), Ret::Unit) => self.on_attempt(*h, cids),
            (Call::GetByHeight(h), Ret::Header(hdr)) => {
                self.st.lock().unwrap().header_read_at.insert(*h, self.ctx.wall_now_ns());
                // the daser drops everything up to a block that left the window
                let t = time_to_ns(hdr.time());
                if t < self.ctx.wall_now_ns() - self.sampling_window_ns {
                    let mut st = self.st.lock().unwrap();
                    for x in 1..=*h {
                        st.started.insert(x);
                    }
                }
            }
            (Call::MarkSampled(h), Ret::Unit) => {
                let ctx = &self.ctx;
                let mut st = self.st.lock().unwrap();
                st.marked.insert(*h);
                ctx.oracle("C33.marked_only_after_full_success");
                match st.attempts.get(h) {
                    None => ctx.violation("C33", "marked_only_after_full_success", "no_attempt",
                        format!("height {h} marked as sampled without any sampling attempt")),
                    Some(a) => {
                        let missing: Vec<(u16, u16)> = a.ids.difference(&a.delivered_true).copied().collect();
                        if !missing.is_empty() || a.any_timeout_event {
                            ctx.violation("C33", "marked_only_after_full_success",
                                if a.any_timeout_event { "after_timeout" } else { "missing_shares" },
                                format!("height {h} marked as sampled although {} of its {} chosen shares were never delivered with verified true data (e.g. {:?}); a share timed out: {}",
                                    missing.len(), a.ids.len(), missing.first(), a.any_timeout_event));
                        } else {
                            ctx.probe("block_marked_sampled");
                        }
                    }
                }
            }
            _ => {}
        }
    }
}

fn compact(s: &BTreeSet<u64>) -> Vec<(u64, u64)> {
    let mut out: Vec<(u64, u64)> = Vec::new();
    for h in s {
        match out.last_mut() {
            Some((_, e)) if *e + 1 == *h => *e = *h,
            _ => out.push((*h, *h)),
        }
    }
    out
}

// ------------------------------------------------------------------------------------ blocks

fn block_bytes(cid: &Cid, sample: &Sample) -> Vec<u8> {
    let mut c = BytesMut::new();
    sample.encode(&mut c);
    Block { cid: cid.to_bytes(), container: c.to_vec() }.encode_to_vec()
}

fn raw_block(cid: &Cid, raw: &RawSample) -> Vec<u8> {
    Block { cid: cid.to_bytes(), container: raw.encode_to_vec() }.encode_to_vec()
}

/// A block offered to the node for the request `(row, col, height)`, with its ground truth.
struct Offer {
    bytes: Vec<u8>,
    code: u64,
    label: Label,
    /// accepted-but-wrong-position substitutions are C04's business, not C10's
    position_substitution: bool,
    family: &'static str,
    /// the share inside is the true share at the requested coordinates
    true_share: bool,
}

fn make_offer(ctx: &RunCtx, chain: &DataChain, cid: &Cid, id: SampleId, byzantine: bool) -> Offer {
    let (r, c, h) = (id.row_index(), id.column_index(), id.block_height());
    let sq = chain.square(h);
    let w = sq.width();
    let axis = if ctx.coin("offer.col_axis", 500) { AxisType::Col } else { AxisType::Row };
    let honest = Sample::new(r, c, axis, &sq.eds).expect("honest sample");
    if !byzantine {
        return Offer {
            bytes: block_bytes(cid, &honest),
            code: SAMPLE_ID_MULTIHASH_CODE,
            label: Label::MustAccept,
            position_substitution: false,
            family: "honest",
            true_share: true,
        };
    }
    let truth = sq.eds.share(r, c).expect("in range").clone();
    let fam = ctx.choose("byz.family", 10);
    match fam {
        9 if w >= 4 && (r >= w / 2 || c >= w / 2) && (r < w / 2 || c < w / 2) => {
            // the honest sample of the position half a width further along a parity line, with
            // its proof range moved above u16::MAX so that the low 16 bits name the requested
            // index (same sibling shape, so the range proof still recomputes the real root)
            let (r2, c2, ax, idx) = if r >= w / 2 { (r, c + w / 2, AxisType::Row, c) } else { (r + w / 2, c, AxisType::Col, r) };
            let other = Sample::new(r2, c2, ax, &sq.eds).expect("sample");
            let same = other.share == truth;
            let mut raw = RawSample::from(other);
            if let Some(p) = raw.proof.as_mut() {
                p.start = 65536 + idx as i64;
                p.end = p.start + 1;
            }
            Offer {
                bytes: raw_block(cid, &raw),
                code: SAMPLE_ID_MULTIHASH_CODE,
                label: if same { Label::Either } else { Label::MustReject },
                position_substitution: true,
                family: "proof_range_relabelled_above_u16",
                true_share: same,
            }
        }
        0 | 1 => {
            // honest sample of another position in the same axis, re-wrapped under the wanted CID
            let (r2, c2, ax) = if fam == 0 {
                (r, (c + 1 + ctx.choose("byz.shift", (w - 1) as u32) as u16) % w, AxisType::Row)
            } else {
                ((r + 1 + ctx.choose("byz.shift", (w - 1) as u32) as u16) % w, c, AxisType::Col)
            };
            let other = Sample::new(r2, c2, ax, &sq.eds).expect("sample");
            let same = other.share == truth;
            // a parity/ODS quadrant mismatch makes decoding fail before verification
            Offer {
                bytes: block_bytes(cid, &other),
                code: SAMPLE_ID_MULTIHASH_CODE,
                label: if same { Label::Either } else { Label::MustReject },
                position_substitution: true,
                family: if fam == 0 { "other_column_same_row" } else { "other_row_same_column" },
                true_share: same,
            }
        }
        2 => {
            // a sample proven against the other axis of another position
            let r2 = (r + 1) % w;
            let c2 = (c + 1) % w;
            let other = Sample::new(r2, c2, AxisType::Col, &sq.eds).expect("sample");
            let same = other.share == truth;
            Offer {
                bytes: block_bytes(cid, &other),
                code: SAMPLE_ID_MULTIHASH_CODE,
                label: if same { Label::Either } else { Label::MustReject },
                position_substitution: true,
                family: "other_position_other_axis",
                true_share: same,
            }
        }
        3 => {
            // altered share, honest proof
            let mut raw = RawSample::from(honest);
            if let Some(s) = raw.share.as_mut() {
                let at = 40 + ctx.choose("byz.byte", 400) as usize;
                s.data[at] ^= 0x01;
            }
            Offer { bytes: raw_block(cid, &raw), code: SAMPLE_ID_MULTIHASH_CODE, label: Label::MustReject, position_substitution: false, family: "altered_share", true_share: false }
        }
        4 => {
            // altered proof range / siblings
            let mut raw = RawSample::from(honest);
            if let Some(p) = raw.proof.as_mut() {
                match ctx.choose("byz.proof", 3) {
                    0 => { p.start = p.start.wrapping_add(1); p.end = p.end.wrapping_add(1); }
                    1 => { if !p.nodes.is_empty() { p.nodes.remove(0); } else { p.end += 1; } }
                    _ => { if let Some(n) = p.nodes.first_mut() { if let Some(b) = n.last_mut() { *b ^= 1; } } else { p.start += 1; } }
                }
            }
            Offer { bytes: raw_block(cid, &raw), code: SAMPLE_ID_MULTIHASH_CODE, label: Label::MustReject, position_substitution: false, family: "altered_proof", true_share: false }
        }
        5 => {
            // honest block of another id: the embedded id does not match the wanted CID
            let c2 = (c + 1) % w;
            let id2 = SampleId::new(r, c2, h).expect("id");
            let cid2 = verif::sample_cid(id2.row_index(), id2.column_index(), id2.block_height()).expect("cid");
            let s2 = Sample::new(r, c2, AxisType::Row, &sq.eds).expect("sample");
            // the multihasher accepts it (it is a valid block of id2) but bitswap does not match
            // it to the wanted CID
            Offer { bytes: block_bytes(&cid2, &s2), code: SAMPLE_ID_MULTIHASH_CODE, label: Label::MustAccept, position_substitution: false, family: "valid_block_of_other_id", true_share: false }
        }
        6 => Offer { bytes: block_bytes(cid, &honest), code: 0x7899, label: Label::MustReject, position_substitution: false, family: "unknown_multihash_code", true_share: true },
        7 => {
            // a block for a height the node has no header for
            let id2 = SampleId::new(r, c, h + 100_000).expect("id");
            let cid2 = verif::sample_cid(id2.row_index(), id2.column_index(), id2.block_height()).expect("cid");
            Offer { bytes: block_bytes(&cid2, &honest), code: SAMPLE_ID_MULTIHASH_CODE, label: Label::MustReject, position_substitution: false, family: "unknown_height", true_share: true }
        }
        _ => {
            let mut junk = vec![0u8; 64 + ctx.choose("byz.junk_len", 600) as usize];
            ctx.fixture_rng(h ^ ((r as u64) << 32) ^ c as u64).fill(&mut junk);
            Offer { bytes: Block { cid: cid.to_bytes(), container: junk }.encode_to_vec(), code: SAMPLE_ID_MULTIHASH_CODE, label: Label::MustReject, position_substitution: false, family: "garbage_container", true_share: false }
        }
    }
}

#[derive(Clone, Copy, PartialEq, Eq, Debug)]
enum Label {
    MustAccept,
    MustReject,
    /// e.g. another position's share that happens to be byte-identical to the true one
    Either,
}

struct PendingReq {
    cid: Cid,
    id: SampleId,
    respond_to: oneshot::Sender<Result<Vec<u8>, P2pError>>,
    /// plan: (due_ms, byzantine?) offers, in order
    offers: Vec<(u64, bool)>,
}

// ------------------------------------------------------------------------------------ the run

async fn run_das(ctx: &Arc<RunCtx>) {
    let thorough = ctx.tier == Tier::Thorough;
    // ---- configuration
    let len = *ctx.pick("cfg.chain_len", &[12u64, 24, 40]);
    let block_time_ms = 12_000u64;
    let max_ods_log2 = *ctx.pick("cfg.max_ods_log2", if thorough { &[2u8, 0, 1, 3, 4, 5][..] } else { &[2u8, 0, 1, 3][..] });
    let chain = DataChain::cached(DataChainParams {
        class: ctx.range("cfg.chain_class", 0, 1),
        len,
        block_time_ms,
        head_offset_ms: 120_000,
        max_ods_log2,
    });
    let span_s = len * block_time_ms / 1000;
    let sampling_window = Duration::from_secs(ctx.range("cfg.sampling_window_s", span_s / 3 + 20, span_s * 2));
    let limit = ctx.range("cfg.limit", 1, 4) as usize;
    let extra = ctx.range("cfg.extra", 0, 5) as usize;
    let store_delay = *ctx.pick("cfg.store_delay", &[0u32, 1, 2, 2, 30, 600]);
    let p_never = if ctx.coin("cfg.timeouts_on", 600) { ctx.range("cfg.p_never", 10, 250) as u32 } else { 0 };
    let p_byz = if ctx.coin("cfg.byz_on", 700) { ctx.range("cfg.p_byz", 50, 600) as u32 } else { 0 };
    let p_late = if ctx.coin("cfg.late_on", 300) { 80 } else { 0 };
    let max_delay = ctx.range("cfg.net_delay_ms", 0, 4000) as u32;
    let churn = ctx.coin("cfg.churn", 250);
    let prune_on = ctx.coin("cfg.prune_on", 500);
    let reports_on = ctx.coin("cfg.pruner_reports", 500);
    ctx.note("config", format!("len={len} sw={}s limit={limit}+{extra} never={p_never} byz={p_byz} late={p_late} churn={churn} prune={prune_on} reports={reports_on} ods<=2^{max_ods_log2}", sampling_window.as_secs()));

    let events = Events::new();
    let inner = Arc::new(InMemoryStore::new());
    let obs = Arc::new(Obs {
        ctx: ctx.clone(),
        chain: chain.clone(),
        limit,
        extra,
        sampling_window_ns: sampling_window.as_nanos() as i64,
        events: Mutex::new(events.subscribe()),
        st: Mutex::new(ObsState {
            attempts: BTreeMap::new(),
            last_stored: None,
            last_sampled: None,
            granted: BTreeSet::new(),
            started: BTreeSet::new(),
            disconnected_once: false,
            starts: 0,
            results: 0,
            highest_prunable: None,
            backlog: 0,
            report_in_flight: false,
            prune_in_flight: BTreeSet::new(),
            marked: BTreeSet::new(),
            header_read_at: BTreeMap::new(),
        }),
    });
    let store_daser = RecStore::new(inner.clone(), "daser", ctx, obs.clone(), store_delay);
    let store_bitswap = RecStore::new(inner.clone(), "bitswap", ctx, obs.clone(), 0);

    // initial store contents: the newest blocks that exist at t=0
    let future_blocks = 120_000 / block_time_ms;
    let net_head0 = len - future_blocks;
    let lo0 = ctx.range("init.lo", 1, net_head0);
    let hs: Vec<_> = (lo0..=net_head0).map(|h| chain.get(h).clone()).collect();
    let _ = inner.insert(hs).await;
    let mut next_head = net_head0 + 1;
    let mut lowest = lo0;

    let (p2p, mut mock) = verif::mocked_p2p();
    let mut connected = true;
    mock.set_peer_info(PeerTrackerInfo { num_connected_peers: 1, num_connected_trusted_peers: 1, ..Default::default() });

    let daser: DaserHandle = match verif::start_daser(&p2p, store_daser.clone(), &events, sampling_window, limit, extra) {
        Ok(d) => d,
        Err(e) => {
            ctx.note("daser_start_error", e.to_string());
            return;
        }
    };

    let mut pending: Vec<PendingReq> = Vec::new();
    let mut tick = tokio::time::interval(Duration::from_millis(1000));
    tick.set_missed_tick_behavior(tokio::time::MissedTickBehavior::Delay);
    let run_ms = ctx.range("cfg.run_ms", 20_000, if thorough { 600_000 } else { 200_000 });
    let mut side_tasks = tokio::task::JoinSet::new();
    let (fence_tx, mut fence_rx) = tokio::sync::mpsc::unbounded_channel::<FenceMsg>();
    let mut disconnects = 0u32;

    loop {
        obs.drain_events();
        if ctx.over_step_cap() || !ctx.findings.lock().unwrap().is_empty() || ctx.now_ms() > run_ms {
            break;
        }
        // ---- deliver due offers
        let now = ctx.now_ms();
        let mut i = 0;
        while i < pending.len() {
            if pending[i].respond_to.is_closed() {
                // caller gave up (timeout) or was cancelled
                let p = pending.swap_remove(i);
                ctx.ev("net.caller_gone", p.id.block_height(), ((p.id.row_index() as u64) << 16) | p.id.column_index() as u64);
                continue;
            }
            let due = pending[i].offers.first().is_some_and(|o| o.0 <= now);
            if !due {
                i += 1;
                continue;
            }
            let (_, byz) = pending[i].offers.remove(0);
            let (cid, id) = (pending[i].cid, pending[i].id);
            let h = id.block_height();
            if h > chain.len() {
                i += 1;
                continue;
            }
            let offer = make_offer(ctx, &chain, &cid, id, byz);
            if byz {
                ctx.fault("byzantine_block");
            }
            // ---- the bitswap stand-in: hash with the real multihasher
            let stored_now = inner.has_at(h).await;
            let res = {
                let s = store_bitswap.clone();
                let bytes = offer.bytes.clone();
                let code = offer.code;
                // isolate: a panic in the decoder must not take the world down
                tokio::spawn(async move { verif::shwap_hash(s, code, &bytes).await }).await
            };
            let res = match res {
                Ok(r) => r,
                Err(_) => {
                    let p = ctx.panics.lock().unwrap().iter().rev().find(|p| !is_harness_location(&p.location)).cloned();
                    let (loc, msg) = p.map(|p| (p.location, p.message)).unwrap_or_default();
                    ctx.oracle("C10.no_panic");
                    // the multihasher must report an error, not panic (a panic kills the task
                    // that drives bitswap); key = where it panicked
                    ctx.violation("C10", "no_panic", &crate::kernel::runner::short_location(&loc),
                        format!("ShwapMultihasher::hash panicked on a {} block for ({},{}) of height {h} at {loc}: {msg}", offer.family, id.row_index(), id.column_index()));
                    // the query stays unanswered; go on with the run
                    pending.swap_remove(i);
                    continue;
                }
            };
            ctx.ev_with("bitswap.hash", h, res.is_ok() as u64, || format!("{} ({},{}) -> {}", offer.family, id.row_index(), id.column_index(), res.as_ref().map(|_| "Ok".to_string()).unwrap_or_else(|e| e.clone())));
            let wanted = cid.hash().to_bytes();
            // ---- C10 labels
            ctx.oracle("C10.label");
            let stored_after = inner.has_at(h).await;
            let header_known = stored_now && stored_after;
            match (&res, offer.label, offer.position_substitution) {
                (Ok(_), Label::MustReject, false) => ctx.violation("C10", "label", offer.family,
                    format!("the multihasher accepted a {} block for ({},{}) of height {h}", offer.family, id.row_index(), id.column_index())),
                (Ok(_), Label::MustReject, true) => {
                    // accepted although the share is not the one at the requested position:
                    // the position check belongs to sample verification (C04)
                    ctx.violation("C04", "position_binding", offer.family,
                        format!("a sample for ({},{}) of height {h} (width {}) carrying the share of another position ({}) verified against the DAH", id.row_index(), id.column_index(), chain.square(h).width(), offer.family));
                }
                (Err(e), Label::MustAccept, _) if header_known && offer.family == "honest" => {
                    ctx.violation("C04", "honest_accepted", "honest",
                        format!("an honest sample for ({},{}) of height {h} was rejected: {e}", id.row_index(), id.column_index()));
                }
                (Err(e), Label::MustAccept, _) if header_known => ctx.violation("C10", "label", "valid_rejected",
                    format!("a valid {} block was rejected although the header of height {h} is stored: {e}", offer.family)),
                (Ok(_), _, _) if !stored_now && !stored_after => ctx.violation("C10", "label", "no_header",
                    format!("the multihasher accepted a block for height {h} although no header is stored for it")),
                _ => {}
            }
            if offer.position_substitution {
                ctx.oracle("C04.position_binding");
            }
            if offer.family == "honest" && header_known {
                ctx.oracle("C04.honest_accepted");
            }
            // multihash of an accepted block is the hash of its embedded id
            let delivered = match &res {
                Ok(mh) => *mh == wanted,
                Err(_) => false,
            };
            if let (Ok(mh), Label::MustAccept, "honest") = (&res, offer.label, offer.family) {
                ctx.oracle("C10.hash_is_id_hash");
                if *mh != wanted {
                    ctx.violation("C10", "hash_is_id_hash", "honest", format!("multihash of an honest block of height {h} is not the hash of its id"));
                }
            }
            if delivered {
                let p = pending.swap_remove(i);
                if offer.true_share {
                    if let Some(a) = obs.st.lock().unwrap().attempts.get_mut(&h) {
                        a.delivered_true.insert((id.row_index(), id.column_index()));
                    }
                }
                ctx.ev("net.delivered", h, ((id.row_index() as u64) << 16) | id.column_index() as u64);
                let _ = p.respond_to.send(Ok(offer.bytes));
                continue;
            }
            if pending[i].offers.is_empty() {
                // nothing more will come: the daser's own timeout decides
                i += 1;
            }
        }

        let next_due = pending.iter().filter_map(|p| p.offers.first().map(|o| o.0)).min();
        let sleep_for = next_due.map(|d| Duration::from_millis(d.saturating_sub(ctx.now_ms()).max(1)));
        tokio::select! {
            biased;
            cmd = mock.recv() => {
                let Some(cmd) = cmd else { break; };
                if let P2pCommand::GetShwapCid { cid, respond_to } = cmd {
                    let Ok(id) = SampleId::try_from(&cid) else {
                        ctx.violation("C33", "chosen_shares", "bad_cid", "the daser requested a CID that is not a sample id".into());
                        break;
                    };
                    let h = id.block_height();
                    ctx.ev("cmd.get_shwap_cid", h, ((id.row_index() as u64) << 16) | id.column_index() as u64);
                    // ---- C33: CID recorded in the sampling metadata before it is requested
                    ctx.oracle("C33.cid_recorded_before_request");
                    let recorded = inner.get_sampling_metadata(h).await.ok().flatten().map(|m| m.cids.contains(&cid)).unwrap_or(false);
                    if !recorded && inner.has_at(h).await {
                        ctx.violation("C33", "cid_recorded_before_request", "daser",
                            format!("share ({},{}) of height {h} was requested before its CID was recorded in the sampling metadata", id.row_index(), id.column_index()));
                    }
                    // ---- plan the answers
                    let now = ctx.now_ms();
                    let mut offers: Vec<(u64, bool)> = Vec::new();
                    let mut t = now;
                    if ctx.coin("plan.byz_first", p_byz) {
                        t += ctx.delay("plan.delay", max_delay).as_millis() as u64;
                        offers.push((t, true));
                        if ctx.coin("plan.byz_again", 300) {
                            t += ctx.delay("plan.delay", max_delay).as_millis() as u64;
                            offers.push((t, true));
                        }
                    }
                    if ctx.coin("plan.never", p_never) {
                        ctx.fault("sample_never_answered");
                    } else {
                        t += ctx.delay("plan.delay", max_delay).as_millis() as u64;
                        if ctx.coin("plan.late", p_late) {
                            t += 3_600_000;
                            ctx.fault("sample_answered_late");
                        }
                        offers.push((t, false));
                    }
                    pending.push(PendingReq { cid, id, respond_to, offers });
                }
            }
            Some(m) = fence_rx.recv() => {
                let mut st = obs.st.lock().unwrap();
                match m {
                    FenceMsg::Report { highest, backlog } => {
                        if let Some(h) = highest { st.highest_prunable = Some(h); }
                        if let Some(b) = backlog { st.backlog = b; }
                        st.report_in_flight = false;
                    }
                    FenceMsg::Prune { height, granted } => {
                        st.prune_in_flight.remove(&height);
                        if granted {
                            st.granted.insert(height);
                        }
                    }
                }
            }
            Some(_) = side_tasks.join_next(), if !side_tasks.is_empty() => {}
            _ = tick.tick() => {
                // ---- store growth: new heads as time passes, backward batches
                let now_ns = ctx.wall_now_ns();
                let nh = (((now_ns - chain.base_time_ns) / (block_time_ms as i64 * 1_000_000)).max(1) as u64).min(chain.len());
                if next_head <= nh && ctx.coin("grow.head", 800) {
                    let to = if ctx.coin("grow.burst", 200) { nh } else { next_head };
                    let hs: Vec<_> = (next_head..=to).map(|h| chain.get(h).clone()).collect();
                    if inner.insert(hs).await.is_ok() {
                        ctx.ev("store.new_heads", next_head, to);
                        next_head = to + 1;
                    }
                }
                if lowest > 1 && ctx.coin("grow.backward", 150) {
                    let k = ctx.range("grow.backward_n", 1, 6).min(lowest - 1);
                    let hs: Vec<_> = (lowest - k..=lowest - 1).map(|h| chain.get(h).clone()).collect();
                    if inner.insert(hs).await.is_ok() {
                        ctx.ev("store.backward_batch", lowest - k, lowest - 1);
                        lowest -= k;
                    }
                }
                // ---- pruner side (scripted): reports, then requests to prune
                if reports_on && !obs.st.lock().unwrap().report_in_flight && ctx.coin("pruner.report", 150) {
                    let highest = if ctx.coin("pruner.report_highest", 700) { Some(ctx.range("pruner.highest", 0, nh)) } else { None };
                    let backlog = if ctx.coin("pruner.report_backlog", 700) { Some(*ctx.pick("pruner.backlog", &[0u64, 511, 512, 2000])) } else { None };
                    obs.st.lock().unwrap().report_in_flight = true;
                    ctx.fault("pruner_report");
                    ctx.ev("pruner.report", highest.unwrap_or(u64::MAX), backlog.unwrap_or(u64::MAX));
                    let d = daser.clone();
                    let tx = fence_tx.clone();
                    side_tasks.spawn(async move {
                        if let Some(h) = highest { let _ = d.update_highest_prunable_block(h).await; }
                        if let Some(b) = backlog { let _ = d.update_number_of_prunable_blocks(b).await; }
                        // fence: commands are processed in order, so once this round-trip
                        // returns the daser has certainly processed the reports
                        let _ = d.want_to_prune(u64::MAX - 7).await;
                        let _ = tx.send(FenceMsg::Report { highest, backlog });
                    });
                }
                if prune_on && ctx.coin("pruner.want", 200) {
                    if let Ok(stored) = inner.get_stored_header_ranges().await {
                        let stored = ranges_to_set(&stored);
                        if let Some(h) = stored.iter().next().copied() {
                            let h = if ctx.coin("pruner.any", 300) { *stored.iter().nth(ctx.choose("pruner.idx", stored.len() as u32) as usize).unwrap() } else { h };
                            if obs.st.lock().unwrap().prune_in_flight.insert(h) {
                                ctx.ev("pruner.want_to_prune", h, 0);
                                let d = daser.clone();
                                let tx = fence_tx.clone();
                                let inner2 = inner.clone();
                                let ctx2 = ctx.clone();
                                let slow_removal_ms = if ctx.coin("pruner.slow_removal", 400) { ctx.range("pruner.removal_delay_ms", 1, 40_000) } else { 0 };
                                side_tasks.spawn(async move {
                                    let granted = d.want_to_prune(h).await.unwrap_or(false);
                                    if granted {
                                        // the fence first: from here on the height is promised
                                        let _ = tx.send(FenceMsg::Prune { height: h, granted });
                                        // the pruner removes the header right away, or after it
                                        // has collected and cleaned up the rest of its batch
                                        if slow_removal_ms > 0 {
                                            tokio::time::sleep(Duration::from_millis(slow_removal_ms)).await;
                                            ctx2.probe("header_removed_some_time_after_the_grant");
                                        }
                                        if inner2.remove_height(h).await.is_ok() {
                                            ctx2.fault("header_pruned_during_sampling_run");
                                        }
                                    } else {
                                        ctx2.probe("daser_refused_prune_of_ongoing");
                                    }
                                    if !granted {
                                        let _ = tx.send(FenceMsg::Prune { height: h, granted });
                                    }
                                });
                            }
                        }
                    }
                }
                // ---- connection loss
                if churn && ctx.coin("churn.event", 60) && disconnects < 2 {
                    connected = !connected;
                    if !connected {
                        disconnects += 1;
                        ctx.fault("all_peers_disconnected");
                        obs.st.lock().unwrap().disconnected_once = true;
                    }
                    mock.set_peer_info(PeerTrackerInfo { num_connected_peers: connected as u64, num_connected_trusted_peers: connected as u64, ..Default::default() });
                    ctx.ev("churn", connected as u64, 0);
                }
                if ctx.coin("clock.jump", 10) {
                    ctx.jump_wall_clock(ctx.range("clock.jump_ms", 1, 60_000) as i64 * 1_000_000);
                }
            }
            _ = async { match sleep_for { Some(d) => tokio::time::sleep(d).await, None => std::future::pending().await } } => {}
        }
    }
    obs.drain_events();
    {
        let st = obs.st.lock().unwrap();
        ctx.note("attempts", st.attempts.len().to_string());
        ctx.note("marked", st.marked.len().to_string());
        if st.starts > st.results + 0 && st.starts >= limit as u64 {
            ctx.probe("limit_reached_at_some_point");
        }
    }
    daser.stop();
    side_tasks.abort_all();
    daser.join().await;
}

enum FenceMsg {
    Report { highest: Option<u64>, backlog: Option<u64> },
    Prune { height: u64, granted: bool },
}
