pub mod store;
pub mod session;
pub mod sync;
pub mod das;
pub mod prune;
pub mod hdr;
pub mod shwap;
pub mod fraud;
