pub mod store;
pub mod session;
