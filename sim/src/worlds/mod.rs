pub mod store;
