pub mod store;
pub mod session;
pub mod sync;
pub mod counter;
pub mod das;
pub mod prune;
pub mod hdr;
pub mod shwap;
pub mod fraud;
pub mod peers;
pub mod pool;
pub mod exec;
pub mod subs;
pub mod hxc;
pub mod hxs;

/// A peer id that depends only on `index` (not on the run's seed or entropy stream), so that
/// traces of different runs name peers consistently.
pub(crate) fn fixed_peer_id(index: u64) -> libp2p::PeerId {
    let mut rng = crate::kernel::rng::Xoshiro::new(crate::kernel::rng::mix(&[0x9EE2_1D, index]));
    let mut digest = [0u8; 32];
    rng.fill(&mut digest);
    // sha2-256 multihash of an (unknown) public key
    let mh = libp2p::multihash::Multihash::<64>::wrap(0x12, &digest).expect("32-byte digest fits");
    libp2p::PeerId::from_multihash(mh).expect("sha2-256 multihash is a valid peer id")
}
pub mod wire;
pub mod grpc;
pub mod node;
pub mod store_conc;
