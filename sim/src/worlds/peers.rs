//! W-PEERS: the real `PeerTracker` (through `lumina_node::verif::Peers`) under random event
//! histories: connect / disconnect over <= 8 peers x <= 3 connections, trust, protect / unprotect
//! with tags, archival marks, agent versions, `add_peer_id`, and `gc` at virtual times around the
//! 120 s expiry.
//!
//! Decides C39. After every event:
//!  * `info()` and the value seen through `info_watcher()` equal a recount over `snapshot()`;
//!  * the snapshot agrees with an independent model of the event history (connections, trust,
//!    tags; archival / full only where the history leaves no room for interpretation);
//!  * `protected_len(tag)` equals the number of peers protected with `tag`, by the tracker's own
//!    `is_protected_with_tag` and by the model;
//!  * `gc` forgets no connected or protected peer.

use std::collections::{BTreeMap, BTreeSet};
use std::panic::{AssertUnwindSafe, catch_unwind};
use std::sync::Arc;
use std::time::Duration;

use libp2p::PeerId;
use lumina_node::node::PeerTrackerInfo;
use lumina_node::verif::{Events, PeerSnapshot, Peers};

use crate::kernel::ctx::{RunCtx, Tier};
use crate::kernel::runner::{World, WorldFut, is_harness_location};
use crate::worlds::fixed_peer_id;

pub struct PeersWorld;

impl World for PeersWorld {
    fn name(&self) -> &'static str {
        "peers.history"
    }
    fn run<'a>(&'a self, ctx: &'a Arc<RunCtx>) -> WorldFut<'a> {
        Box::pin(run_peers(ctx))
    }
    fn vtime_cap(&self) -> Duration {
        Duration::from_secs(3600 * 24)
    }
}

const MAX_PEERS: usize = 8;
const MAX_CONNS: usize = 3;
const TAGS: u32 = 3;
/// `EXPIRED_AFTER` of the tracker; the harness only uses it with a 1 s guard band.
const EXPIRY_MS: u64 = 120_000;
const EPS_MS: u64 = 1_000;

/// (agent version, is a full node). The strings are the ones `NodeKind::from_agent_version`
/// documents in its unit test, plus malformed ones.
const AGENTS: &[(&str, bool)] = &[
    ("lumina/celestia/0.14.0", false),
    ("celestia-node/celestia/full/v0.24.1/fb95d45", true),
    ("celestia-node/celestia/bridge/v0.24.1/fb95d45", true),
    ("celestia-node/celestia/light/v0.24.1/fb95d45", false),
    ("probelab-node/celestia/ant/v0.1.0", false),
    ("celestia-node/celestia", false),
    ("", false),
];

/// What the event history says about an attribute whose reset policy the statement leaves open.
#[derive(Clone, Copy, Debug, PartialEq, Eq)]
enum Tri {
    No,
    Yes,
    /// The history admits both readings (e.g. marked archival, then fully disconnected: the
    /// tracker resets the mark, a tracker that kept it would not contradict the statement).
    Open,
}

#[derive(Clone, Debug)]
struct ModelPeer {
    conns: BTreeSet<usize>,
    tags: BTreeSet<u32>,
    trusted: bool,
    archival: Tri,
    full: Tri,
    /// virtual ms of the last transition to "no connections" (or of creation)
    disconnected_at_ms: Option<u64>,
    /// an event that creates a tracker entry happened since the last observed removal
    created: bool,
}

impl Default for ModelPeer {
    fn default() -> Self {
        ModelPeer {
            conns: BTreeSet::new(),
            tags: BTreeSet::new(),
            trusted: false,
            archival: Tri::No,
            full: Tri::No,
            disconnected_at_ms: None,
            created: false,
        }
    }
}

impl ModelPeer {
    fn connected(&self) -> bool {
        !self.conns.is_empty()
    }
    fn touch(&mut self, now_ms: u64) {
        if !self.created {
            self.created = true;
            self.disconnected_at_ms = Some(now_ms);
        }
    }
}

fn recount(snapshot: &[PeerSnapshot]) -> PeerTrackerInfo {
    let mut i = PeerTrackerInfo::default();
    for p in snapshot.iter().filter(|p| p.connected) {
        i.num_connected_peers += 1;
        if p.trusted {
            i.num_connected_trusted_peers += 1;
        }
        if p.full {
            i.num_connected_full_nodes += 1;
        }
        if p.archival {
            i.num_connected_archival_nodes += 1;
        }
    }
    i
}

struct Harness<'a> {
    ctx: &'a Arc<RunCtx>,
    ids: Vec<PeerId>,
    model: Vec<ModelPeer>,
}

impl Harness<'_> {
    fn idx_of(&self, id: &PeerId) -> Option<usize> {
        self.ids.iter().position(|p| p == id)
    }

    /// All oracle clauses that hold after any event.
    fn check_state(&self, peers: &Peers, watcher: &tokio::sync::watch::Receiver<PeerTrackerInfo>, after: &str) {
        let ctx = self.ctx;
        let snapshot = peers.snapshot();
        let by_idx: BTreeMap<usize, &PeerSnapshot> = snapshot
            .iter()
            .filter_map(|s| self.idx_of(&s.id).map(|i| (i, s)))
            .collect();

        // ---- published statistics == recount of the tracked peers
        ctx.oracle("C39.info_equals_recount");
        let info = peers.info();
        let want = recount(&snapshot);
        if info != want {
            ctx.violation("C39", "info_equals_recount", "info",
                format!("after {after}: info() = {info:?} but a recount over the tracked peers gives {want:?}"));
        }
        let watched = watcher.borrow().clone();
        if watched != want {
            ctx.violation("C39", "info_equals_recount", "watcher",
                format!("after {after}: info_watcher() shows {watched:?} but a recount over the tracked peers gives {want:?}"));
        }
        if by_idx.len() != snapshot.len() {
            ctx.violation("C39", "info_equals_recount", "foreign_peer",
                format!("after {after}: the tracker lists {} peers, {} of them were never mentioned in any event", snapshot.len(), snapshot.len() - by_idx.len()));
        }

        // ---- tracked peers == what the event history says
        ctx.oracle("C39.snapshot_matches_history");
        let (mut arch_lo, mut arch_hi, mut full_lo, mut full_hi) = (0u64, 0u64, 0u64, 0u64);
        for (i, m) in self.model.iter().enumerate() {
            let s = by_idx.get(&i);
            let (connected, trusted, protected) = match s {
                Some(s) => (s.connected, s.trusted, s.protected),
                None => (false, false, false),
            };
            if connected != m.connected() {
                ctx.violation("C39", "snapshot_matches_history", "connected",
                    format!("after {after}: peer {i} has open connections {:?} but the tracker says connected={connected} (tracked: {})", m.conns, s.is_some()));
            }
            if protected != !m.tags.is_empty() {
                ctx.violation("C39", "snapshot_matches_history", "protected",
                    format!("after {after}: peer {i} holds tags {:?} but the tracker says protected={protected} (tracked: {})", m.tags, s.is_some()));
            }
            // Trust only shows in the statistics of a connected peer; for a tracked peer the
            // last `set_trusted` since its entry was created is what counts.
            if s.is_some() && trusted != m.trusted {
                ctx.violation("C39", "snapshot_matches_history", "trusted",
                    format!("after {after}: peer {i} was last set trusted={} but the tracker says trusted={trusted}", m.trusted));
            }
            if m.connected() {
                // Narrow reading: archival / full are only judged where the history is
                // unambiguous (`Tri::Open` admits both).
                if let Some(s) = s {
                    let bad_arch = matches!((m.archival, s.archival), (Tri::Yes, false) | (Tri::No, true));
                    let bad_full = matches!((m.full, s.full), (Tri::Yes, false) | (Tri::No, true));
                    if bad_arch {
                        ctx.violation("C39", "snapshot_matches_history", "archival",
                            format!("after {after}: connected peer {i} archival by history = {:?}, tracker says {}", m.archival, s.archival));
                    }
                    if bad_full {
                        ctx.violation("C39", "snapshot_matches_history", "full",
                            format!("after {after}: connected peer {i} full-node by history = {:?}, tracker says {}", m.full, s.full));
                    }
                }
                arch_lo += (m.archival == Tri::Yes) as u64;
                arch_hi += (m.archival != Tri::No) as u64;
                full_lo += (m.full == Tri::Yes) as u64;
                full_hi += (m.full != Tri::No) as u64;
            }
        }
        // published statistics against the history directly
        ctx.oracle("C39.info_matches_history");
        let m_connected = self.model.iter().filter(|m| m.connected()).count() as u64;
        let m_trusted = self.model.iter().filter(|m| m.connected() && m.trusted).count() as u64;
        if info.num_connected_peers != m_connected || info.num_connected_trusted_peers != m_trusted {
            ctx.violation("C39", "info_matches_history", "connected_trusted",
                format!("after {after}: history has {m_connected} connected / {m_trusted} connected trusted peers, published {info:?}"));
        }
        if !(arch_lo..=arch_hi).contains(&info.num_connected_archival_nodes)
            || !(full_lo..=full_hi).contains(&info.num_connected_full_nodes)
        {
            ctx.violation("C39", "info_matches_history", "archival_full",
                format!("after {after}: history admits {arch_lo}..={arch_hi} connected archival and {full_lo}..={full_hi} connected full nodes, published {info:?}"));
        }

        // ---- per-tag protected counts
        for tag in 0..TAGS + 1 {
            ctx.oracle("C39.protected_len");
            let published = peers.protected_len(tag);
            let by_tracker = self.ids.iter().filter(|id| peers.is_protected_with_tag(id, tag)).count();
            let by_model = self.model.iter().filter(|m| m.tags.contains(&tag)).count();
            if published != by_tracker {
                ctx.violation("C39", "protected_len", "vs_tracked_peers",
                    format!("after {after}: protected_len({tag}) = {published} but {by_tracker} tracked peers are protected with that tag"));
            }
            if published != by_model {
                ctx.violation("C39", "protected_len", "vs_history",
                    format!("after {after}: protected_len({tag}) = {published} but by the event history {by_model} peers hold that tag"));
            }
        }
    }
}

async fn run_peers(ctx: &Arc<RunCtx>) {
    let thorough = ctx.tier == Tier::Thorough;
    let n_peers = ctx.range("cfg.peers", 1, MAX_PEERS as u64) as usize;
    let n_ops = ctx.range("cfg.ops", 1, if thorough { 200 } else { 70 });
    let ids: Vec<PeerId> = (0..n_peers).map(|i| fixed_peer_id(i as u64)).collect();

    let events = Events::new();
    let mut peers = Peers::new(&events);
    // Whether anybody holds an info watcher while the events happen: always (the running node's
    // SwarmManager does), never (each check subscribes afresh and drops the receiver again), or
    // on and off. Published statistics must not depend on somebody listening.
    let watcher_mode = ctx.choose("cfg.watcher_mode", 3);
    let mut held = if watcher_mode == 1 { None } else { Some(peers.info_watcher()) };
    let mut hx = Harness {
        ctx,
        ids: ids.clone(),
        model: vec![ModelPeer::default(); n_peers],
    };
    {
        let w = held.clone().unwrap_or_else(|| peers.info_watcher());
        hx.check_state(&peers, &w, "construction");
    }

    for _ in 0..n_ops {
        if !ctx.findings.lock().unwrap().is_empty() {
            break;
        }
        ctx.begin_span("op");
        // 0 connect, 1 disconnect, 2 trust, 3 protect, 4 unprotect, 5 archival, 6 agent version,
        // 7 add_peer_id, 8 time passes, 9 gc
        let kind = ctx.weighted("op.kind", &[6, 5, 2, 3, 3, 2, 2, 1, 4, 4]);
        let now = ctx.now_ms();
        let label: String;
        let mut panicked = false;
        match kind {
            8 => {
                // around the expiry: short waits, waits that add up to it, waits across it
                let ms = match ctx.choose("time.class", 5) {
                    0 => ctx.range("time.ms", 0, 5_000),
                    1 => ctx.range("time.ms", 25_000, 35_000),
                    2 => ctx.range("time.ms", EXPIRY_MS - 3_000, EXPIRY_MS + 3_000),
                    3 => EXPIRY_MS + ctx.range("time.ms", 0, 2),
                    _ => ctx.range("time.ms", EXPIRY_MS, 3 * EXPIRY_MS),
                };
                ctx.ev("sleep", ms, 0);
                tokio::time::sleep(Duration::from_millis(ms)).await;
                label = format!("sleep {ms} ms");
            }
            9 => {
                ctx.ev("gc", 0, 0);
                label = "gc".to_string();
                let before = peers.snapshot();
                let r = catch_unwind(AssertUnwindSafe(|| peers.gc()));
                panicked = r.is_err();
                let after: BTreeSet<PeerId> = peers.snapshot().iter().map(|s| s.id).collect();
                for (i, m) in hx.model.iter_mut().enumerate() {
                    let id = ids[i];
                    let was_tracked = before.iter().find(|s| s.id == id);
                    let must_keep_by_model = m.connected() || !m.tags.is_empty();
                    let must_keep_by_tracker = was_tracked.is_some_and(|s| s.connected || s.protected);
                    if was_tracked.is_some() && (must_keep_by_model || must_keep_by_tracker) {
                        ctx.oracle("C39.gc_keeps_connected_and_protected");
                        if !after.contains(&id) {
                            ctx.violation("C39", "gc_keeps_connected_and_protected", "gc",
                                format!("gc forgot peer {i}: connections {:?}, tags {:?} (tracker before gc: {:?})", m.conns, m.tags, was_tracked));
                        }
                        continue;
                    }
                    if was_tracked.is_none() {
                        continue;
                    }
                    // an unprotected, disconnected peer: whether it is kept is gc's business; the
                    // statement only forbids forgetting connected / protected peers
                    let idle_ms = m.disconnected_at_ms.map(|t| ctx.now_ms().saturating_sub(t));
                    if after.contains(&id) {
                        if idle_ms.is_some_and(|d| d + EPS_MS < EXPIRY_MS) {
                            ctx.probe("gc_kept_recently_disconnected_peer");
                        } else if idle_ms.is_some_and(|d| d > EXPIRY_MS + EPS_MS) {
                            ctx.probe("gc_kept_expired_peer");
                        }
                    } else {
                        if idle_ms.is_some_and(|d| d > EXPIRY_MS + EPS_MS) {
                            ctx.probe("gc_removed_expired_peer");
                        } else if idle_ms.is_some_and(|d| d + EPS_MS < EXPIRY_MS) {
                            ctx.probe("gc_removed_recently_disconnected_peer");
                        }
                        // the entry is gone: whatever it remembered is gone with it
                        *m = ModelPeer::default();
                    }
                }
            }
            _ => {
                let i = ctx.choose("op.peer", n_peers as u32) as usize;
                let id = ids[i];
                let m = &mut hx.model[i];
                match kind {
                    0 => {
                        let c = ctx.choose("op.conn", MAX_CONNS as u32) as usize;
                        // connection ids are unique per swarm, so derive them from (peer, slot)
                        let conn = i * MAX_CONNS + c;
                        ctx.ev("connect", i as u64, c as u64);
                        label = format!("add_connection(peer {i}, conn {conn})");
                        m.touch(now);
                        if m.conns.insert(conn) && m.conns.len() == 1 {
                            m.disconnected_at_ms = None;
                        }
                        panicked = catch_unwind(AssertUnwindSafe(|| peers.add_connection(&id, conn))).is_err();
                    }
                    1 => {
                        let c = ctx.choose("op.conn", MAX_CONNS as u32) as usize;
                        let conn = i * MAX_CONNS + c;
                        ctx.ev("disconnect", i as u64, c as u64);
                        label = format!("remove_connection(peer {i}, conn {conn})");
                        let closed = m.conns.remove(&conn);
                        if closed && m.conns.is_empty() {
                            ctx.probe("last_connection_closed");
                        }
                        // The tracker treats any `remove_connection` that leaves a tracked peer
                        // without connections as a disconnect (marks reset, expiry restarted),
                        // even when the connection id was not open. The statement does not say
                        // whether such a stray close resets anything: both readings stay open.
                        if m.conns.is_empty() && m.created {
                            m.disconnected_at_ms = Some(now);
                            if m.archival == Tri::Yes {
                                m.archival = Tri::Open;
                            }
                            if m.full == Tri::Yes {
                                m.full = Tri::Open;
                            }
                            if !closed {
                                ctx.probe("stray_close_on_disconnected_peer");
                            }
                        }
                        panicked = catch_unwind(AssertUnwindSafe(|| peers.remove_connection(&id, conn))).is_err();
                    }
                    2 => {
                        let v = ctx.choose("op.trusted", 2) == 0;
                        ctx.ev("set_trusted", i as u64, v as u64);
                        label = format!("set_trusted(peer {i}, {v})");
                        m.touch(now);
                        m.trusted = v;
                        panicked = catch_unwind(AssertUnwindSafe(|| peers.set_trusted(&id, v))).is_err();
                    }
                    3 => {
                        let tag = ctx.choose("op.tag", TAGS);
                        ctx.ev("protect", i as u64, tag as u64);
                        label = format!("protect(peer {i}, tag {tag})");
                        m.touch(now);
                        m.tags.insert(tag);
                        panicked = catch_unwind(AssertUnwindSafe(|| { peers.protect(&id, tag); })).is_err();
                    }
                    4 => {
                        let tag = ctx.choose("op.tag", TAGS);
                        ctx.ev("unprotect", i as u64, tag as u64);
                        label = format!("unprotect(peer {i}, tag {tag})");
                        m.tags.remove(&tag);
                        panicked = catch_unwind(AssertUnwindSafe(|| { peers.unprotect(&id, tag); })).is_err();
                    }
                    5 => {
                        ctx.ev("mark_as_archival", i as u64, 0);
                        label = format!("mark_as_archival(peer {i})");
                        m.touch(now);
                        m.archival = Tri::Yes;
                        panicked = catch_unwind(AssertUnwindSafe(|| peers.mark_as_archival(&id))).is_err();
                    }
                    6 => {
                        let a = ctx.choose("op.agent", AGENTS.len() as u32) as usize;
                        let (agent, is_full) = AGENTS[a];
                        ctx.ev("agent_version", i as u64, a as u64);
                        label = format!("on_agent_version(peer {i}, {agent:?})");
                        if m.connected() {
                            m.full = if is_full { Tri::Yes } else { Tri::No };
                        } else if is_full || m.full != Tri::No {
                            // identify info for a peer without connections: the tracker ignores
                            // it; the statement does not say so
                            m.full = Tri::Open;
                        }
                        panicked = catch_unwind(AssertUnwindSafe(|| peers.on_agent_version(&id, agent))).is_err();
                    }
                    _ => {
                        ctx.ev("add_peer_id", i as u64, 0);
                        label = format!("add_peer_id(peer {i})");
                        m.touch(now);
                        panicked = catch_unwind(AssertUnwindSafe(|| { peers.add_peer_id(&id); })).is_err();
                    }
                }
            }
        }
        if panicked {
            // the only panic site of the tracker is its own "flag set but not counted"
            // consistency check, i.e. the per-tag count clause
            let p = ctx.panics.lock().unwrap().last().cloned();
            let in_repo = p.as_ref().is_some_and(|p| !is_harness_location(&p.location));
            if in_repo {
                ctx.oracle("C39.protected_len");
                ctx.violation("C39", "protected_len", "panic",
                    format!("{label} panicked: {:?}", p.map(|p| format!("{} at {}", p.message, p.location))));
            }
            ctx.end_span();
            break;
        }
        {
            let w = held.clone().unwrap_or_else(|| {
                ctx.probe("checked_without_a_standing_watcher");
                peers.info_watcher()
            });
            hx.check_state(&peers, &w, &label);
        }
        if watcher_mode == 2 && ctx.coin("watcher.toggle", 150) {
            held = if held.is_some() { None } else { Some(peers.info_watcher()) };
        }
        ctx.end_span();
    }
}
