//! W-SUBS: the real `BroadcastingStore` (through `lumina_node::verif::Broadcasting`) over an
//! `InMemoryStore`, driven directly the way the syncer drives it.
//!
//! An initial head H0 of an honest chain is stored and `init_broadcast`; then a random partition
//! of (H0, H] goes through `announce_insert` in a random order that the store admits (a range
//! above the store head — adjacent or with a gap — or a range adjacent to a stored one, as the
//! syncer's batches are), interleaved with historical ranges below H0, re-initialisations
//! (reconnections: a newer head is stored first, then `init_broadcast`, mirroring
//! `Syncer::try_init`; or `init_broadcast` with the head that is already the store head, which
//! is what `try_init` does when the network head has not moved), prompt subscribers (tasks
//! blocked in `recv`, like `forward_new_blobs`) and slow subscribers (drained rarely, so the
//! 16-slot channel overruns them), subscribing at any time including before the first init.
//!
//! Preconditions of the component that the generator respects: `announce_insert` is never called
//! before the first `init_broadcast`, and a range never contains `last_sent_height` (it cannot:
//! that height is always stored and every generated range is disjoint from the stored heights).
//!
//! Decides C37 per subscriber:
//!  * `increasing_consecutive` — each height is the previous one + 1, a `Lagged(n)` accounting
//!    for exactly n skipped heights;
//!  * `starts_at_initial_head` — a subscriber from before the first init first receives H0;
//!  * `only_stored` — a delivered height is in the store when it is delivered;
//!  * `complete_at_quiescence` — once every height of (H0, H] has been inserted (and every range
//!    announced), a prompt subscriber from before the first init that never lagged holds exactly
//!    H0..=H; a later prompt subscriber holds everything after its subscription point up to H.

use std::collections::BTreeSet;
use std::sync::{Arc, Mutex};
use std::time::Duration;

use celestia_types::ExtendedHeader;
use lumina_node::store::{InMemoryStore, Store};
use lumina_node::verif::Broadcasting;
use tokio::sync::broadcast;
use tokio::sync::broadcast::error::{RecvError, TryRecvError};

use crate::kernel::ctx::{RunCtx, Tier};
use crate::kernel::runner::{World, WorldFut, is_harness_location};
use crate::seams::chain::{Chain, ChainParams};

pub struct SubsWorld;

impl World for SubsWorld {
    fn name(&self) -> &'static str {
        "subs.direct"
    }
    fn run<'a>(&'a self, ctx: &'a Arc<RunCtx>) -> WorldFut<'a> {
        Box::pin(run_subs(ctx))
    }
    fn vtime_cap(&self) -> Duration {
        Duration::from_secs(3600)
    }
}

#[derive(Debug)]
struct SubLog {
    id: usize,
    prompt: bool,
    before_first_init: bool,
    /// the tap's last height when this subscriber subscribed (None before the first init)
    subscribed_after: Option<u64>,
    got: Vec<u64>,
    /// messages reported lost since the last delivery
    skipped_since_last: u64,
    lagged_total: u64,
}

type Log = Arc<Mutex<SubLog>>;

fn on_lag(ctx: &RunCtx, log: &mut SubLog, n: u64) {
    ctx.ev("sub.lagged", log.id as u64, n);
    ctx.probe(if log.prompt { "prompt_subscriber_lagged" } else { "slow_subscriber_lagged" });
    log.skipped_since_last += n;
    log.lagged_total += n;
}

fn on_delivery(ctx: &RunCtx, log: &mut SubLog, initial_head: u64, height: u64, in_store: bool) {
    ctx.ev("sub.recv", log.id as u64, height);
    match log.got.last().copied() {
        Some(prev) => {
            ctx.oracle("C37.increasing_consecutive");
            let want = prev + 1 + log.skipped_since_last;
            if height != want {
                let key = if height <= prev {
                    "not_increasing"
                } else if log.skipped_since_last > 0 {
                    "lag_miscounted"
                } else {
                    "gap"
                };
                ctx.violation("C37", "increasing_consecutive", key,
                    format!("subscriber {} ({}) received height {height} after {prev} with {} messages reported lagged in between (expected {want})",
                        log.id, if log.prompt { "prompt" } else { "slow" }, log.skipped_since_last));
            }
        }
        None => {
            if log.before_first_init && log.skipped_since_last == 0 {
                ctx.oracle("C37.starts_at_initial_head");
                if height != initial_head {
                    ctx.violation("C37", "starts_at_initial_head", "first_delivery",
                        format!("subscriber {} subscribed before the first init_broadcast({initial_head}) but first received height {height}", log.id));
                }
            }
        }
    }
    ctx.oracle("C37.only_stored");
    if !in_store {
        ctx.violation("C37", "only_stored", "delivery",
            format!("subscriber {} received height {height} which is not in the store", log.id));
    }
    log.skipped_since_last = 0;
    log.got.push(height);
}

/// Let the prompt subscribers run until they block again.
async fn settle() {
    for _ in 0..3 {
        tokio::task::yield_now().await;
    }
}

struct Slow {
    log: Log,
    rx: broadcast::Receiver<ExtendedHeader>,
}

struct Driver {
    ctx: Arc<RunCtx>,
    chain: Arc<Chain>,
    store: Arc<InMemoryStore>,
    bc: Broadcasting<InMemoryStore>,
    h0: u64,
    stored: BTreeSet<u64>,
    logs: Vec<Log>,
    slow: Vec<Slow>,
    prompt_tasks: Vec<tokio::task::JoinHandle<()>>,
    initialised: bool,
    /// heights that entered the store as a re-initialisation head
    reinit_heads: BTreeSet<u64>,
}

impl Driver {
    fn subscribe(&mut self, prompt: bool) {
        let id = self.logs.len();
        // the tap (subscriber 0) is prompt and from before the first init: its last height is
        // the last height sent
        let subscribed_after = self.logs.first().and_then(|t| t.lock().unwrap().got.last().copied());
        let log = Arc::new(Mutex::new(SubLog {
            id,
            prompt,
            before_first_init: !self.initialised,
            subscribed_after,
            got: Vec::new(),
            skipped_since_last: 0,
            lagged_total: 0,
        }));
        self.logs.push(log.clone());
        let mut rx = self.bc.subscribe();
        self.ctx.ev("subscribe", id as u64, prompt as u64);
        if !prompt {
            self.slow.push(Slow { log, rx });
            return;
        }
        let (ctx, store, h0) = (self.ctx.clone(), self.store.clone(), self.h0);
        self.prompt_tasks.push(tokio::spawn(async move {
            loop {
                match rx.recv().await {
                    Ok(h) => {
                        let in_store = store.has(&h.hash()).await;
                        on_delivery(&ctx, &mut log.lock().unwrap(), h0, h.height(), in_store);
                    }
                    Err(RecvError::Lagged(n)) => on_lag(&ctx, &mut log.lock().unwrap(), n),
                    Err(RecvError::Closed) => break,
                }
            }
        }));
    }

    async fn drain_slow(&mut self, i: usize) {
        loop {
            let r = self.slow[i].rx.try_recv();
            match r {
                Ok(h) => {
                    let in_store = self.store.has(&h.hash()).await;
                    on_delivery(&self.ctx, &mut self.slow[i].log.lock().unwrap(), self.h0, h.height(), in_store);
                }
                Err(TryRecvError::Lagged(n)) => on_lag(&self.ctx, &mut self.slow[i].log.lock().unwrap(), n),
                Err(TryRecvError::Empty) | Err(TryRecvError::Closed) => break,
            }
        }
    }

    fn headers(&self, lo: u64, hi: u64) -> Vec<ExtendedHeader> {
        (lo..=hi).map(|h| self.chain.get(h).clone()).collect()
    }

    async fn announce(&mut self, lo: u64, hi: u64, tag: &'static str) {
        self.ctx.ev(tag, lo, hi);
        match self.bc.announce_insert(self.headers(lo, hi)).await {
            Ok(()) => {
                self.stored.extend(lo..=hi);
            }
            Err(e) => {
                // the generator only produces ranges the store admits
                self.ctx.probe("insert_rejected");
                self.ctx.note("insert_rejected", format!("{lo}..={hi}: {e}"));
            }
        }
    }

    /// Maximal runs of missing heights inside lo..=hi.
    fn gaps(&self, lo: u64, hi: u64) -> Vec<(u64, u64)> {
        let mut out: Vec<(u64, u64)> = Vec::new();
        for h in lo..=hi {
            if self.stored.contains(&h) {
                continue;
            }
            match out.last_mut() {
                Some((_, e)) if *e + 1 == h => *e = h,
                _ => out.push((h, h)),
            }
        }
        out
    }
}

async fn run_subs(ctx: &Arc<RunCtx>) {
    // The component under test runs in a spawned task (as it does inside the syncer worker), so a
    // panic of it is a JoinError here, not a panic of the world future.
    let task = tokio::spawn(drive(ctx.clone()));
    if let Err(e) = task.await {
        if e.is_panic() {
            let p = ctx.panics.lock().unwrap().last().cloned();
            if p.as_ref().is_some_and(|p| !is_harness_location(&p.location)) {
                // C37 has no "no panic" clause: a dead broadcaster delivers nothing more, which
                // is what the liveness clause is about
                ctx.oracle("C37.complete_at_quiescence");
                ctx.violation("C37", "complete_at_quiescence", "broadcaster_panicked",
                    format!("BroadcastingStore panicked under its documented preconditions: {}", p.map(|p| format!("{} at {}", p.message, p.location)).unwrap_or_default()));
            }
        }
    }
}

async fn drive(ctx: Arc<RunCtx>) {
    let ctx = &ctx;
    let thorough = ctx.tier == Tier::Thorough;
    let chain_len = if thorough { 400 } else { 160 };
    let chain = Chain::cached(ChainParams {
        class: ctx.range("cfg.chain_class", 0, 1),
        len: chain_len,
        validators: 1,
        block_time_ms: 6000,
        head_offset_ms: -3_600_000,
    });
    let h0 = ctx.range("cfg.h0", 2, 40);
    let span = match ctx.choose("cfg.span_class", 3) {
        0 => ctx.range("cfg.span", 1, 12),
        1 => ctx.range("cfg.span", 1, 60),
        _ => ctx.range("cfg.span", 1, chain_len - 40 - 1),
    };
    let h_top = h0 + span;
    let max_part = ctx.range("cfg.max_part", 1, 48);
    let n_ops = ctx.range("cfg.ops", 0, if thorough { 120 } else { 50 });
    let reinit_budget = ctx.range("cfg.reinits", 0, 3);
    let finish = !ctx.coin("cfg.leave_unfinished", 100);
    ctx.ev("setup", h0, h_top);

    let store = Arc::new(InMemoryStore::new());
    let mut frng = ctx.fixture_rng(37);
    let mut d = Driver {
        ctx: ctx.clone(),
        chain: chain.clone(),
        store: store.clone(),
        bc: Broadcasting::new(store.clone()),
        h0,
        stored: BTreeSet::new(),
        logs: Vec::new(),
        slow: Vec::new(),
        prompt_tasks: Vec::new(),
        initialised: false,
        reinit_heads: BTreeSet::new(),
    };
    // subscriber 0: the tap
    d.subscribe(true);
    for _ in 0..ctx.range("cfg.early_subs", 0, 2) {
        let prompt = ctx.choose("sub.kind", 2) == 0;
        d.subscribe(prompt);
    }

    // ---- the syncer learns the network head: try_init stores it, then init_broadcast
    if let Err(e) = store.insert(chain.get(h0).clone()).await {
        ctx.note("setup_insert_failed", e.to_string());
        return;
    }
    d.stored.insert(h0);
    ctx.ev("init", h0, 0);
    d.bc.init_broadcast(chain.get(h0).clone());
    d.initialised = true;
    settle().await;

    let mut reinits_left = reinit_budget;
    let mut ops_left = n_ops;
    let mut finishing_steps = 0u64;
    loop {
        if !ctx.findings.lock().unwrap().is_empty() {
            break;
        }
        let missing_above = d.gaps(h0 + 1, h_top);
        let budget_left = ops_left > 0;
        if !budget_left && (!finish || missing_above.is_empty()) {
            break;
        }
        if !budget_left {
            // finishing: every step stores at least one height, so this is a safety net only
            finishing_steps += 1;
            if finishing_steps > 2 * chain_len {
                break;
            }
        }
        ops_left = ops_left.saturating_sub(1);
        ctx.begin_span("op");
        // 0 announce a range of (H0, H], 1 historical range, 2 re-initialisation, 3 subscribe,
        // 4 drain a slow subscriber. Once the op budget is used up only 0 remains (finishing).
        let kind = if budget_left { ctx.weighted("op.kind", &[10, 2, 2, 2, 3, 2]) } else { 0 };
        match kind {
            0 if !missing_above.is_empty() => {
                let store_head = d.stored.iter().next_back().copied().unwrap_or(h0);
                let (ga, gb) = missing_above[ctx.choose("range.gap", missing_above.len() as u32) as usize];
                let len_cap = max_part.min(gb - ga + 1);
                let len = ctx.range("range.len", 1, len_cap);
                // where inside the gap: 0 = bottom (adjacent to the stored height below; the
                // height below a gap is always stored because H0 is), 1 = top when the height
                // above the gap is stored, or anywhere when the whole gap is above the store head
                let (lo, hi) = if ga > store_head {
                    let lo = match ctx.choose("range.place", 3) {
                        0 => ga,
                        1 => gb + 1 - len,
                        _ => ga + ctx.range("range.offset", 0, gb + 1 - len - ga),
                    };
                    (lo, lo + len - 1)
                } else if ctx.choose("range.place", 2) == 0 {
                    (ga, ga + len - 1)
                } else {
                    (gb + 1 - len, gb)
                };
                if lo > store_head + 1 {
                    ctx.probe("range_above_head_with_gap");
                } else if lo <= store_head {
                    ctx.probe("range_fills_gap");
                }
                d.announce(lo, hi, "announce").await;
            }
            1 => {
                // historical: directly below the lowest stored height (the syncer's backward sync)
                let lowest = d.stored.iter().next().copied().unwrap_or(h0);
                if lowest > 1 {
                    let len = ctx.range("hist.len", 1, max_part.min(lowest - 1));
                    ctx.probe("historical_range");
                    d.announce(lowest - len, lowest - 1, "announce.historical").await;
                }
            }
            2 if reinits_left > 0 => {
                let store_head = d.stored.iter().next_back().copied().unwrap_or(h0);
                // 0: a newer head (stored first, as try_init does); 1: the network head has not
                // moved (try_init skips the insert when the hashes are equal)
                if ctx.choose("reinit.kind", 4) != 3 && store_head < h_top {
                    let head = match ctx.choose("reinit.head_class", 3) {
                        0 => store_head + 1,
                        1 => (store_head + 1 + ctx.range("reinit.ahead", 1, 20)).min(h_top),
                        _ => ctx.range("reinit.head", store_head + 1, h_top),
                    };
                    reinits_left -= 1;
                    ctx.ev("reinit", head, store_head);
                    ctx.fault("reconnection_newer_head");
                    match store.insert(chain.get(head).clone()).await {
                        Ok(()) => {
                            d.stored.insert(head);
                            d.reinit_heads.insert(head);
                            d.bc.init_broadcast(chain.get(head).clone());
                        }
                        Err(e) => ctx.note("reinit_insert_rejected", format!("{head}: {e}")),
                    }
                } else {
                    reinits_left -= 1;
                    ctx.ev("reinit.same_head", store_head, 0);
                    ctx.fault("reconnection_same_head");
                    d.bc.init_broadcast(chain.get(store_head).clone());
                }
            }
            5 if !missing_above.is_empty() => {
                // an insert the store refuses (what a Byzantine peer's batch, or a batch overtaken
                // by events, looks like to the syncer): nothing of it may ever reach a subscriber
                let store_head = d.stored.iter().next_back().copied().unwrap_or(h0);
                let (ga, gb) = missing_above[ctx.choose("rej.gap", missing_above.len() as u32) as usize];
                if gb < store_head {
                    // the gap is closed from above by a stored header
                    let len = ctx.range("rej.len", 1, max_part.min(gb - ga + 1));
                    if ctx.coin("rej.forged", 600) || gb - ga + 1 < 3 {
                        // a fork placed right below the stored header gb+1: the upper neighbour
                        // does not link to it
                        let lo = gb + 1 - len;
                        let forged = chain.fork(&mut frng, lo, gb);
                        ctx.ev("announce.rejected_fork", lo, gb);
                        ctx.fault("insert_rejected_by_neighbour_verification");
                        if d.bc.announce_insert(forged).await.is_ok() {
                            ctx.note("unexpected", format!("forged range {lo}..={gb} below stored {} was accepted", gb + 1));
                            d.stored.extend(lo..=gb);
                        }
                    } else {
                        // honest headers touching neither end of the gap: no adjacent neighbour
                        let lo = ga + 1;
                        let hi = (lo + len - 1).min(gb - 1);
                        ctx.ev("announce.rejected_island", lo, hi);
                        ctx.fault("insert_rejected_by_constraints");
                        if d.bc.announce_insert(d.headers(lo, hi)).await.is_ok() {
                            ctx.note("unexpected", format!("island {lo}..={hi} inside gap {ga}..={gb} was accepted"));
                            d.stored.extend(lo..=hi);
                        }
                    }
                }
            }
            3 if d.logs.len() < 6 => {
                let prompt = ctx.choose("sub.kind", 2) == 0;
                d.subscribe(prompt);
            }
            4 if !d.slow.is_empty() => {
                let i = ctx.choose("slow.which", d.slow.len() as u32) as usize;
                d.drain_slow(i).await;
            }
            _ => {}
        }
        // prompt subscribers drain after every step
        settle().await;
        ctx.end_span();
    }

    // ------------------------------------------------------------------ quiescence
    settle().await;
    tokio::time::sleep(Duration::from_millis(10)).await;
    for i in 0..d.slow.len() {
        d.drain_slow(i).await;
    }
    let complete = d.gaps(h0 + 1, h_top).is_empty();
    if complete && ctx.findings.lock().unwrap().is_empty() {
        ctx.probe("all_heights_inserted");
        for log in &d.logs {
            let log = log.lock().unwrap();
            if !log.prompt {
                continue;
            }
            if log.lagged_total > 0 {
                // nothing to require of a subscriber the channel overran
                continue;
            }
            ctx.oracle("C37.complete_at_quiescence");
            // what this subscriber must hold: everything sent after it subscribed, up to H
            let first_due = if log.before_first_init { Some(h0) } else { log.subscribed_after.map(|s| s + 1) };
            let Some(first_due) = first_due else { continue };
            if first_due > h_top {
                continue;
            }
            let want: Vec<u64> = (first_due..=h_top).collect();
            if log.got != want {
                let missing: Vec<u64> = want.iter().copied().filter(|h| !log.got.contains(h)).collect();
                // A height that entered the store as a re-initialisation head and has not been
                // delivered although everything below it has: the head parked by `init_broadcast`.
                let parked = missing.first().is_some_and(|m| d.reinit_heads.contains(m))
                    && log.got.last().copied() == missing.first().map(|m| m - 1);
                let key = if parked { "reinit_head_parked" } else { "missing_heights" };
                ctx.violation("C37", "complete_at_quiescence", key,
                    format!("every height of ({h0}, {h_top}] is inserted and every range announced, but prompt subscriber {} (due from {first_due}) holds {} heights, last {:?}; missing {:?}{}",
                        log.id, log.got.len(), log.got.last(), &missing[..missing.len().min(8)],
                        if parked { format!(" — height {} was stored and passed to init_broadcast on a reconnection when it was last_sent_height + 1; it stays in `pending` until a later announce_insert", missing[0]) } else { String::new() }));
                break;
            }
            ctx.probe("prompt_subscriber_complete");
        }
    }

    // closing the channel ends the prompt tasks
    let Driver { bc, prompt_tasks, slow, .. } = d;
    drop(slow);
    drop(bc);
    for t in prompt_tasks {
        let _ = t.await;
    }
}
