//! W-HXS: the real `HeaderExServerHandler` (through `hx::HxServer<InMemoryStore, Recorder>`) over
//! stores with gaps, against Byzantine *clients*: any origin / amount (0, 1, 512, 513, near
//! `u64::MAX`), hashes of any length (existing, known-but-not-stored, unknown), empty requests;
//! several requests in flight on one handler, submitted and polled in chooser-chosen
//! interleavings.
//!
//! Decides C29: every response channel is compared with the statement's case table evaluated on
//! the (static) store contents, and no request may panic the handler (overflow checks are on).
//! Each group of in-flight requests runs inside a spawned task, so a panic of the handler is
//! observed as a `JoinError` plus an entry in `ctx.panics`, never as a panic of the world future.

use std::collections::{BTreeMap, BTreeSet};
use std::future::poll_fn;
use std::sync::Arc;
use std::time::Duration;

use celestia_proto::p2p::pb::header_request::Data;
use celestia_proto::p2p::pb::{HeaderRequest, HeaderResponse, StatusCode};
use celestia_types::ExtendedHeader;
use libp2p::PeerId;
use lumina_node::store::{InMemoryStore, Store, VerifiedExtendedHeaders};
use lumina_node::verif::hx;
use tendermint_proto::Protobuf;

use crate::kernel::ctx::{RunCtx, Tier};
use crate::kernel::runner::{World, WorldFut, is_harness_location};
use crate::seams::chain::{Chain, ChainParams};
use crate::seams::store_model::ranges_to_set;

pub struct HxsWorld;

impl World for HxsWorld {
    fn name(&self) -> &'static str {
        "hxs.server"
    }
    fn run<'a>(&'a self, ctx: &'a Arc<RunCtx>) -> WorldFut<'a> {
        Box::pin(run_server(ctx))
    }
    fn vtime_cap(&self) -> Duration {
        Duration::from_secs(3600)
    }
}

const MAX_RESP: u64 = 512;

/// Response recorder: the `SimResponder` seam. A channel is just the request's index.
struct Recorder {
    got: Vec<(u64, Vec<HeaderResponse>)>,
}

impl hx::SimResponder for Recorder {
    type Channel = u64;

    fn send_response(&mut self, channel: u64, response: Vec<HeaderResponse>) {
        self.got.push((channel, response));
    }
}

fn peer_id(i: u64) -> PeerId {
    // identity multihash of 32 bytes: a syntactically valid peer id, no OS randomness
    let mut b = [0u8; 32];
    b[..8].copy_from_slice(&i.to_le_bytes());
    b[31] = 0x5A;
    let mh = multihash::Multihash::<64>::wrap(0x00, &b).expect("32 bytes fit");
    PeerId::from_multihash(mh).expect("identity multihash of 32 bytes is a peer id")
}

fn describe(r: &HeaderRequest) -> String {
    match &r.data {
        None => format!("data=None amount={}", r.amount),
        Some(Data::Origin(o)) => format!("origin={o} amount={}", r.amount),
        Some(Data::Hash(h)) => format!("hash[{}]={} amount={}", h.len(), hex::encode(&h[..h.len().min(6)]), r.amount),
    }
}

/// The statement's notion of an invalid request (`HeaderRequestExt::is_valid` negated): no data,
/// amount 0, origin 0 with amount > 1, hash of wrong length or with amount > 1.
fn is_invalid(r: &HeaderRequest) -> bool {
    match (&r.data, r.amount) {
        (None, _) | (_, 0) => true,
        (Some(Data::Origin(0)), a) => a > 1,
        (Some(Data::Hash(h)), a) => h.len() != 32 || a > 1,
        _ => false,
    }
}

#[derive(Debug, PartialEq, Eq)]
enum Expect {
    Invalid,
    NotFound,
    /// heights of the stored headers, in order
    Headers(Vec<u64>),
}

fn expected(r: &HeaderRequest, stored: &BTreeMap<u64, ExtendedHeader>) -> Expect {
    if is_invalid(r) {
        return Expect::Invalid;
    }
    match r.data.as_ref().expect("valid request has data") {
        Data::Origin(0) => match stored.keys().next_back() {
            Some(h) => Expect::Headers(vec![*h]),
            None => Expect::NotFound,
        },
        Data::Origin(o) => {
            let cap = r.amount.min(MAX_RESP);
            let mut hs = Vec::new();
            let mut h = *o;
            while (hs.len() as u64) < cap && stored.contains_key(&h) {
                hs.push(h);
                match h.checked_add(1) {
                    Some(n) => h = n,
                    None => break,
                }
            }
            if hs.is_empty() { Expect::NotFound } else { Expect::Headers(hs) }
        }
        Data::Hash(hash) => match stored.values().find(|h| h.hash().as_bytes() == &hash[..]) {
            Some(h) => Expect::Headers(vec![h.height()]),
            None => Expect::NotFound,
        },
    }
}

fn gen_request(ctx: &RunCtx, chain: &Chain, stored: &BTreeMap<u64, ExtendedHeader>, range_starts: &[u64]) -> HeaderRequest {
    let heights: Vec<u64> = stored.keys().copied().collect();
    let head = heights.last().copied().unwrap_or(0);
    // 0: by height, 1: head, 2: by hash, 3: no data
    match ctx.weighted("req.kind", &[10, 2, 4, 1]) {
        1 => {
            // head request, sometimes with an amount that makes it invalid
            let amount = match ctx.weighted("req.head_amount", &[8, 1, 1]) {
                0 => 1,
                1 => 0,
                _ => 2 + ctx.range("req.head_amount_v", 0, 600),
            };
            HeaderRequest { data: Some(Data::Origin(0)), amount }
        }
        2 => {
            let len = match ctx.weighted("req.hash_len", &[10, 1, 1, 1, 1]) {
                0 => 32usize,
                1 => 0,
                2 => 31,
                3 => 33,
                _ => 64,
            };
            let mut bytes: Vec<u8> = match ctx.weighted("req.hash_src", &[6, 2, 2]) {
                0 if !heights.is_empty() => {
                    let h = heights[ctx.choose("req.hash_of", heights.len() as u32) as usize];
                    stored[&h].hash().as_bytes().to_vec()
                }
                1 => {
                    // a header of the chain that is (possibly) not stored
                    let h = ctx.range("req.hash_chain_h", 1, chain.len());
                    chain.get(h).hash().as_bytes().to_vec()
                }
                _ => {
                    let mut r = ctx.fixture_rng(0x4853 + ctx.seq());
                    let mut b = vec![0u8; 32];
                    r.fill(&mut b);
                    b
                }
            };
            bytes.resize(len, 0xAB);
            let amount = match ctx.weighted("req.hash_amount", &[10, 1, 1, 1]) {
                0 => 1,
                1 => 0,
                2 => 2,
                _ => u64::MAX,
            };
            HeaderRequest { data: Some(Data::Hash(bytes)), amount }
        }
        3 => HeaderRequest { data: None, amount: *ctx.pick("req.none_amount", &[1u64, 0, 2, 512, u64::MAX]) },
        _ => {
            // 0: a stored height, 1: start of a stored range, 2: near the head, 3: anywhere in
            // 1..head+8 (gaps, above head), 4: near u64::MAX, 5: large
            let origin = match ctx.weighted("req.origin_class", &[6, 4, 3, 4, 3, 1]) {
                0 if !heights.is_empty() => heights[ctx.choose("req.origin_stored", heights.len() as u32) as usize],
                1 if !range_starts.is_empty() => range_starts[ctx.choose("req.origin_start", range_starts.len() as u32) as usize],
                2 => head.saturating_sub(ctx.range("req.origin_below_head", 0, 4)).max(1) + ctx.range("req.origin_above_head", 0, 2),
                4 => u64::MAX - ctx.range("req.origin_from_max", 0, 600),
                5 => *ctx.pick("req.origin_large", &[1u64 << 32, 1u64 << 63, (1u64 << 63) - 1, u64::MAX / 2]),
                _ => ctx.range("req.origin_any", 1, head + 8),
            };
            let amount = match ctx.weighted("req.amount_class", &[6, 6, 1, 2, 2, 2, 1, 1, 2]) {
                0 => 1,
                1 => ctx.range("req.amount_small", 2, 16),
                2 => 0,
                3 => 512,
                4 => 513,
                5 => 511,
                6 => ctx.range("req.amount_mid", 17, 2000),
                7 => u64::MAX - ctx.range("req.amount_from_max", 0, 3),
                _ => ctx.range("req.amount_span", 1, 40),
            };
            HeaderRequest { data: Some(Data::Origin(origin)), amount }
        }
    }
}

async fn run_server(ctx: &Arc<RunCtx>) {
    let thorough = ctx.tier == Tier::Thorough;
    // ---- the store: honest chain ranges with gaps
    // 0: small chain, 1: a chain long enough for runs above the 512 cap
    let big = ctx.coin("store.big", if thorough { 150 } else { 40 });
    let chain = Chain::cached(ChainParams {
        class: if big { 0 } else { ctx.range("store.chain_class", 0, 2) },
        len: if big { 700 } else { 64 },
        validators: 1,
        block_time_ms: 6000,
        head_offset_ms: -3_600_000,
    });
    let store = Arc::new(InMemoryStore::new());
    let mut stored: BTreeMap<u64, ExtendedHeader> = BTreeMap::new();
    let mut range_starts: Vec<u64> = Vec::new();
    // index 0 of the weights means one range (the simplest non-trivial store); the empty store
    // is a separate coin
    let n_ranges = if ctx.coin("store.empty", 60) { 0 } else { 1 + ctx.weighted("store.ranges", &[3, 5, 4, 2, 1]) };
    let mut next = 1u64;
    for i in 0..n_ranges {
        let gap = if i == 0 { ctx.range("store.first_at", 0, 5) } else { ctx.range("store.gap", 1, 6) };
        let lo = next + gap;
        if lo > chain.len() {
            break;
        }
        let room = chain.len() - lo + 1;
        let len = if big && i == 0 {
            // one run straddling the 512 cap
            ctx.range("store.big_len", 505, 530).min(room)
        } else {
            ctx.range("store.len", 1, 20).min(room)
        };
        let hi = lo + len - 1;
        let hs: Vec<ExtendedHeader> = (lo..=hi).map(|h| chain.get(h).clone()).collect();
        // Honest consecutive SimChain headers: the invariants of `VerifiedExtendedHeaders` hold by
        // construction; skipping the signature re-check keeps a 500-header fill cheap.
        let v = unsafe { VerifiedExtendedHeaders::new_unchecked(hs.clone()) };
        match store.insert(v).await {
            Ok(()) => {
                ctx.ev("store.insert", lo, hi);
                for h in hs {
                    stored.insert(h.height(), h);
                }
                range_starts.push(lo);
            }
            Err(e) => {
                // not expected for ascending honest ranges; the oracle only speaks about what is stored
                ctx.note("store_insert_error", format!("{lo}..={hi}: {e}"));
            }
        }
        next = hi + 1;
    }
    // single-height holes
    if !stored.is_empty() {
        let holes = ctx.weighted("store.holes", &[6, 2, 1, 1]);
        for _ in 0..holes {
            let hs: Vec<u64> = stored.keys().copied().collect();
            if hs.is_empty() {
                break;
            }
            let h = hs[ctx.choose("store.hole_at", hs.len() as u32) as usize];
            if store.remove_height(h).await.is_ok() {
                ctx.ev("store.remove", h, 0);
                stored.remove(&h);
                if stored.contains_key(&(h + 1)) {
                    range_starts.push(h + 1);
                }
            }
        }
    }
    // harness sanity: my picture of the store is the store's own picture; otherwise judge nothing
    match store.get_stored_header_ranges().await {
        Ok(r) => {
            let set: BTreeSet<u64> = ranges_to_set(&r);
            let mine: BTreeSet<u64> = stored.keys().copied().collect();
            if set != mine {
                ctx.note("store_picture_mismatch", format!("store {set:?} vs harness {mine:?}"));
                ctx.probe("store_picture_mismatch");
                return;
            }
        }
        Err(e) => {
            ctx.note("store_ranges_error", e.to_string());
            return;
        }
    }
    let has_gap = {
        let ks: Vec<u64> = stored.keys().copied().collect();
        ks.windows(2).any(|w| w[1] != w[0] + 1)
    };
    if has_gap {
        ctx.probe("store_has_gap");
    }

    // ---- request groups: each group = one handler instance with its requests in flight together
    let n_groups = ctx.range("groups", 1, if thorough { 6 } else { 4 });
    let mut next_channel = 0u64;
    for _g in 0..n_groups {
        if !ctx.findings.lock().unwrap().is_empty() {
            break;
        }
        ctx.begin_span("group");
        let n_reqs = 1 + ctx.weighted("group.size", &[5, 3, 2, 1, 1]) as u64;
        let mut reqs: Vec<(u64, HeaderRequest)> = Vec::new();
        // submit/poll interleaving script: after submitting request i, poll `polls[i]` times
        let mut polls: Vec<u32> = Vec::new();
        for _ in 0..n_reqs {
            ctx.begin_span("req");
            let r = gen_request(ctx, &chain, &stored, &range_starts);
            polls.push(ctx.choose("group.polls_after_submit", 3));
            ctx.end_span();
            ctx.ev_with("req", next_channel, r.amount, || describe(&r));
            reqs.push((next_channel, r));
            next_channel += 1;
        }
        ctx.end_span();
        for (_, r) in &reqs {
            if let Some(Data::Origin(o)) = &r.data {
                if !is_invalid(r) && o.checked_add(r.amount.min(MAX_RESP)).is_none() {
                    ctx.probe("origin_plus_amount_exceeds_u64");
                }
                if !is_invalid(r) && r.amount > MAX_RESP {
                    ctx.probe("amount_above_512");
                }
            }
            if is_invalid(r) {
                ctx.probe("invalid_request");
            }
            if let Some(Data::Hash(h)) = &r.data {
                if h.len() != 32 {
                    ctx.probe("hash_of_wrong_length");
                }
            }
        }

        // ---- run the group on a real handler inside a spawned task
        let store2 = store.clone();
        let reqs2 = reqs.clone();
        let task = tokio::spawn(async move {
            let mut server: hx::HxServer<InMemoryStore, Recorder> = hx::HxServer::new(store2);
            let mut responder = hx::ResponderAdapter(Recorder { got: Vec::new() });
            let mut stalled = false;
            for (i, (ch, r)) in reqs2.iter().enumerate() {
                server.on_request_received(peer_id(*ch), *ch, r.clone(), &mut responder, *ch);
                for _ in 0..polls[i] {
                    // one bounded poll: the handler pends forever when it has nothing to do
                    let _ = tokio::time::timeout(
                        Duration::from_millis(1),
                        poll_fn(|cx| server.poll(cx, &mut responder)),
                    )
                    .await;
                }
            }
            // poll to completion: until every channel was answered, or the handler stays idle
            // for a whole virtual second (store operations never wait for time)
            loop {
                let answered: BTreeSet<u64> = responder.0.got.iter().map(|(c, _)| *c).collect();
                if reqs2.iter().all(|(c, _)| answered.contains(c)) {
                    break;
                }
                let r = tokio::time::timeout(
                    Duration::from_secs(1),
                    poll_fn(|cx| server.poll(cx, &mut responder)),
                )
                .await;
                if r.is_err() {
                    stalled = true;
                    break;
                }
            }
            // a correct handler has nothing left; give a late duplicate the chance to show
            let _ = tokio::time::timeout(Duration::from_millis(1), poll_fn(|cx| server.poll(cx, &mut responder))).await;
            (responder.0.got, stalled)
        });
        let joined = task.await;

        // ---- no panic, for any request
        ctx.oracle("C29.no_panic");
        let (got, stalled) = match joined {
            Ok(x) => x,
            Err(e) => {
                let panics = ctx.panics.lock().unwrap().clone();
                let repo_panic = panics.iter().rev().find(|p| !is_harness_location(&p.location));
                if e.is_panic() {
                    if let Some(p) = repo_panic {
                        let near_max = reqs.iter().any(|(_, r)| {
                            matches!(&r.data, Some(Data::Origin(o)) if o.checked_add(r.amount.min(MAX_RESP)).is_none())
                        });
                        let key = if near_max { "origin_near_u64_max" } else { "other" };
                        let list: Vec<String> = reqs.iter().map(|(c, r)| format!("#{c} {}", describe(r))).collect();
                        ctx.violation("C29", "no_panic", key,
                            format!("the server handler panicked at {}: `{}` while serving the in-flight requests [{}]", p.location, p.message, list.join("; ")));
                    }
                    // a harness panic is reported by the runner as a harness error
                }
                return;
            }
        };

        // ---- the case table, per response channel
        let mut by_channel: BTreeMap<u64, Vec<Vec<HeaderResponse>>> = BTreeMap::new();
        for (c, resp) in got {
            ctx.ev("resp", c, resp.len() as u64);
            by_channel.entry(c).or_default().push(resp);
        }
        for (c, r) in &reqs {
            let want = expected(r, &stored);
            let lists = by_channel.remove(c).unwrap_or_default();
            ctx.oracle("C29.one_response_per_request");
            if lists.len() != 1 {
                ctx.violation("C29", "one_response_per_request", if lists.is_empty() { "none" } else { "several" },
                    format!("request #{c} ({}) received {} responses (handler idle: {stalled}); expected {want:?}", describe(r), lists.len()));
                continue;
            }
            let resp = &lists[0];
            let (clause, okey): (&'static str, &str) = match (&want, &r.data) {
                (Expect::Invalid, _) => ("invalid_request", "invalid_request"),
                (_, Some(Data::Origin(0))) => ("head_request", "head"),
                (_, Some(Data::Origin(_))) => ("height_request", "height"),
                _ => ("hash_request", "hash"),
            };
            match clause {
                "invalid_request" => ctx.oracle("C29.invalid_request"),
                "head_request" => ctx.oracle("C29.head_request"),
                "height_request" => ctx.oracle("C29.height_request"),
                _ => ctx.oracle("C29.hash_request"),
            }
            let statuses: Vec<i32> = resp.iter().map(|x| x.status_code).collect();
            let ok = match &want {
                Expect::Invalid => resp.len() == 1 && resp[0].status_code == i32::from(StatusCode::Invalid),
                Expect::NotFound => resp.len() == 1 && resp[0].status_code == i32::from(StatusCode::NotFound),
                Expect::Headers(hs) => {
                    resp.len() == hs.len()
                        && resp.iter().zip(hs).all(|(x, h)| {
                            x.status_code == i32::from(StatusCode::Ok)
                                && ExtendedHeader::decode(&x.body[..]).ok().as_ref() == stored.get(h)
                        })
                }
            };
            if let Expect::Headers(hs) = &want {
                if hs.len() as u64 == MAX_RESP && r.amount > MAX_RESP {
                    ctx.probe("response_capped_at_512");
                }
                if clause == "height_request" && (hs.len() as u64) < r.amount.min(MAX_RESP) {
                    ctx.probe("run_cut_by_gap_or_head");
                }
            }
            if clause == "height_request" && want == Expect::NotFound {
                ctx.probe("height_not_stored");
            }
            if !ok {
                let got_heights: Vec<String> = resp.iter().take(6).map(|x| {
                    match ExtendedHeader::decode(&x.body[..]) {
                        Ok(h) => format!("{}", h.height()),
                        Err(_) => format!("status{}", x.status_code),
                    }
                }).collect();
                let want_s = match &want {
                    Expect::Headers(hs) => format!("{} stored headers {:?}..", hs.len(), &hs[..hs.len().min(4)]),
                    w => format!("{w:?}"),
                };
                ctx.violation("C29", clause, okey,
                    format!("request #{c} ({}) answered with {} entries (first {:?}, statuses {:?}); the store contents require {want_s}",
                        describe(r), resp.len(), got_heights, &statuses[..statuses.len().min(6)]));
            }
        }
        for (c, lists) in by_channel {
            ctx.oracle("C29.one_response_per_request");
            ctx.violation("C29", "one_response_per_request", "unknown_channel",
                format!("{} responses on channel {c} that belongs to no request of the group", lists.len()));
        }
    }
}
