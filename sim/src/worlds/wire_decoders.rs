//! `wire.decoders` (C16): every decoder that processes bytes received from peers, fed with honest
//! encodings passed through the corrupting link and with structure-aware adversarial protobufs.

use std::panic::AssertUnwindSafe;
use std::sync::Arc;

use celestia_proto::bitswap::Block;
use celestia_proto::header::pb::ExtendedHeader as RawExtendedHeader;
use celestia_proto::p2p::pb::header_request::Data;
use celestia_proto::p2p::pb::{HeaderRequest, HeaderResponse, StatusCode};
use celestia_proto::proof::pb::Proof as RawProof;
use celestia_proto::share::eds::byzantine::pb::{BadEncoding as RawBefp, Share as RawBefpShare};
use celestia_proto::share::p2p::shrex::Response as ProtoResponse;
use celestia_proto::share::p2p::shrex::sub::RecentEdsNotification;
use celestia_proto::shwap::{
    Row as RawRow, RowNamespaceData as RawRnd, Sample as RawSample, Share as RawShare,
};
use celestia_types::consts::appconsts::SHARE_SIZE;
use celestia_types::eds::EdsId;
use celestia_types::fraud_proof::{BadEncodingFraudProof, FraudProof};
use celestia_types::namespace_data::NamespaceDataId;
use celestia_types::nmt::{NS_SIZE, Namespace};
use celestia_types::row::{ROW_ID_MULTIHASH_CODE, Row, RowId};
use celestia_types::row_namespace_data::{
    ROW_NAMESPACE_DATA_ID_MULTIHASH_CODE, RowNamespaceData, RowNamespaceDataId,
};
use celestia_types::sample::{SAMPLE_ID_MULTIHASH_CODE, Sample, SampleId};
use celestia_types::{AxisType, ExtendedHeader};
use cid::CidGeneric;
use futures::AsyncReadExt;
use lumina_node::store::{InMemoryStore, Store};
use lumina_node::verif::{self, hx, shrex};
use prost::Message;
use tendermint_proto::Protobuf;

use super::fixtures::{Befp, Square};
use super::{
    RESPONSE_TIME_LIMIT_MS, fnv, hex_head, panic_mark, panic_site, repo_panics_since, stop,
};
use crate::kernel::ctx::{RunCtx, Tier};
use crate::seams::chain::{Chain, ChainParams};
use crate::seams::stream::{LinkPlan, Profile, preloaded};

// ------------------------------------------------------------------------------------ judging

/// Outcome codes recorded in the history.
const OK: u64 = 1;
const ERR: u64 = 2;
const PANIC: u64 = 3;

struct Call<'a> {
    ctx: &'a Arc<RunCtx>,
    /// how the input was made (goes into the violation text)
    note: String,
}

impl<'a> Call<'a> {
    /// Run a synchronous decoder under catch_unwind and judge it.
    fn sync<T>(&self, decoder: &'static str, input: &[u8], f: impl FnOnce() -> Result<T, String>) -> Option<T> {
        let mark = panic_mark(self.ctx);
        let r = std::panic::catch_unwind(AssertUnwindSafe(f));
        let (code, val) = match r {
            Ok(Ok(v)) => (OK, Some(v)),
            Ok(Err(_)) => (ERR, None),
            Err(_) => (PANIC, None),
        };
        self.judge(decoder, input, mark, code);
        val
    }

    fn judge(&self, decoder: &'static str, input: &[u8], mark: usize, code: u64) {
        let ctx = self.ctx;
        ctx.oracle("C16.no_panic");
        ctx.probe(decoder); // calls per decoder
        ctx.ev_with("dec.call", fnv(decoder.as_bytes()), (input.len() as u64) << 8 | code, || decoder.to_string());
        let panics = repo_panics_since(ctx, mark);
        if let Some(p) = panics.first() {
            // key = the panic site: the same site reached through several decoders is one finding
            ctx.violation("C16", "no_panic", &crate::kernel::runner::short_location(&p.location),
                format!("{decoder} panicked at {}: `{}`; input made by: {}; input ({} bytes) hex: {}",
                    p.location, p.message, self.note, input.len(), hex_head(input, 3000)));
        } else if code == PANIC {
            // catch_unwind saw a panic the hook attributed to the harness: harness error path
            ctx.probe("harness_panic_in_decoder_call");
        }
    }
}

// ------------------------------------------------------------------------------------ byte-level

/// Replace the varint starting at `pos` with another one (length-prefix tampering).
fn tamper_varint(ctx: &RunCtx, bytes: &[u8], pos: usize) -> Vec<u8> {
    if pos >= bytes.len() {
        return bytes.to_vec();
    }
    let mut end = pos;
    while end < bytes.len() && bytes[end] & 0x80 != 0 && end - pos < 9 {
        end += 1;
    }
    let end = (end + 1).min(bytes.len());
    let mut old = 0u64;
    for (i, b) in bytes[pos..end].iter().enumerate() {
        old |= ((b & 0x7f) as u64) << (7 * i.min(9));
    }
    let mut new = Vec::new();
    match ctx.choose("tamper.varint", 12) {
        0 => prost::encoding::encode_varint(old.wrapping_add(1), &mut new),
        1 => prost::encoding::encode_varint(old.wrapping_sub(1), &mut new),
        2 => prost::encoding::encode_varint(0, &mut new),
        3 => prost::encoding::encode_varint(127, &mut new),
        4 => prost::encoding::encode_varint(128, &mut new),
        5 => prost::encoding::encode_varint(bytes.len() as u64, &mut new),
        6 => prost::encoding::encode_varint(u32::MAX as u64, &mut new),
        7 => prost::encoding::encode_varint(1 << 32, &mut new),
        8 => prost::encoding::encode_varint(i64::MAX as u64, &mut new),
        9 => prost::encoding::encode_varint(u64::MAX, &mut new),
        10 => new.extend_from_slice(&[0x80; 11]), // never-ending varint
        _ => {
            // non-canonical (overlong) encoding of the same value
            prost::encoding::encode_varint(old, &mut new);
            if let Some(l) = new.last_mut() {
                *l |= 0x80;
            }
            new.extend_from_slice(&[0x80, 0x00]);
        }
    }
    let mut out = bytes[..pos].to_vec();
    out.extend_from_slice(&new);
    out.extend_from_slice(&bytes[end..]);
    out
}

fn link_profile(len: usize, hot: Vec<usize>) -> Profile {
    Profile {
        len,
        hot,
        align: 0,
        align_off: 0,
        limit_ms: 1000,
        // none, truncate, flip, dup, swap, garbage, io error, stall, drip, writer stall
        weights: [2, 4, 6, 2, 2, 1, 0, 0, 0, 0],
        second_fault: 250,
        max_chunks: 8,
    }
}

/// Honest bytes through the corrupting link (content faults only) and, sometimes, with a length
/// prefix rewritten. `hot` are offsets of length prefixes / field boundaries.
async fn corrupt(ctx: &Arc<RunCtx>, bytes: Vec<u8>, hot: &[usize], note: &mut String) -> Vec<u8> {
    let mut b = bytes;
    if ctx.coin("tamper.len", 200) {
        let pos = if hot.is_empty() || ctx.coin("tamper.anywhere", 300) {
            ctx.range("tamper.pos", 0, b.len().min(24) as u64) as usize
        } else {
            *ctx.pick("tamper.hot", hot)
        };
        b = tamper_varint(ctx, &b, pos);
        note.push_str(&format!(" +varint at {pos} rewritten"));
        ctx.fault("length_prefix_tampered");
    }
    let mut hot_all = vec![0, b.len()];
    hot_all.extend_from_slice(hot);
    let plan = LinkPlan::draw(ctx, &link_profile(b.len(), hot_all));
    note.push_str(&format!(" +link {:?}/{:?}/{:?}/garbage{}", plan.eof_at, plan.flips, plan.segment, plan.garbage_prefix.len()));
    let (mut r, h) = preloaded(ctx, plan, b);
    let mut out = Vec::new();
    let _ = r.read_to_end(&mut out).await;
    drop(r);
    let _ = h;
    out
}

// ------------------------------------------------------------------------------------ structure-level

fn nmt_node(min: &[u8], max: &[u8], fill: u8) -> Vec<u8> {
    let mut n = Vec::with_capacity(2 * NS_SIZE + 32);
    n.extend_from_slice(min);
    n.extend_from_slice(max);
    n.extend_from_slice(&[fill; 32]);
    n
}

const IDX_EXTREMES: &[i64] = &[
    0, 1, 2, -1, 0xFFFF, 0x7FFF_FFFF, 0x8000_0000, 0xFFFF_FFFF, 0xFFFF_FFFE, 0x1_0000_0000,
    0x1_0000_0001, i64::MAX, i64::MIN, 0x5555_5555, 0xFFFF_FFF0,
];
const NODE_COUNTS: &[usize] = &[0, 1, 2, 31, 32, 33, 63, 64, 65, 200];

/// Edit an NMT proof. Returns a short description.
fn mutate_proof(ctx: &RunCtx, p: &mut RawProof) -> String {
    let sample_node = p
        .nodes
        .first()
        .cloned()
        .unwrap_or_else(|| nmt_node(&[0u8; NS_SIZE], &[0xffu8; NS_SIZE], 7));
    match ctx.choose("mut.proof", 13) {
        0 => {
            let n = *ctx.pick("mut.nodes", NODE_COUNTS);
            p.nodes = (0..n).map(|i| p.nodes.get(i % p.nodes.len().max(1)).cloned().unwrap_or_else(|| sample_node.clone())).collect();
            format!("proof.nodes={n}")
        }
        1 => {
            // the suspected shift: a single-leaf proof with a huge sibling list
            let n = *ctx.pick("mut.nodes_big", &[64usize, 65, 200, 63]);
            p.nodes = vec![sample_node; n];
            let s = *ctx.pick("mut.single_start", &[0i64, 1, 5, 0xFFFF_FFFE]);
            p.start = s;
            p.end = s + 1;
            format!("proof single leaf [{s},{}) with {n} nodes", s + 1)
        }
        2 => {
            p.start = *ctx.pick("mut.start", IDX_EXTREMES);
            format!("proof.start={}", p.start)
        }
        3 => {
            p.end = *ctx.pick("mut.end", IDX_EXTREMES);
            format!("proof.end={}", p.end)
        }
        4 => {
            std::mem::swap(&mut p.start, &mut p.end);
            if p.start == p.end {
                p.end = p.start.wrapping_sub(1);
            }
            format!("proof end<start [{},{})", p.start, p.end)
        }
        5 => {
            p.end = p.start;
            "proof empty range".into()
        }
        6 => {
            p.is_max_namespace_ignored = !p.is_max_namespace_ignored;
            "proof.is_max_namespace_ignored flipped".into()
        }
        7 => {
            // presence <-> absence
            if p.leaf_hash.is_empty() {
                p.leaf_hash = match ctx.choose("mut.leaf", 3) {
                    0 => sample_node.clone(),
                    1 => nmt_node(&[0xffu8; NS_SIZE], &[0xffu8; NS_SIZE], 1),
                    _ => nmt_node(&[0u8; NS_SIZE], &[0u8; NS_SIZE], 1),
                };
                "proof.leaf_hash added".into()
            } else {
                p.leaf_hash.clear();
                "proof.leaf_hash removed".into()
            }
        }
        8 => {
            p.leaf_hash = vec![3u8; *ctx.pick("mut.leaf_len", &[1usize, 32, 89, 91, 180])];
            format!("proof.leaf_hash of {} bytes", p.leaf_hash.len())
        }
        9 => {
            let len = *ctx.pick("mut.node_len", &[0usize, 1, 32, 89, 91, 180]);
            let i = ctx.choose("mut.node_idx", p.nodes.len().max(1) as u32) as usize;
            if p.nodes.is_empty() {
                p.nodes.push(vec![1u8; len]);
            } else {
                p.nodes[i] = vec![1u8; len];
            }
            format!("proof.nodes[{i}] of {len} bytes")
        }
        10 => {
            // node whose min namespace > max namespace
            let n = nmt_node(&[0xffu8; NS_SIZE], &[0u8; NS_SIZE], 9);
            if p.nodes.is_empty() {
                p.nodes.push(n);
            } else {
                let i = ctx.choose("mut.node_idx", p.nodes.len() as u32) as usize;
                p.nodes[i] = n;
            }
            "proof node with min_ns > max_ns".into()
        }
        11 => {
            // start index with more one-bits than there are nodes (left-sibling arithmetic)
            p.start = *ctx.pick("mut.start_bits", &[0xFFFFi64, 0x7FFF_FFFF, 0xFFFF_FFFF, 0xFF, 0x7]);
            p.end = p.start + *ctx.pick("mut.len", &[1i64, 0, 2]);
            let keep = ctx.choose("mut.keep_nodes", 3) as usize;
            p.nodes.truncate(keep);
            format!("proof start={:#x} with {} nodes", p.start, p.nodes.len())
        }
        _ => {
            p.nodes.reverse();
            "proof nodes reversed".into()
        }
    }
}

fn junk_share(ctx: &RunCtx, ns: &Namespace) -> Vec<u8> {
    match ctx.choose("mut.share", 9) {
        0 => vec![],
        1 => vec![0u8; 1],
        2 => vec![0u8; SHARE_SIZE - 1],
        3 => vec![0u8; SHARE_SIZE + 1],
        4 => vec![0u8; 64],
        5 => vec![0u8; 1024],
        6 => vec![0xffu8; SHARE_SIZE], // parity namespace / unknown share version
        7 => {
            // valid size, invalid namespace version
            let mut s = vec![0u8; SHARE_SIZE];
            s[0] = 1;
            s
        }
        _ => {
            // valid share of the expected namespace, other content
            let mut s = vec![0x5au8; SHARE_SIZE];
            s[..NS_SIZE].copy_from_slice(ns.as_bytes());
            s[NS_SIZE] = 0;
            s
        }
    }
}

const ENUM_EXTREMES: &[i32] = &[0, 1, 2, 3, -1, i32::MAX, i32::MIN, 255];

// ------------------------------------------------------------------------------------ the world

pub(super) async fn run_decoders(ctx: &Arc<RunCtx>) {
    let widths: &[u16] = if ctx.tier == Tier::Thorough { &[4, 8, 2, 16, 32] } else { &[4, 8, 2, 16] };
    let class = ctx.range("sq.class", 0, 3);
    let width = *ctx.pick("sq.width", widths);
    let sq = Square::cached(class, width);
    let env = Env { ctx, sq, store: tokio::sync::OnceCell::new(), response_reads: std::cell::Cell::new(0) };
    let n_ops = ctx.range("ops", 1, 6);
    for _ in 0..n_ops {
        ctx.begin_span("op");
        // 0 = extended header (simplest input)
        match ctx.weighted("target", &[3, 2, 1, 6, 5, 5, 3, 2, 2, 4, 1]) {
            0 => env.ext_header().await,
            1 => env.hx_request().await,
            2 => env.hx_response().await,
            3 => env.sample().await,
            4 => env.row().await,
            5 => env.row_namespace_data().await,
            6 => env.eds().await,
            7 => env.status().await,
            8 => env.notification().await,
            9 => env.befp().await,
            _ => env.block_container().await,
        }
        ctx.end_span();
        if stop(ctx) {
            break;
        }
    }
}

struct Env<'a> {
    ctx: &'a Arc<RunCtx>,
    sq: Arc<Square>,
    store: tokio::sync::OnceCell<Arc<InMemoryStore>>,
    response_reads: std::cell::Cell<u32>,
}

include!("wire_decoders_targets.rs");
