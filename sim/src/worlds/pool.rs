//! W-POOL: the real shrex `PoolTracker` (through `lumina_node::verif::shrex::Pools`) over an
//! `InMemoryStore`, under random interleavings of ShrEx/Sub notifications (right hash, another
//! height's hash, junk hash, repeats from the same peer), header arrivals in the store (adjacent,
//! with gaps, gap fills), virtual time around the 120 s validation timeout, `remove_peer`, and
//! polling (full drains and single polls) at chooser-chosen points. <= 6 peers, notifications for
//! <= 20 heights, pairwise distinct data hashes.
//!
//! Decides C40:
//!  * `offered_only_announcers` — `get_pool(h)` = Ok(peers) only when header `h` is stored, and
//!    every offered peer announced exactly that header's data hash for `h` and has not been
//!    reported in a `BlockPeers` event;
//!  * `bad_announcers_blocked` — a peer whose accepted announcement carried another hash for a
//!    height that is (or becomes, while the vote stands) validated, or who announced twice for a
//!    height that was still unvalidated, is reported in `BlockPeers` by the time the tracker has
//!    been polled until pending;
//!  * `old_pools_dropped` — no pool answers for a height more than ten below the newest validated
//!    height;
//!  * `no_panic` — no tracker call panics.
//!
//! What counts as an *accepted* announcement is read off the tracker itself (is there a pool for
//! the height right after the call?): the tracker documents that it ignores announcements before
//! it knows its subjective head and for heights at or below head - 10, and the statement does
//! not speak about those. Votes die with `remove_peer`, with a `BlockPeers` report and with the
//! candidate pool (eviction, validation timeout); the model follows by looking at `get_pool` of
//! every height after every operation.

use std::collections::{BTreeMap, BTreeSet};
use std::panic::{AssertUnwindSafe, catch_unwind};
use std::sync::{Arc, Mutex, OnceLock};
use std::task::Poll;
use std::time::Duration;

use celestia_types::hash::Hash;
use celestia_types::nmt::{Namespace, NamespacedHash, NamespacedHashExt};
use celestia_types::{DataAvailabilityHeader, ExtendedHeader};
use libp2p::PeerId;
use lumina_node::store::{InMemoryStore, Store};
use lumina_node::verif::shrex::{PoolEvent, Pools};

use crate::kernel::ctx::{RunCtx, Tier, WALL_BASE_SECS, time_from_ns};
use crate::kernel::rng::Xoshiro;
use crate::kernel::runner::{World, WorldFut, is_harness_location};
use crate::seams::chain::{HeaderSpec, KeyedSet, build_header, off_thread};
use crate::worlds::fixed_peer_id;

pub struct PoolWorld;

impl World for PoolWorld {
    fn name(&self) -> &'static str {
        "pool.tracker"
    }
    fn run<'a>(&'a self, ctx: &'a Arc<RunCtx>) -> WorldFut<'a> {
        Box::pin(run_pool(ctx))
    }
    fn vtime_cap(&self) -> Duration {
        Duration::from_secs(3600 * 24)
    }
}

const MAX_PEERS: usize = 6;
const NOTIFY_HEIGHTS: u64 = 20;
const CHAIN_LEN: u64 = 36;
const WINDOW: u64 = 10;

// ------------------------------------------------------------------------------------ fixture

/// A linked, signed chain whose headers carry pairwise distinct (random, unvalidated) DAHs. The
/// tracker and the store's neighbour verification read nothing of a DAH but its hash.
struct PoolChain {
    headers: Vec<ExtendedHeader>,
}

fn random_dah(rng: &mut Xoshiro) -> DataAvailabilityHeader {
    let mut root = || {
        let mut raw = Vec::with_capacity(90);
        raw.extend_from_slice(Namespace::PARITY_SHARE.as_bytes());
        raw.extend_from_slice(Namespace::PARITY_SHARE.as_bytes());
        let mut digest = [0u8; 32];
        rng.fill(&mut digest);
        raw.extend_from_slice(&digest);
        NamespacedHash::from_raw(&raw).expect("29 + 29 + 32 bytes")
    };
    let rows = vec![root(), root()];
    let cols = vec![root(), root()];
    DataAvailabilityHeader::new_unchecked(rows, cols)
}

fn pool_chain() -> Arc<PoolChain> {
    static CHAIN: OnceLock<Arc<PoolChain>> = OnceLock::new();
    if let Some(c) = CHAIN.get() {
        return c.clone();
    }
    // pure function of constants, computed off the simulation thread (see `off_thread`)
    let c = off_thread(|| {
        let mut rng = Xoshiro::new(0xC40_C4A1);
        let chain_id: tendermint::chain::Id = "private".try_into().expect("chain id");
        let set = KeyedSet::generate(&mut rng, 1, 1000);
        let base_ns = (WALL_BASE_SECS - 3600) * 1_000_000_000;
        let mut headers: Vec<ExtendedHeader> = Vec::new();
        for h in 1..=CHAIN_LEN {
            let dah = random_dah(&mut rng);
            let hdr = build_header(&mut rng, HeaderSpec {
                chain_id: &chain_id,
                height: h,
                time: time_from_ns(base_ns + h as i64 * 6_000_000_000),
                prev: headers.last(),
                set: &set,
                next_set: &set,
                dah,
                app_version: 3,
                votes: None,
            });
            headers.push(hdr);
        }
        let mut seen = BTreeSet::new();
        for h in &headers {
            let dh = h.header.data_hash.expect("build_header sets the data hash");
            assert!(seen.insert(dh.as_bytes().to_vec()), "data hashes must be pairwise distinct");
        }
        Arc::new(PoolChain { headers })
    });
    CHAIN.get_or_init(|| c).clone()
}

/// Build the fixture chain ahead of any run (called from the driver's main thread).
pub fn warm() {
    let _ = pool_chain();
}

// ------------------------------------------------------------------------------------ model

#[derive(Clone, Copy, Debug, PartialEq, Eq)]
enum Obs {
    Validated,
    Candidates,
    TooOld,
    NotTracked,
    Panicked,
}

#[derive(Clone, Debug, PartialEq, Eq)]
enum ModelPool {
    None,
    /// standing votes of the current candidate pool: peer index -> announced the right hash?
    Candidates(BTreeMap<usize, bool>),
    Validated,
}

struct W<'a> {
    ctx: &'a Arc<RunCtx>,
    chain: Arc<PoolChain>,
    ids: Vec<PeerId>,
    pools: Pools<InMemoryStore>,
    stored: BTreeSet<u64>,
    model: BTreeMap<u64, ModelPool>,
    /// (height, peer) pairs: the peer at some time sent an announcement for `height` carrying
    /// the data hash of the chain's header at `height` (whether or not the tracker accepted it)
    announced_right: BTreeSet<(u64, usize)>,
    /// peers reported in a `BlockPeers` event (the swarm blacklists them: they stay silent)
    blocked: BTreeSet<usize>,
    /// peers that owe a `BlockPeers` report, with the reason
    must_block: BTreeMap<usize, String>,
    newest_validated: u64,
    panicked: bool,
    head_tasks_done: u64,
}

impl W<'_> {
    fn right_hash(&self, h: u64) -> Hash {
        self.chain.headers[(h - 1) as usize].header.data_hash.expect("fixture header has a data hash")
    }

    fn peer_idx(&self, id: &PeerId) -> Option<usize> {
        self.ids.iter().position(|p| p == id)
    }

    fn repo_panic(&mut self, what: &str) {
        self.panicked = true;
        let p = self.ctx.panics.lock().unwrap().last().cloned();
        if p.as_ref().is_some_and(|p| !is_harness_location(&p.location)) {
            self.ctx.oracle("C40.no_panic");
            self.ctx.violation("C40", "no_panic", "tracker",
                format!("{what} panicked: {}", p.map(|p| format!("{} at {}", p.message, p.location)).unwrap_or_default()));
        }
    }

    fn get_pool(&mut self, h: u64) -> (Obs, Vec<PeerId>) {
        match catch_unwind(AssertUnwindSafe(|| self.pools.get_pool(h))) {
            Ok(Ok(peers)) => (Obs::Validated, peers),
            // the wrapper only exposes the error text of `GetPoolError`
            Ok(Err(e)) if e.contains("aren't validated yet") => (Obs::Candidates, vec![]),
            Ok(Err(e)) if e.contains("old and was likely already pruned") => (Obs::TooOld, vec![]),
            Ok(Err(_)) => (Obs::NotTracked, vec![]),
            Err(_) => {
                self.repo_panic(&format!("get_pool({h})"));
                (Obs::Panicked, vec![])
            }
        }
    }

    fn on_event(&mut self, ev: PoolEvent) {
        let ctx = self.ctx;
        match ev {
            PoolEvent::BlockPeers(ps) => {
                for p in ps {
                    let Some(i) = self.peer_idx(&p) else { continue };
                    ctx.ev("ev.block", i as u64, 0);
                    self.blocked.insert(i);
                    if self.must_block.remove(&i).is_some() {
                        ctx.probe("bad_announcer_reported_blocked");
                    }
                    // the tracker forgets a reported peer everywhere
                    for pool in self.model.values_mut() {
                        if let ModelPool::Candidates(votes) = pool {
                            votes.remove(&i);
                        }
                    }
                }
            }
            PoolEvent::AddPeers(ps) => {
                for p in ps {
                    if let Some(i) = self.peer_idx(&p) {
                        ctx.ev("ev.add", i as u64, 0);
                    }
                }
            }
            PoolEvent::SchedulePendingRequests => ctx.ev("ev.schedule", 0, 0),
        }
    }

    /// One `poll` call. None = Pending.
    async fn poll_once(&mut self) -> Option<Option<PoolEvent>> {
        let pools = &mut self.pools;
        let r = std::future::poll_fn(|cx| Poll::Ready(catch_unwind(AssertUnwindSafe(|| pools.poll(cx))))).await;
        match r {
            Ok(Poll::Pending) => None,
            Ok(Poll::Ready(None)) => {
                self.head_tasks_done += 1;
                self.ctx.ev("poll.header", 0, 0);
                Some(None)
            }
            Ok(Poll::Ready(Some(ev))) => Some(Some(ev)),
            Err(_) => {
                self.repo_panic("poll");
                None
            }
        }
    }

    /// Poll until pending. Returns true if pending was reached.
    async fn drain(&mut self) -> bool {
        for _ in 0..10_000 {
            match self.poll_once().await {
                None => return !self.panicked,
                Some(Some(ev)) => self.on_event(ev),
                Some(None) => {}
            }
        }
        false
    }

    /// Look at every height, move the model along, evaluate the state clauses.
    fn observe(&mut self, after: &str) {
        let ctx = self.ctx;
        for h in 1..=CHAIN_LEN {
            if self.panicked {
                return;
            }
            let (obs, offered) = self.get_pool(h);
            let prev = self.model.get(&h).cloned().unwrap_or(ModelPool::None);
            let next = match (prev, obs) {
                (_, Obs::Panicked) => return,
                (ModelPool::Candidates(votes), Obs::Validated) => {
                    ctx.probe("pool_validated");
                    for (p, right) in &votes {
                        if !*right {
                            self.must_block.entry(*p).or_insert_with(|| format!("announced another hash for height {h}, which was then validated"));
                        }
                    }
                    ModelPool::Validated
                }
                (_, Obs::Validated) => ModelPool::Validated,
                (ModelPool::Candidates(votes), Obs::Candidates) => ModelPool::Candidates(votes),
                (_, Obs::Candidates) => ModelPool::Candidates(BTreeMap::new()),
                (ModelPool::Candidates(_), _) => {
                    // eviction or validation timeout: the votes are gone with the pool
                    ctx.probe("candidate_pool_dropped");
                    ModelPool::None
                }
                (ModelPool::Validated, _) => {
                    ctx.probe("validated_pool_evicted");
                    ModelPool::None
                }
                (ModelPool::None, _) => ModelPool::None,
            };
            self.model.insert(h, next);

            if obs == Obs::Validated {
                self.newest_validated = self.newest_validated.max(h);
                ctx.oracle("C40.offered_only_announcers");
                if !self.stored.contains(&h) {
                    ctx.violation("C40", "offered_only_announcers", "no_stored_header",
                        format!("after {after}: get_pool({h}) offers {} peers but no header is stored at height {h}", offered.len()));
                }
                let distinct: BTreeSet<&PeerId> = offered.iter().collect();
                if distinct.len() != offered.len() {
                    // see "right_hash_repeated_after_validation" below: not judged
                    ctx.probe("peer_listed_twice_in_pool");
                }
                for id in &offered {
                    let Some(i) = self.peer_idx(id) else {
                        ctx.violation("C40", "offered_only_announcers", "unknown_peer",
                            format!("after {after}: get_pool({h}) offers a peer that never announced anything"));
                        continue;
                    };
                    ctx.probe("peer_offered");
                    if !self.announced_right.contains(&(h, i)) {
                        ctx.violation("C40", "offered_only_announcers", "never_announced_right_hash",
                            format!("after {after}: get_pool({h}) offers peer {i}, which never announced the stored header's data hash for height {h}"));
                    }
                    if self.blocked.contains(&i) {
                        ctx.violation("C40", "offered_only_announcers", "offered_after_block",
                            format!("after {after}: get_pool({h}) offers peer {i}, which was reported in a BlockPeers event"));
                    }
                }
            }
        }
        // ---- pools more than ten below the newest validated height are gone
        for g in 1..=CHAIN_LEN {
            if g + WINDOW >= self.newest_validated {
                break;
            }
            ctx.oracle("C40.old_pools_dropped");
            if self.model.get(&g).is_some_and(|m| *m != ModelPool::None) {
                ctx.violation("C40", "old_pools_dropped", "still_answering",
                    format!("after {after}: height {} was validated but get_pool({g}) still answers with {:?}", self.newest_validated, self.model.get(&g)));
            } else {
                ctx.probe("old_height_has_no_pool");
            }
        }
    }

    /// After a full drain every owed report must have arrived.
    fn check_obligations(&mut self, after: &str) {
        self.ctx.oracle("C40.bad_announcers_blocked");
        if let Some((p, why)) = self.must_block.iter().next() {
            let key = if why.contains("twice") { "double_announcer" } else { "wrong_hash_announcer" };
            self.ctx.violation("C40", "bad_announcers_blocked", key,
                format!("after {after} (polled until pending): peer {p} {why} but was never reported in BlockPeers"));
        }
    }
}

// ------------------------------------------------------------------------------------ the run

async fn run_pool(ctx: &Arc<RunCtx>) {
    let thorough = ctx.tier == Tier::Thorough;
    let chain = pool_chain();
    let n_peers = ctx.range("cfg.peers", 1, MAX_PEERS as u64) as usize;
    let n_ops = ctx.range("cfg.ops", 1, if thorough { 160 } else { 60 });
    // announcements go to heights base+1 ..= base+20
    let base = ctx.range("cfg.base", 0, CHAIN_LEN - NOTIFY_HEIGHTS - 4);
    // 0 = empty store (the tracker waits for the first head)
    let prefill = ctx.range("cfg.prefill", 0, base + 3);
    let store = Arc::new(InMemoryStore::new());
    let mut stored = BTreeSet::new();
    for h in 1..=prefill {
        if store.insert(chain.headers[(h - 1) as usize].clone()).await.is_ok() {
            stored.insert(h);
        }
    }
    ctx.ev("setup", base, prefill);
    let mut junk_rng = ctx.fixture_rng(40);
    let pools = match catch_unwind(AssertUnwindSafe(|| Pools::new(store.clone()))) {
        Ok(p) => p,
        Err(_) => {
            ctx.violation("C40", "no_panic", "tracker", "Pools::new panicked".to_string());
            return;
        }
    };
    let mut w = W {
        ctx,
        chain: chain.clone(),
        ids: (0..n_peers).map(|i| fixed_peer_id(100 + i as u64)).collect(),
        pools,
        stored,
        model: BTreeMap::new(),
        announced_right: BTreeSet::new(),
        blocked: BTreeSet::new(),
        must_block: BTreeMap::new(),
        newest_validated: 0,
        panicked: false,
        head_tasks_done: 0,
    };
    let last_notify: Mutex<Option<(usize, u64)>> = Mutex::new(None);
    // usually the behaviour has polled the tracker before the first announcement arrives
    if ctx.coin("cfg.polled_at_start", 800) {
        ctx.ev("poll.drain", 0, 0);
        w.drain().await;
        w.observe("the first poll");
    }

    for _ in 0..n_ops {
        if w.panicked || !ctx.findings.lock().unwrap().is_empty() {
            break;
        }
        ctx.begin_span("op");
        // 0 poll, 1 notify, 2 header arrives, 3 time passes, 4 remove_peer
        let kind = ctx.weighted("op.kind", &[5, 9, 5, 2, 1]);
        let label: String;
        match kind {
            0 => {
                if ctx.coin("poll.partial", 250) {
                    let k = ctx.range("poll.calls", 1, 4);
                    label = format!("{k} single polls");
                    ctx.ev("poll.partial", k, 0);
                    for _ in 0..k {
                        match w.poll_once().await {
                            None => break,
                            Some(Some(ev)) => w.on_event(ev),
                            Some(None) => {}
                        }
                    }
                    w.observe(&label);
                } else {
                    label = "poll until pending".to_string();
                    ctx.ev("poll.drain", 0, 0);
                    let quiescent = w.drain().await;
                    w.observe(&label);
                    if quiescent {
                        w.check_obligations(&label);
                    }
                }
            }
            1 => {
                let silent: Vec<usize> = (0..n_peers).filter(|i| !w.blocked.contains(i)).collect();
                if silent.is_empty() {
                    // nobody is left to announce anything
                    ctx.probe("every_peer_blocked");
                    ctx.end_span();
                    break;
                }
                let repeat = *last_notify.lock().unwrap();
                let (p, h) = match repeat {
                    // the same peer again for the same height
                    Some((p, h)) if !w.blocked.contains(&p) && ctx.coin("notify.repeat", 200) => (p, h),
                    _ => {
                        let p = silent[ctx.choose("notify.peer", silent.len() as u32) as usize];
                        let head = w.stored.iter().next_back().copied().unwrap_or(0);
                        // 0 around the store head, 1 anywhere in the window of 20
                        let h = if ctx.choose("notify.height_class", 2) == 0 {
                            (head + ctx.range("notify.ahead", 0, 3)).clamp(base + 1, base + NOTIFY_HEIGHTS)
                        } else {
                            base + ctx.range("notify.height", 1, NOTIFY_HEIGHTS)
                        };
                        (p, h)
                    }
                };
                // 0 right hash, 1 the hash of another height, 2 junk
                let hash_kind = ctx.weighted("notify.hash", &[7, 2, 1]);
                let hash = match hash_kind {
                    0 => w.right_hash(h),
                    1 => {
                        let mut other = base + ctx.range("notify.other_height", 1, NOTIFY_HEIGHTS);
                        if other == h {
                            other = if h < CHAIN_LEN { h + 1 } else { h - 1 };
                        }
                        w.right_hash(other)
                    }
                    _ => {
                        let mut b = [0u8; 32];
                        junk_rng.fill(&mut b);
                        b[0] |= 1;
                        Hash::Sha256(b)
                    }
                };
                let right = hash == w.right_hash(h);
                *last_notify.lock().unwrap() = Some((p, h));
                label = format!("announcement(peer {p}, height {h}, {} hash)", if right { "right" } else { "other" });
                ctx.ev("notify", p as u64, h);
                ctx.ev("notify.hash_kind", hash_kind as u64, 0);
                if !right {
                    ctx.fault("wrong_hash_announced");
                }
                let (pre, pre_offered) = w.get_pool(h);
                let id = w.ids[p];
                if catch_unwind(AssertUnwindSafe(|| w.pools.add_peer_for_hash(id, hash, h))).is_err() {
                    w.repo_panic(&label);
                }
                let (post, _) = w.get_pool(h);
                if right {
                    w.announced_right.insert((h, p));
                }
                let accepted = matches!(post, Obs::Validated | Obs::Candidates);
                if !accepted {
                    // documented: ignored before the subjective head is known and for stale heights
                    ctx.probe(if w.head_tasks_done == 0 { "announcement_ignored_head_unknown" } else { "announcement_ignored_stale_height" });
                } else {
                    match (pre, w.model.get(&h).cloned().unwrap_or(ModelPool::None)) {
                        (Obs::Validated, _) => {
                            if !right {
                                w.must_block.entry(p).or_insert_with(|| format!("announced another hash for the validated height {h}"));
                            } else if pre_offered.contains(&id) {
                                // Narrow reading of "announced twice": the tracker keeps no
                                // record of who announced once a height is validated (and
                                // gossipsub would not deliver the identical message twice), so a
                                // repeat of the right hash for a validated height is only counted.
                                ctx.probe("right_hash_repeated_after_validation");
                            }
                        }
                        (Obs::Candidates, ModelPool::Candidates(mut votes)) => {
                            if votes.contains_key(&p) {
                                ctx.fault("announced_twice");
                                w.must_block.entry(p).or_insert_with(|| format!("announced twice for the unvalidated height {h}"));
                            } else {
                                votes.insert(p, right);
                            }
                            w.model.insert(h, ModelPool::Candidates(votes));
                        }
                        _ => {
                            // a new candidate pool
                            ctx.probe("candidate_pool_created");
                            w.model.insert(h, ModelPool::Candidates(BTreeMap::from([(p, right)])));
                        }
                    }
                }
                w.observe(&label);
            }
            2 => {
                let head = w.stored.iter().next_back().copied().unwrap_or(0);
                // 0 next above the head, 1 above the head with a gap, 2 a missing height next to a
                // stored one (the store admits nothing else)
                let target = match ctx.weighted("header.class", &[6, 2, 2]) {
                    0 => head + 1,
                    1 => head + 1 + ctx.range("header.gap", 1, 12),
                    _ => {
                        let fillable: Vec<u64> = (1..head)
                            .filter(|g| !w.stored.contains(g) && (w.stored.contains(&(g + 1)) || (*g > 1 && w.stored.contains(&(g - 1)))))
                            .collect();
                        if fillable.is_empty() { head + 1 } else { fillable[ctx.choose("header.fill", fillable.len() as u32) as usize] }
                    }
                };
                if target > CHAIN_LEN {
                    ctx.end_span();
                    continue;
                }
                label = format!("header {target} stored");
                ctx.ev("header", target, 0);
                match store.insert(chain.headers[(target - 1) as usize].clone()).await {
                    Ok(()) => {
                        w.stored.insert(target);
                    }
                    Err(e) => ctx.note("store_insert_rejected", format!("{target}: {e}")),
                }
                w.observe(&label);
            }
            3 => {
                // short, just below / just above the 120 s validation timeout, long
                let ms = match ctx.weighted("time.class", &[5, 2, 2, 1]) {
                    0 => ctx.range("time.ms", 0, 5_000),
                    1 => ctx.range("time.ms", 100_000, 119_000),
                    2 => ctx.range("time.ms", 121_000, 130_000),
                    _ => ctx.range("time.ms", 30_000, 400_000),
                };
                label = format!("{ms} ms pass");
                ctx.ev("sleep", ms, 0);
                tokio::time::sleep(Duration::from_millis(ms)).await;
                w.observe(&label);
            }
            _ => {
                let p = ctx.choose("remove.peer", n_peers as u32) as usize;
                label = format!("remove_peer({p})");
                ctx.ev("remove_peer", p as u64, 0);
                let id = w.ids[p];
                if catch_unwind(AssertUnwindSafe(|| w.pools.remove_peer(&id))).is_err() {
                    w.repo_panic(&label);
                }
                for pool in w.model.values_mut() {
                    if let ModelPool::Candidates(votes) = pool {
                        votes.remove(&p);
                    }
                }
                w.observe(&label);
            }
        }
        ctx.end_span();
    }

    if !w.panicked && ctx.findings.lock().unwrap().is_empty() {
        ctx.ev("final.drain", 0, 0);
        let quiescent = w.drain().await;
        w.observe("the final poll until pending");
        if quiescent {
            w.check_obligations("the final poll until pending");
        }
    }
}
