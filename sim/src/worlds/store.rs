//! W-STORE: `InMemoryStore` and `RedbStore` (on SimDisk) against the abstract store model.
//!
//! Modes:
//!  * `Model`   — fault-free differential histories, safe constructors only (C18, C19, C20, C21)
//!  * `Unsafe`  — adds duplicate-hash batches through `new_unchecked` (C20's last error kind)
//!  * `Crash`   — RedbStore on SimDisk with power loss / I/O errors at any backend call (C22)
//!  * `CrashEnum` — every crash point of a short history (C22 thorough, fault enumeration)
//!  * `Migrate` — v1/v2/v4/v5 databases, crash inside the migration (C23)

use std::collections::BTreeSet;
use std::sync::Arc;

use celestia_types::ExtendedHeader;
use celestia_types::hash::Hash;
use cid::Cid;
use lumina_node::store::{
    BlockRanges, InMemoryStore, RedbStore, Store, StoreError, VerifiedExtendedHeaders,
};
use redb::{Database, TableDefinition};

use crate::kernel::ctx::{RunCtx, Tier};
use crate::kernel::rng::Xoshiro;
use crate::kernel::runner::{World, WorldFut};
use crate::seams::chain::{Chain, ChainParams};
use crate::seams::disk::{IoFault, SimDisk};
use crate::seams::store_model::{
    Kind, Model, admission, kind_of, kind_of_res, linked, ranges_to_set, ranges_well_formed,
};

#[derive(Clone, Copy, Debug, PartialEq, Eq)]
pub enum Mode {
    Model,
    Unsafe,
    Crash,
    CrashEnum,
    Migrate,
}

pub struct StoreWorld {
    pub mode: Mode,
}

impl World for StoreWorld {
    fn name(&self) -> &'static str {
        match self.mode {
            Mode::Model => "store.model",
            Mode::Unsafe => "store.unsafe",
            Mode::Crash => "store.crash",
            Mode::CrashEnum => "store.crash_enum",
            Mode::Migrate => "store.migrate",
        }
    }

    fn run<'a>(&'a self, ctx: &'a Arc<RunCtx>) -> WorldFut<'a> {
        Box::pin(async move {
            match self.mode {
                Mode::Model => run_model(ctx, false).await,
                Mode::Unsafe => run_model(ctx, true).await,
                Mode::Crash => run_crash(ctx).await,
                Mode::CrashEnum => run_crash_enum(ctx).await,
                Mode::Migrate => run_migrate(ctx).await,
            }
        })
    }
}

// ------------------------------------------------------------------------------------ ops

#[derive(Clone, Debug)]
pub enum Op {
    /// insert through the verifying constructor (Vec<ExtendedHeader>)
    Insert(Vec<ExtendedHeader>),
    /// insert a single header through `From<ExtendedHeader>`
    InsertOne(ExtendedHeader),
    /// insert through `new_unchecked`
    InsertUnchecked(Vec<ExtendedHeader>),
    Remove(u64),
    MarkSampled(u64),
    UpdateMeta(u64, Vec<Cid>),
}

impl Op {
    pub fn describe(&self) -> String {
        let span = |b: &Vec<ExtendedHeader>| {
            if b.is_empty() {
                "[]".to_string()
            } else {
                format!(
                    "[{}..={}]#{}",
                    b.first().unwrap().height(),
                    b.last().unwrap().height(),
                    b.len()
                )
            }
        };
        match self {
            Op::Insert(b) => format!("insert{}", span(b)),
            Op::InsertOne(h) => format!("insert_one[{}]", h.height()),
            Op::InsertUnchecked(b) => format!("insert_unchecked{}", span(b)),
            Op::Remove(h) => format!("remove_height({h})"),
            Op::MarkSampled(h) => format!("mark_as_sampled({h})"),
            Op::UpdateMeta(h, c) => format!("update_sampling_metadata({h}, {} cids)", c.len()),
        }
    }
}

fn make_cid(n: u64) -> Cid {
    // a syntactically valid CIDv1 (raw codec, identity-ish sha2 code with fake digest)
    let mut digest = [0u8; 32];
    digest[..8].copy_from_slice(&n.to_le_bytes());
    let mh = multihash::Multihash::<64>::wrap(0x12, &digest).unwrap();
    Cid::new_v1(0x55, mh)
}

pub struct Gen<'a> {
    pub ctx: &'a Arc<RunCtx>,
    pub chain: Arc<Chain>,
    pub forks: Vec<Vec<ExtendedHeader>>, // each fork: consecutive headers
    pub frng: Xoshiro,
    pub allow_unsafe: bool,
}

impl<'a> Gen<'a> {
    pub fn new(ctx: &'a Arc<RunCtx>, allow_unsafe: bool, max_len: u64) -> Self {
        let len = ctx.range("chain.len", 6, max_len);
        let chain = Chain::cached(ChainParams {
            class: ctx.range("chain.class", 0, 7),
            len,
            validators: 1,
            block_time_ms: 6000,
            head_offset_ms: -3_600_000,
        });
        Gen {
            ctx,
            chain,
            forks: Vec::new(),
            frng: ctx.fixture_rng(1),
            allow_unsafe,
        }
    }

    fn honest(&self, lo: u64, hi: u64) -> Vec<ExtendedHeader> {
        (lo..=hi).map(|h| self.chain.get(h).clone()).collect()
    }

    /// pick a placement [lo, hi] biased towards admissible ones
    fn placement(&self, m: &Model) -> (u64, u64) {
        let n = self.chain.len();
        let ctx = self.ctx;
        let stored = m.stored();
        let max_len = ctx.range("ins.maxlen", 1, 12);
        let style = ctx.weighted("ins.style", &[3, 3, 3, 2, 2]);
        let head = m.head().unwrap_or(0);
        let clamp = |lo: u64, hi: u64| (lo.clamp(1, n), hi.clamp(1, n));
        match style {
            // directly above head (or anywhere if empty)
            0 => {
                let lo = if head == 0 { ctx.range("ins.lo", 1, n) } else { head + 1 };
                if lo > n {
                    return self.random_range();
                }
                clamp(lo, lo + ctx.range("ins.len", 0, max_len - 1))
            }
            // above head with a gap
            1 => {
                let lo = head + 1 + ctx.range("ins.gap", 1, 10);
                if lo > n {
                    return self.random_range();
                }
                clamp(lo, lo + ctx.range("ins.len", 0, max_len - 1))
            }
            // just below some stored range (growing backwards) or filling a gap exactly
            2 | 3 => {
                // collect gaps below head
                let mut gaps: Vec<(u64, u64)> = Vec::new();
                let mut prev = 0u64;
                for h in stored.iter() {
                    if *h > prev + 1 {
                        gaps.push((prev + 1, *h - 1));
                    }
                    prev = *h;
                }
                if gaps.is_empty() {
                    return self.random_range();
                }
                let (glo, ghi) = gaps[ctx.choose("ins.gapidx", gaps.len() as u32) as usize];
                if style == 3 {
                    // exact fill, or the part adjacent to the lower neighbour
                    if ctx.coin("ins.exact", 500) {
                        (glo, ghi)
                    } else {
                        (glo, (glo + ctx.range("ins.len", 0, max_len - 1)).min(ghi))
                    }
                } else {
                    let len = ctx.range("ins.len", 0, max_len - 1);
                    (ghi.saturating_sub(len).max(glo), ghi)
                }
            }
            _ => self.random_range(),
        }
    }

    fn random_range(&self) -> (u64, u64) {
        let n = self.chain.len();
        let lo = self.ctx.range("rnd.lo", 1, n);
        let hi = (lo + self.ctx.range("rnd.len", 0, 8)).min(n);
        (lo, hi)
    }

    pub fn next_op(&mut self, m: &Model) -> Op {
        let ctx = self.ctx;
        let n = self.chain.len();
        let w_unsafe = if self.allow_unsafe { 3 } else { 0 };
        // 0 honest insert, 1 fork insert, 2 broken batch, 3 single, 4 empty, 5 remove,
        // 6 mark sampled, 7 update meta, 8 unsafe dup-hash
        let k = ctx.weighted("op.kind", &[8, 3, 2, 2, 1, 4, 3, 3, w_unsafe]);
        match k {
            0 => {
                let (lo, hi) = self.placement(m);
                Op::Insert(self.honest(lo, hi))
            }
            1 => {
                // a fork of the honest chain
                let (lo, hi) = self.placement(m);
                let f = self.chain.fork(&mut self.frng, lo, hi);
                self.forks.push(f.clone());
                ctx.probe("fork_batch_generated");
                Op::Insert(f)
            }
            2 => {
                // internally broken batch: one element replaced by a fork header, a skipped
                // height, or reversed order
                let (lo, hi) = self.placement(m);
                let mut b = self.honest(lo, hi);
                if b.len() < 2 {
                    let hi2 = (lo + 2).min(n);
                    b = self.honest(lo, hi2);
                }
                if b.len() >= 2 {
                    let pos = 1 + ctx.choose("broken.pos", (b.len() - 1) as u32) as usize;
                    match ctx.choose("broken.kind", 3) {
                        0 => {
                            let h = b[pos].height();
                            let f = self.chain.fork(&mut self.frng, h, h);
                            // fork(h,h) links to honest h-1, so replace from `pos` onward only
                            // when the next element exists to make the break internal
                            if pos + 1 < b.len() {
                                b[pos] = f[0].clone();
                            } else {
                                // make the fork header not link to its predecessor: use a fork
                                // grown from further below
                                let lo2 = h.saturating_sub(1).max(1);
                                let f2 = self.chain.fork(&mut self.frng, lo2, h);
                                b[pos] = f2.last().unwrap().clone();
                            }
                        }
                        1 => {
                            b.remove(pos);
                            if b.len() < 2 || pos >= b.len() {
                                b.reverse();
                            }
                        }
                        _ => b.reverse(),
                    }
                }
                ctx.probe("broken_batch_generated");
                Op::Insert(b)
            }
            3 => {
                let (lo, _) = self.placement(m);
                if ctx.coin("one.fork", 250) {
                    let f = self.chain.fork(&mut self.frng, lo, lo);
                    self.forks.push(f.clone());
                    Op::InsertOne(f[0].clone())
                } else {
                    Op::InsertOne(self.chain.get(lo).clone())
                }
            }
            4 => Op::Insert(vec![]),
            5 => {
                let h = self.pick_height(m, "rm");
                Op::Remove(h)
            }
            6 => Op::MarkSampled(self.pick_height(m, "ms")),
            7 => {
                let h = self.pick_height(m, "um");
                let k = ctx.range("um.n", 0, 4);
                let cids = (0..k)
                    .map(|_| make_cid(h * 100 + ctx.range("um.cid", 0, 5)))
                    .collect();
                Op::UpdateMeta(h, cids)
            }
            _ => {
                // duplicate hash: a consecutive honest batch in which header `pos` claims the
                // block hash of an earlier batch element or of a stored header
                let (lo, hi) = self.placement(m);
                let mut b = self.honest(lo, hi.max(lo + 1).min(n));
                if b.len() >= 2 {
                    let pos = 1 + ctx.choose("dup.pos", (b.len() - 1) as u32) as usize;
                    let src_hash = if !m.headers.is_empty() && ctx.coin("dup.stored", 500) {
                        let keys: Vec<u64> = m.headers.keys().copied().collect();
                        let k = keys[ctx.choose("dup.idx", keys.len() as u32) as usize];
                        m.headers[&k].hash()
                    } else {
                        let j = ctx.choose("dup.j", pos as u32) as usize;
                        b[j].hash()
                    };
                    b[pos].commit.block_id.hash = src_hash;
                    ctx.probe("dup_hash_batch_generated");
                }
                Op::InsertUnchecked(b)
            }
        }
    }

    fn pick_height(&self, m: &Model, _t: &'static str) -> u64 {
        let ctx = self.ctx;
        let n = self.chain.len();
        if !m.headers.is_empty() && ctx.coin("h.stored", 800) {
            let keys: Vec<u64> = m.headers.keys().copied().collect();
            // bias to range edges and head
            match ctx.choose("h.which", 4) {
                0 => keys[ctx.choose("h.idx", keys.len() as u32) as usize],
                1 => *keys.last().unwrap(),
                2 => *keys.first().unwrap(),
                _ => {
                    // an edge of some range
                    let edges: Vec<u64> = keys
                        .iter()
                        .copied()
                        .filter(|h| !m.headers.contains_key(&(h + 1)) || !m.headers.contains_key(&(h.wrapping_sub(1))))
                        .collect();
                    edges[ctx.choose("h.edge", edges.len() as u32) as usize]
                }
            }
        } else {
            ctx.range("h.any", 0, n + 1)
        }
    }

    /// All hashes the history may have touched (for by-hash queries).
    pub fn known_hashes(&self) -> Vec<Hash> {
        let mut v: Vec<Hash> = self.chain.headers.iter().map(|h| h.hash()).collect();
        for f in &self.forks {
            v.extend(f.iter().map(|h| h.hash()));
        }
        v
    }
}

// ------------------------------------------------------------------------------------ applying ops

pub async fn apply_to_store<S: Store>(s: &S, op: &Op) -> Result<(), StoreError> {
    match op {
        Op::Insert(b) => s.insert(b.clone()).await,
        Op::InsertOne(h) => s.insert(h.clone()).await,
        Op::InsertUnchecked(b) => {
            let v = unsafe { VerifiedExtendedHeaders::new_unchecked(b.clone()) };
            s.insert(v).await
        }
        Op::Remove(h) => s.remove_height(*h).await,
        Op::MarkSampled(h) => s.mark_as_sampled(*h).await,
        Op::UpdateMeta(h, c) => s.update_sampling_metadata(*h, c.clone()).await,
    }
}

/// Model verdict for an op: the set of acceptable result kinds, and the successor model if Ok.
pub fn model_step(m: &Model, op: &Op, now_ns: i64) -> (BTreeSet<Kind>, Option<Model>) {
    let mut ok = BTreeSet::new();
    match op {
        Op::Insert(b) | Op::InsertUnchecked(b) => {
            let safe = matches!(op, Op::Insert(_));
            let v = m.insert_violations(b, safe, now_ns);
            if v.is_empty() {
                let mut m2 = m.clone();
                m2.apply_insert(b);
                ok.insert(Kind::Ok);
                (ok, Some(m2))
            } else {
                (v, None)
            }
        }
        Op::InsertOne(h) => {
            let b = vec![h.clone()];
            let v = m.insert_violations(&b, true, now_ns);
            if v.is_empty() {
                let mut m2 = m.clone();
                m2.apply_insert(&b);
                ok.insert(Kind::Ok);
                (ok, Some(m2))
            } else {
                (v, None)
            }
        }
        Op::Remove(h) => {
            let mut m2 = m.clone();
            let k = m2.remove(*h);
            ok.insert(k);
            (ok, (k == Kind::Ok).then_some(m2))
        }
        Op::MarkSampled(h) => {
            let mut m2 = m.clone();
            let k = m2.mark_sampled(*h);
            ok.insert(k);
            (ok, (k == Kind::Ok).then_some(m2))
        }
        Op::UpdateMeta(h, c) => {
            let mut m2 = m.clone();
            let k = m2.update_meta(*h, c);
            ok.insert(k);
            (ok, (k == Kind::Ok).then_some(m2))
        }
    }
}

// ------------------------------------------------------------------------------------ battery

/// Compare every observable query of `s` with the model. Returns the first mismatch.
/// `heights`: which heights to probe (None = 0..=max+2). `hashes`: which hashes to probe.
pub async fn battery<S: Store>(
    s: &S,
    m: &Model,
    heights: Option<&[u64]>,
    hashes: &[Hash],
    max_h: u64,
) -> Result<(), String> {
    let stored = s
        .get_stored_header_ranges()
        .await
        .map_err(|e| format!("get_stored_header_ranges failed: {e}"))?;
    let sampled = s
        .get_sampled_ranges()
        .await
        .map_err(|e| format!("get_sampled_ranges failed: {e}"))?;
    let pruned = s
        .get_pruned_ranges()
        .await
        .map_err(|e| format!("get_pruned_ranges failed: {e}"))?;
    for (n, r) in [("stored", &stored), ("sampled", &sampled), ("pruned", &pruned)] {
        if !ranges_well_formed(r) {
            return Err(format!("{n} ranges not well-formed: {r}"));
        }
    }
    let (st, sa, pr) = (ranges_to_set(&stored), ranges_to_set(&sampled), ranges_to_set(&pruned));
    let mst = m.stored();
    if st != mst {
        return Err(format!("stored ranges {stored} != model {:?}", compact(&mst)));
    }
    if sa != m.sampled {
        return Err(format!("sampled ranges {sampled} != model {:?}", compact(&m.sampled)));
    }
    if pr != m.pruned {
        return Err(format!("pruned ranges {pruned} != model {:?}", compact(&m.pruned)));
    }
    if !sa.is_subset(&st) {
        return Err("sampled not within stored".into());
    }
    if pr.intersection(&st).next().is_some() {
        return Err("pruned intersects stored".into());
    }
    // head
    match (s.head_height().await, m.head()) {
        (Ok(h), Some(mh)) if h == mh => {}
        (Err(StoreError::NotFound), None) => {}
        (r, mh) => return Err(format!("head_height {:?} != model {mh:?}", r.map_err(|e| e.to_string()))),
    }
    match (s.get_head().await, m.head()) {
        (Ok(h), Some(mh)) if h == m.headers[&mh] => {}
        (Err(StoreError::NotFound), None) => {}
        (r, mh) => {
            return Err(format!(
                "get_head {:?} != model head {mh:?}",
                r.map(|h| h.height()).map_err(|e| e.to_string())
            ));
        }
    }
    let all: Vec<u64>;
    let hs: &[u64] = match heights {
        Some(h) => h,
        None => {
            all = (0..=max_h + 2).collect();
            &all
        }
    };
    for &h in hs {
        let r = s.get_by_height(h).await;
        match (&r, m.headers.get(&h)) {
            (Ok(a), Some(b)) if a == b => {}
            (Err(StoreError::NotFound), None) => {}
            _ => {
                return Err(format!(
                    "get_by_height({h}) = {:?}, model has {}",
                    r.as_ref().map(|x| x.hash().to_string()).map_err(|e| e.to_string()),
                    m.headers.get(&h).map(|x| x.hash().to_string()).unwrap_or("nothing".into())
                ));
            }
        }
        if s.has_at(h).await != m.headers.contains_key(&h) {
            return Err(format!("has_at({h}) != model {}", m.headers.contains_key(&h)));
        }
        let md = s.get_sampling_metadata(h).await;
        match (&md, m.headers.contains_key(&h), m.meta.get(&h)) {
            (Err(StoreError::NotFound), false, _) => {}
            (Ok(None), true, None) => {}
            (Ok(Some(x)), true, Some(c)) if &x.cids.iter().map(|c| c.to_bytes()).collect::<BTreeSet<_>>() == c => {}
            _ => {
                return Err(format!(
                    "get_sampling_metadata({h}) = {:?}, model stored={} meta={:?}",
                    md.as_ref().map(|x| x.as_ref().map(|y| y.cids.len())).map_err(|e| e.to_string()),
                    m.headers.contains_key(&h),
                    m.meta.get(&h).map(|c| c.len())
                ));
            }
        }
    }
    for hash in hashes {
        let r = s.get_by_hash(hash).await;
        let mh = m.get_by_hash(hash);
        match (&r, mh) {
            (Ok(a), Some(b)) if a == b => {}
            (Err(StoreError::NotFound), None) => {}
            _ => {
                return Err(format!(
                    "get_by_hash({hash}) = {:?}, model {:?}",
                    r.as_ref().map(|x| x.height()).map_err(|e| e.to_string()),
                    mh.map(|x| x.height())
                ));
            }
        }
        if s.has(hash).await != mh.is_some() {
            return Err(format!("has({hash}) != model {}", mh.is_some()));
        }
    }
    Ok(())
}

/// get_range spot checks against the model
async fn range_checks<S: Store>(ctx: &RunCtx, s: &S, m: &Model, max_h: u64) -> Result<(), String> {
    for _ in 0..2 {
        let lo = ctx.range("gr.lo", 0, max_h + 1);
        let hi = lo + ctx.range("gr.len", 0, 6);
        let r = s.get_range(lo..=hi).await;
        // model: NotFound if lo==0, lo>head, hi>head, or any height missing
        let head = m.head();
        let expect: Option<Vec<&ExtendedHeader>> = match head {
            None => None,
            Some(hd) if lo == 0 || lo > hd || hi > hd => None,
            Some(_) => (lo..=hi).map(|h| m.headers.get(&h)).collect(),
        };
        match (&r, &expect) {
            (Ok(v), Some(e)) if v.len() == e.len() && v.iter().zip(e.iter()).all(|(a, b)| a == *b) => {}
            (Err(StoreError::NotFound), None) => {}
            _ => {
                return Err(format!(
                    "get_range({lo}..={hi}) = {:?}, model {:?}",
                    r.as_ref().map(|v| v.len()).map_err(|e| e.to_string()),
                    expect.as_ref().map(|v| v.len())
                ));
            }
        }
    }
    Ok(())
}

fn compact(s: &BTreeSet<u64>) -> Vec<(u64, u64)> {
    let mut out: Vec<(u64, u64)> = Vec::new();
    for h in s {
        match out.last_mut() {
            Some((_, e)) if *e + 1 == *h => *e = *h,
            _ => out.push((*h, *h)),
        }
    }
    out
}

/// C21 on the store itself: every consecutive stored pair verifies adjacent; hash index agrees.
async fn c21_scan<S: Store>(ctx: &RunCtx, s: &S, heights: &[u64], backend: &'static str) {
    let stored = s.get_stored_header_ranges().await.ok();
    for &h in heights {
        let Ok(a) = s.get_by_height(h).await else {
            // a height the store reports as stored has a header (else the segment it belongs to
            // is not a hash-linked run of headers at all)
            if stored.as_ref().is_some_and(|r| r.contains(h)) {
                ctx.oracle("C21.adjacent");
                ctx.violation("C21", "adjacent", &format!("{backend}:stored_height_without_header"),
                    format!("height {h} is inside the stored ranges {} but get_by_height({h}) fails", stored.as_ref().unwrap()));
            }
            continue;
        };
        ctx.oracle("C21.hash_index");
        match s.get_by_hash(&a.hash()).await {
            Ok(b) if b == a => {}
            r => ctx.violation(
                "C21",
                "hash_index",
                backend,
                format!(
                    "get_by_hash(hash of stored header {h}) returned {:?}",
                    r.map(|x| x.height()).map_err(|e| e.to_string())
                ),
            ),
        }
        if let Ok(b) = s.get_by_height(h + 1).await {
            ctx.oracle("C21.adjacent");
            if let Err(e) = a.verify_adjacent(&b) {
                ctx.violation(
                    "C21",
                    "adjacent",
                    backend,
                    format!("stored headers {h} and {} are not linked: {e}", h + 1),
                );
            }
        }
    }
}

/// Error of `open_redb`: which stage failed.
#[derive(Debug)]
pub enum OpenErr {
    /// redb could not open/create the database file
    Create(String),
    /// `RedbStore::new` failed
    New(String),
    /// opening panicked (site = stable short panic location)
    Panic { site: String, msg: String },
}

impl OpenErr {
    /// Key suffix for a `reopen_succeeds` violation: a panic is keyed by where it happened.
    pub fn key(&self, base: &str) -> String {
        match self {
            OpenErr::Panic { site, .. } => format!("panic_at_{site}"),
            _ => base.to_string(),
        }
    }
}

impl std::fmt::Display for OpenErr {
    fn fmt(&self, f: &mut std::fmt::Formatter<'_>) -> std::fmt::Result {
        match self {
            OpenErr::Create(e) => write!(f, "redb open: {e}"),
            OpenErr::New(e) => write!(f, "RedbStore::new: {e}"),
            OpenErr::Panic { site, msg } => write!(f, "opening the database panicked at {site}: {msg}"),
        }
    }
}

/// Opens (or creates) the database on `disk` the way the node does. A panic inside redb or
/// `RedbStore::new` is caught and reported as `OpenErr::Panic` (the caller decides what it means).
pub async fn open_redb(ctx: &Arc<RunCtx>, disk: &SimDisk) -> Result<(RedbStore, Arc<Database>), OpenErr> {
    use futures::FutureExt;
    let panic_err = |ctx: &Arc<RunCtx>| {
        let p = ctx.panics.lock().unwrap().iter().rev().find(|p| !crate::kernel::runner::is_harness_location(&p.location)).cloned();
        let (loc, msg) = p.map(|p| (p.location, p.message)).unwrap_or_default();
        OpenErr::Panic { site: crate::kernel::runner::short_location(&loc), msg }
    };
    let d = disk.clone();
    let db = match std::panic::catch_unwind(std::panic::AssertUnwindSafe(move || Database::builder().create_with_backend(d))) {
        Ok(r) => r.map_err(|e| OpenErr::Create(e.to_string()))?,
        Err(_) => return Err(panic_err(ctx)),
    };
    let db = Arc::new(db);
    match std::panic::AssertUnwindSafe(RedbStore::new(db.clone())).catch_unwind().await {
        Ok(r) => Ok((r.map_err(|e| OpenErr::New(e.to_string()))?, db)),
        Err(_) => Err(panic_err(ctx)),
    }
}

// ------------------------------------------------------------------------------------ Model mode

/// C18 on synthetic range sets, including heights next to u64::MAX (the statement's "random
/// large values"): a 12-height universe placed at a chooser-selected base, every candidate range
/// around it. Not a reached store state — an auxiliary clause that costs nothing per run.
fn c18_synthetic(ctx: &Arc<RunCtx>) {
    for _ in 0..6 {
        ctx.begin_span("c18syn");
        let base: u64 = *ctx.pick("syn.base", &[0u64, 1 << 20, (1u64 << 32) - 6, u64::MAX - 14, u64::MAX - 12]);
        let bits = ctx.choose("syn.bits", 1 << 12);
        let stored: BTreeSet<u64> = (1..=12u64).filter(|i| bits & (1 << (i - 1)) != 0).map(|i| base + i).collect();
        let mut ranges: Vec<std::ops::RangeInclusive<u64>> = Vec::new();
        for h in &stored {
            match ranges.last_mut() {
                Some(r) if r.end().checked_add(1) == Some(*h) => *r = *r.start()..=*h,
                _ => ranges.push(*h..=*h),
            }
        }
        let lo = base.saturating_add(ctx.range("syn.lo", 0, 13));
        let hi = base.saturating_add(ctx.range("syn.hi", 0, 13));
        ctx.end_span();
        let Ok(br) = BlockRanges::try_from(&ranges[..]) else { continue };
        let rule = admission(&stored, lo, hi);
        ctx.oracle("C18.synthetic_ranges");
        let got = std::panic::catch_unwind(std::panic::AssertUnwindSafe(|| br.check_insertion_constraints(lo..=hi).ok()));
        match got {
            Ok(g) if g == rule => {}
            Ok(g) => ctx.violation("C18", "synthetic_ranges", if base > (1 << 40) { "near_u64_max" } else { "small" },
                format!("range {lo}..={hi} on stored {br}: check_insertion_constraints={g:?}, set rule={rule:?}")),
            Err(_) => ctx.violation("C18", "synthetic_ranges", "panic",
                format!("check_insertion_constraints({lo}..={hi}) on stored {br} panicked")),
        }
    }
}

async fn run_model(ctx: &Arc<RunCtx>, allow_unsafe: bool) {
    if !allow_unsafe {
        c18_synthetic(ctx);
        if !ctx.findings.lock().unwrap().is_empty() {
            return;
        }
    }
    let max_len = if ctx.tier == Tier::Thorough { 200 } else { 60 };
    let mut g = Gen::new(ctx, allow_unsafe, max_len);
    let n_ops = ctx.range("n_ops", 1, if ctx.tier == Tier::Thorough { 300 } else { 60 });
    let mem = InMemoryStore::new();
    let disk = SimDisk::new(ctx);
    let (redb, _db) = match open_redb(ctx, &disk).await {
        Ok(x) => x,
        Err(e) => {
            ctx.violation("C19", "open", "redb", e.to_string());
            return;
        }
    };
    let mut model = Model::default();
    let max_h = g.chain.len();
    let now_ns = ctx.wall_now_ns();
    let p20 = "C20";

    for i in 0..n_ops {
        ctx.begin_span("op");
        let op = g.next_op(&model);
        let (allowed, next) = model_step(&model, &op, now_ns);
        ctx.ev_with("op", i, 0, || op.describe());

        // ---- C18: admission rule on reached states
        if let Op::Insert(b) | Op::InsertUnchecked(b) = &op {
            if let (Some(f), Some(l)) = (b.first(), b.last()) {
                if f.height() <= l.height() {
                    let stored = model.stored();
                    let rule = admission(&stored, f.height(), l.height());
                    for (name, ranges) in [
                        ("in_memory", mem.get_stored_header_ranges().await),
                        ("redb", redb.get_stored_header_ranges().await),
                    ] {
                        if let Ok(r) = ranges {
                            ctx.oracle("C18.check_insertion_constraints");
                            let got = r.check_insertion_constraints(f.height()..=l.height()).ok();
                            if got != rule {
                                ctx.violation(
                                    "C18",
                                    "check_insertion_constraints",
                                    name,
                                    format!(
                                        "range {}..={} on stored {r}: check_insertion_constraints={got:?}, set rule={rule:?}",
                                        f.height(),
                                        l.height()
                                    ),
                                );
                            }
                        }
                    }
                }
            }
        }

        let (r_mem, r_redb) = {
            use futures::FutureExt;
            let a = std::panic::AssertUnwindSafe(apply_to_store(&mem, &op)).catch_unwind().await;
            let b = std::panic::AssertUnwindSafe(apply_to_store(&redb, &op)).catch_unwind().await;
            match (a, b) {
                (Ok(a), Ok(b)) => (a, b),
                (a, _) => {
                    let p = ctx.panics.lock().unwrap().iter().rev().find(|p| !crate::kernel::runner::is_harness_location(&p.location)).cloned();
                    let (loc, msg) = p.map(|p| (p.location, p.message)).unwrap_or_default();
                    let site = crate::kernel::runner::short_location(&loc);
                    for prop in ["C18", "C19", "C20", "C21"] {
                        ctx.violation(prop, "no_panic", &site,
                            format!("{} panicked in the {} store at {loc}: {msg}", op.describe(), if a.is_err() { "in-memory" } else { "redb" }));
                    }
                    ctx.end_span();
                    break;
                }
            }
        };
        let (k_mem, k_redb) = (kind_of_res(&r_mem), kind_of_res(&r_redb));
        ctx.ev("res", k_mem as u64, k_redb as u64);

        for (name, k, r) in [("in_memory", k_mem, &r_mem), ("redb", k_redb, &r_redb)] {
            ctx.oracle("C19.result_kind");
            if !allowed.contains(&k) {
                ctx.violation(
                    "C19",
                    "result_kind",
                    name,
                    format!(
                        "{} returned {k:?} ({}), model allows {allowed:?}",
                        op.describe(),
                        r.as_ref().err().map(|e| e.to_string()).unwrap_or_default()
                    ),
                );
            }
            // C18 through the store's actual outcome
            if let Op::Insert(b) | Op::InsertUnchecked(b) = &op {
                if !b.is_empty() && (k == Kind::Ok || k == Kind::Constraints) {
                    let lo = b.first().unwrap().height();
                    let hi = b.last().unwrap().height();
                    // only when the verifying constructor passed (otherwise the store is not consulted)
                    let internal_ok = b.windows(2).all(|w| linked(&w[0], &w[1], now_ns));
                    if internal_ok || matches!(op, Op::InsertUnchecked(_)) {
                        ctx.oracle("C18.store_outcome");
                        let admitted = admission(&model.stored(), lo, hi).is_some();
                        if (k == Kind::Constraints) == admitted {
                            ctx.violation(
                                "C18",
                                "store_outcome",
                                name,
                                format!("{}: store said {k:?}, set rule admitted={admitted}", op.describe()),
                            );
                        }
                    }
                }
            }
        }
        if k_mem != k_redb && !(allowed.contains(&k_mem) && allowed.contains(&k_redb)) {
            ctx.probe("backends_disagree_on_kind");
        }

        let failed = next.is_none();
        if let Some(m2) = next {
            if k_mem == Kind::Ok && k_redb == Kind::Ok {
                model = m2;
            }
        }
        if allowed.iter().any(|k| *k != Kind::Ok) {
            ctx.fault(match allowed.iter().next().unwrap() {
                Kind::Constraints => "rejected_constraints",
                Kind::NeighborsVerification => "rejected_neighbors",
                Kind::HeadersVerification => "rejected_headers_verification",
                Kind::HashExists => "rejected_hash_exists",
                Kind::NotFound => "op_on_missing_height",
                _ => "rejected_other",
            });
        }

        // ---- state comparison
        let touched: Vec<u64> = match &op {
            Op::Insert(b) | Op::InsertUnchecked(b) => {
                let mut v: Vec<u64> = b.iter().map(|h| h.height()).collect();
                if let (Some(lo), Some(hi)) = (v.iter().min().copied(), v.iter().max().copied()) {
                    v.push(lo.saturating_sub(1));
                    v.push(hi + 1);
                }
                v
            }
            Op::InsertOne(h) => vec![h.height().saturating_sub(1), h.height(), h.height() + 1],
            Op::Remove(h) | Op::MarkSampled(h) | Op::UpdateMeta(h, _) => {
                vec![h.saturating_sub(1), *h, h + 1]
            }
        };
        let full = failed || i + 1 == n_ops || ctx.coin("battery.full", 100);
        let hashes_all;
        let touched_hashes: Vec<Hash>;
        let (hts, hashes): (Option<&[u64]>, &[Hash]) = if full {
            hashes_all = g.known_hashes();
            (None, &hashes_all)
        } else {
            touched_hashes = match &op {
                Op::Insert(b) | Op::InsertUnchecked(b) => b.iter().map(|h| h.hash()).collect(),
                Op::InsertOne(h) => vec![h.hash()],
                Op::Remove(h) => g
                    .chain
                    .headers
                    .get((*h as usize).wrapping_sub(1))
                    .map(|x| vec![x.hash()])
                    .unwrap_or_default(),
                _ => vec![],
            };
            (Some(&touched), &touched_hashes)
        };
        // one abstract model => the two backends answer alike, also where the model is a set
        // (the order and multiplicity of the accumulated CIDs)
        if let Op::UpdateMeta(h, _) = &op {
            let a = mem.get_sampling_metadata(*h).await.ok().flatten().map(|m| m.cids);
            let b = redb.get_sampling_metadata(*h).await.ok().flatten().map(|m| m.cids);
            ctx.oracle("C19.backends_agree_on_metadata");
            if a != b {
                ctx.violation("C19", "backends_agree_on_metadata", "cid_list",
                    format!("after {}: get_sampling_metadata({h}) lists {:?} CIDs in memory and {:?} in redb (different order or multiplicity)",
                        op.describe(), a.as_ref().map(|v| v.len()), b.as_ref().map(|v| v.len())));
            }
        }
        for (name, res) in [
            ("in_memory", battery(&mem, &model, hts, hashes, max_h).await),
            ("redb", battery(&redb, &model, hts, hashes, max_h).await),
        ] {
            ctx.oracle("C19.state");
            if failed {
                ctx.oracle("C20.unchanged_after_error");
            }
            if let Err(e) = res {
                if failed {
                    // the op was rejected (by the model's verdict); any difference from the
                    // pre-op model state is a C20 violation
                    let kinds: Vec<String> = allowed.iter().map(|k| format!("{k:?}")).collect();
                    ctx.violation(
                        p20,
                        "unchanged_after_error",
                        &format!("{name}:{}", kinds.join("+")),
                        format!("after rejected {}: {e}", op.describe()),
                    );
                } else {
                    ctx.violation("C19", "state", name, format!("after {}: {e}", op.describe()));
                }
            }
        }
        if full {
            for (name, res) in [
                ("in_memory", range_checks(ctx, &mem, &model, max_h).await),
                ("redb", range_checks(ctx, &redb, &model, max_h).await),
            ] {
                ctx.oracle("C19.get_range");
                if let Err(e) = res {
                    ctx.violation("C19", "get_range", name, e);
                }
            }
        }

        // ---- C20: a rejected batch can be corrected and re-inserted
        if failed && !allow_unsafe {
            if let Op::Insert(b) = &op {
                if let (Some(f), Some(l)) = (b.first(), b.last()) {
                    let (lo, hi) = (f.height().min(l.height()), f.height().max(l.height()));
                    if hi <= g.chain.len() && lo >= 1 {
                        let fixed = g.honest(lo, hi);
                        let (al, nx) = model_step(&model, &Op::Insert(fixed.clone()), now_ns);
                        if let Some(m2) = nx {
                            ctx.oracle("C20.corrected_batch_inserts");
                            ctx.probe("corrected_batch_reinserted");
                            let r1 = mem.insert(fixed.clone()).await;
                            let r2 = redb.insert(fixed.clone()).await;
                            for (name, r) in [("in_memory", &r1), ("redb", &r2)] {
                                if r.is_err() {
                                    ctx.violation(
                                        p20,
                                        "corrected_batch_inserts",
                                        name,
                                        format!(
                                            "corrected batch {lo}..={hi} rejected after failed {}: {}",
                                            op.describe(),
                                            r.as_ref().err().unwrap()
                                        ),
                                    );
                                }
                            }
                            if r1.is_ok() && r2.is_ok() {
                                model = m2;
                            }
                            let _ = al;
                        }
                    }
                }
            }
        }

        // ---- C21 on touched boundaries (safe constructors only)
        if !allow_unsafe {
            c21_scan(ctx, &mem, &touched, "in_memory").await;
            c21_scan(ctx, &redb, &touched, "redb").await;
        }
        ctx.end_span();
        if !ctx.findings.lock().unwrap().is_empty() {
            break;
        }
    }
    if !allow_unsafe {
        let all: Vec<u64> = (1..=max_h + 1).collect();
        c21_scan(ctx, &mem, &all, "in_memory").await;
        c21_scan(ctx, &redb, &all, "redb").await;
    }
    if model.headers.len() > 1 && compact(&model.stored()).len() > 1 {
        ctx.probe("store_with_gaps_reached");
    }
    let _ = redb.close().await;
}

// ------------------------------------------------------------------------------------ Crash mode

/// Does the reopened store equal one of the candidate models?
async fn matches_any(s: &RedbStore, cands: &[&Model], hashes: &[Hash], max_h: u64) -> Result<usize, String> {
    let mut errs = Vec::new();
    for (i, m) in cands.iter().enumerate() {
        match battery(s, m, None, hashes, max_h).await {
            Ok(()) => return Ok(i),
            Err(e) => errs.push(format!("cand{i}: {e}")),
        }
    }
    Err(errs.join(" | "))
}

async fn run_crash(ctx: &Arc<RunCtx>) {
    let thorough = ctx.tier == Tier::Thorough;
    let mut g = Gen::new(ctx, false, if thorough { 80 } else { 40 });
    let max_h = g.chain.len();
    let now_ns = ctx.wall_now_ns();
    let mut image = crate::seams::disk::Image::default();
    let mut model = Model::default(); // acknowledged state
    let mut identity: Option<Vec<u8>> = None;
    // has redb ever finished creating the database file in this lineage?
    let mut file_created = false;
    let rounds = 1 + ctx.choose("crash.rounds", if thorough { 4 } else { 2 });

    for round in 0..rounds {
        ctx.begin_span("round");
        let disk = SimDisk::from_image(ctx, image.clone());
        // fault plan for this round
        let n_ops = ctx.range("n_ops", 1, if thorough { 30 } else { 12 });
        let plan = ctx.weighted("fault.plan", &[1, 6, 2, 1]);
        // 0: none (clean drop), 1: crash at call k, 2: EIO/ENOSPC at call k then power loss,
        // 3: crash during open
        let budget = 20 + n_ops * 14;
        match plan {
            1 => disk.arm_crash(ctx.range("crash.at", 8, budget)),
            2 => {
                let kind = if ctx.coin("io.enospc", 400) { IoFault::Enospc } else { IoFault::Eio };
                disk.arm_io_fault(ctx.range("io.at", 8, budget), kind)
            }
            3 => disk.arm_crash(ctx.range("crash.open_at", 1, 12)),
            _ => {}
        }
        let mut inflight: Option<Model> = None;
        let opened = open_redb(ctx, &disk).await;
        if !matches!(opened, Err(OpenErr::Create(_))) {
            file_created = true;
        }
        match opened {
            Err(e) => {
                if !disk.crashed() && !disk.io_failed() {
                    ctx.oracle("C22.reopen_succeeds");
                    ctx.violation("C22", "reopen_succeeds", &e.key("open"), format!("round {round}: {e}"));
                    ctx.end_span();
                    return;
                }
                ctx.probe("crash_during_open");
            }
            Ok((store, db)) => {
                // identity acknowledged once an open completed
                match store.get_identity().await {
                    Ok(k) => {
                        let bytes = k.to_protobuf_encoding().unwrap_or_default();
                        if let Some(prev) = &identity {
                            ctx.oracle("C22.identity_preserved");
                            if prev != &bytes {
                                ctx.violation(
                                    "C22",
                                    "identity_preserved",
                                    "identity",
                                    format!("identity changed across restart (round {round})"),
                                );
                            }
                        } else {
                            identity = Some(bytes);
                        }
                    }
                    Err(_) if disk.crashed() || disk.io_failed() => {}
                    Err(e) => ctx.violation("C22", "identity_preserved", "identity", format!("get_identity: {e}")),
                }
                for i in 0..n_ops {
                    if disk.crashed() || disk.io_failed() {
                        break;
                    }
                    ctx.begin_span("op");
                    let op = g.next_op(&model);
                    let (allowed, next) = model_step(&model, &op, now_ns);
                    ctx.ev_with("op", i, round as u64, || op.describe());
                    let calls_before = disk.calls();
                    let r = apply_to_store(&store, &op).await;
                    let k = kind_of_res(&r);
                    ctx.ev("res", k as u64, disk.calls() - calls_before);
                    if disk.crashed() || disk.io_failed() {
                        // in flight when the fault hit: may or may not have become durable
                        if k == Kind::Ok {
                            // acknowledged before the fault landed in a later call of the same op?
                            // (cannot happen: ops are sequential) — treat as acknowledged
                            if let Some(m2) = next {
                                model = m2;
                            }
                        } else {
                            inflight = next;
                            if disk.calls() > calls_before + 1 {
                                ctx.probe("crash_inside_commit");
                            }
                        }
                        ctx.end_span();
                        break;
                    }
                    ctx.oracle("C22.faultfree_result_kind");
                    if !allowed.contains(&k) {
                        ctx.violation(
                            "C22",
                            "faultfree_result_kind",
                            "redb",
                            format!("{} returned {k:?}, model allows {allowed:?}", op.describe()),
                        );
                    }
                    if k == Kind::Ok {
                        if let Some(m2) = next {
                            model = m2;
                        }
                    }
                    ctx.end_span();
                }
                if plan == 2 && disk.io_failed() && !disk.crashed() {
                    // the process saw the error; now the power goes
                    disk.crash_now();
                }
                if !disk.crashed() && ctx.coin("crash.at_end", 300) {
                    disk.crash_now();
                    ctx.probe("crash_between_ops");
                }
                drop(store);
                drop(db);
            }
        }
        image = disk.image_after_stop();
        let crashed = disk.crashed();

        // ---- recovery check on a fresh, fault-free disk
        let disk2 = SimDisk::from_image(ctx, image.clone());
        ctx.oracle("C22.reopen_succeeds");
        match open_redb(ctx, &disk2).await {
            Err(e) => {
                let key = if !file_created {
                    "during_first_file_creation"
                } else if crashed {
                    "after_crash"
                } else {
                    "after_clean_stop"
                };
                ctx.violation("C22", "reopen_succeeds", &e.key(key), format!("round {round}: {e}"));
                ctx.end_span();
                return;
            }
            Ok((s2, db2)) => {
                file_created = true;
                let hashes = g.known_hashes();
                let mut cands: Vec<&Model> = vec![&model];
                if let Some(m) = &inflight {
                    cands.push(m);
                }
                ctx.oracle("C22.state_is_acknowledged_prefix");
                match matches_any(&s2, &cands, &hashes, max_h).await {
                    Ok(i) => {
                        if i == 1 {
                            ctx.probe("inflight_op_survived_crash");
                            model = inflight.take().unwrap();
                        } else if inflight.is_some() {
                            ctx.probe("inflight_op_lost_in_crash");
                        }
                    }
                    Err(e) => {
                        ctx.violation(
                            "C22",
                            "state_is_acknowledged_prefix",
                            if crashed { "after_crash" } else { "after_clean_stop" },
                            format!("round {round}: recovered state matches no admissible prefix: {e}"),
                        );
                        ctx.end_span();
                        return;
                    }
                }
                // index consistency on the recovered store
                let all: Vec<u64> = (1..=max_h + 1).collect();
                c21_after_recovery(ctx, &s2, &all).await;
                if identity.is_none() {
                    if let Ok(k) = s2.get_identity().await {
                        identity = k.to_protobuf_encoding().ok();
                    }
                } else if let Ok(k) = s2.get_identity().await {
                    ctx.oracle("C22.identity_preserved");
                    if Some(k.to_protobuf_encoding().unwrap_or_default()) != identity {
                        ctx.violation(
                            "C22",
                            "identity_preserved",
                            "identity",
                            format!("identity changed after recovery (round {round})"),
                        );
                    }
                }
                let _ = s2.close().await;
                drop(db2);
            }
        }
        image = disk2.image_after_stop();
        ctx.end_span();
        if !ctx.findings.lock().unwrap().is_empty() {
            return;
        }
    }
}

async fn c21_after_recovery(ctx: &RunCtx, s: &RedbStore, heights: &[u64]) {
    for &h in heights {
        let Ok(a) = s.get_by_height(h).await else { continue };
        ctx.oracle("C22.indexes_consistent");
        match s.get_by_hash(&a.hash()).await {
            Ok(b) if b == a => {}
            r => ctx.violation(
                "C22",
                "indexes_consistent",
                "hash_index",
                format!(
                    "after recovery get_by_hash(hash of {h}) = {:?}",
                    r.map(|x| x.height()).map_err(|e| e.to_string())
                ),
            ),
        }
        if let Ok(b) = s.get_by_height(h + 1).await {
            if let Err(e) = a.verify_adjacent(&b) {
                ctx.violation(
                    "C22",
                    "indexes_consistent",
                    "adjacent",
                    format!("after recovery headers {h},{} not linked: {e}", h + 1),
                );
            }
        }
    }
}

/// Every crash point of a short history: count the backend calls of a fault-free execution, then
/// re-execute the same ops once per call index with the power cut there.
async fn run_crash_enum(ctx: &Arc<RunCtx>) {
    let mut g = Gen::new(ctx, false, 24);
    let max_h = g.chain.len();
    let now_ns = ctx.wall_now_ns();
    let n_ops = ctx.range("n_ops", 1, 6);
    // generate ops against the evolving model (fault-free semantics)
    let mut ops: Vec<Op> = Vec::new();
    let mut models: Vec<Model> = vec![Model::default()];
    for _ in 0..n_ops {
        ctx.begin_span("op");
        let cur = models.last().unwrap().clone();
        let op = g.next_op(&cur);
        let (_allowed, next) = model_step(&cur, &op, now_ns);
        models.push(next.unwrap_or(cur));
        ops.push(op);
        ctx.end_span();
    }
    let hashes = g.known_hashes();
    // fault-free execution to count calls
    let disk = SimDisk::new(ctx);
    let total_calls = {
        let Ok((s, db)) = open_redb(ctx, &disk).await else {
            ctx.violation("C22", "reopen_succeeds", "open", "fault-free open failed".into());
            return;
        };
        for op in &ops {
            let _ = apply_to_store(&s, op).await;
        }
        let _ = s.close().await;
        drop(db);
        disk.calls()
    };
    ctx.note("enum_total_calls", total_calls.to_string());
    for at in 1..=total_calls {
        let disk = SimDisk::new(ctx);
        disk.arm_crash(at);
        let mut acked = 0usize; // number of ops acknowledged
        let mut inflight = false;
        let mut opened = false;
        let o = open_redb(ctx, &disk).await;
        let file_created = !matches!(o, Err(OpenErr::Create(_)));
        if let Ok((s, db)) = o {
            opened = true;
            for op in ops.iter() {
                let r = apply_to_store(&s, op).await;
                if disk.crashed() {
                    inflight = r.is_err();
                    if r.is_ok() {
                        acked += 1;
                    }
                    break;
                }
                acked += 1;
            }
            drop(s);
            drop(db);
        }
        if !disk.crashed() {
            disk.crash_now();
        }
        let image = disk.image_after_stop();
        let disk2 = SimDisk::from_image(ctx, image);
        ctx.oracle("C22.reopen_succeeds");
        match open_redb(ctx, &disk2).await {
            Err(e) => {
                ctx.violation(
                    "C22",
                    "reopen_succeeds",
                    &e.key(if file_created { "after_crash" } else { "during_first_file_creation" }),
                    format!("crash at backend call {at}/{total_calls}: {e}"),
                );
                // a panic inside redb's open is keyed by its site; go on with the other crash
                // points so that a listed site does not hide the rest of the enumeration
                if file_created && !matches!(e, OpenErr::Panic { .. }) {
                    return;
                }
                continue;
            }
            Ok((s2, db2)) => {
                let mut cands: Vec<&Model> = vec![&models[acked]];
                if inflight && acked + 1 < models.len() {
                    cands.push(&models[acked + 1]);
                }
                ctx.oracle("C22.state_is_acknowledged_prefix");
                if let Err(e) = matches_any(&s2, &cands, &hashes, max_h).await {
                    ctx.violation(
                        "C22",
                        "state_is_acknowledged_prefix",
                        "after_crash",
                        format!(
                            "crash at backend call {at}/{total_calls} (opened={opened}, acked {acked} ops): {e}"
                        ),
                    );
                    return;
                }
                let all: Vec<u64> = (1..=max_h + 1).collect();
                c21_after_recovery(ctx, &s2, &all).await;
                let _ = s2.close().await;
                drop(db2);
            }
        }
        ctx.probe("crash_points_enumerated");
    }
}

// ------------------------------------------------------------------------------------ Migrate mode

const SCHEMA_VERSION_TABLE: TableDefinition<'static, (), u64> = TableDefinition::new("STORE.SCHEMA_VERSION");
const RANGES_TABLE: TableDefinition<'static, &str, Vec<(u64, u64)>> = TableDefinition::new("STORE.RANGES");
const V1_HEIGHT_RANGES: TableDefinition<'static, u64, (u64, u64)> = TableDefinition::new("STORE.HEIGHT_RANGES");
const HEADER_RANGES_KEY: &str = "KEY.HEADER_RANGES";
const V2_SAMPLED_KEY: &str = "KEY.ACCEPTED_SAMPING_RANGES";
const V3_SAMPLED_KEY: &str = "KEY.SAMPLED_RANGES";

fn random_ranges(ctx: &RunCtx, tag_n: &'static str) -> Vec<(u64, u64)> {
    let n = ctx.range(tag_n, 0, 5);
    let mut out = Vec::new();
    let mut cur = 0u64;
    for _ in 0..n {
        let lo = cur + 2 + ctx.range("rr.gap", 0, 50);
        let hi = lo + ctx.range("rr.len", 0, 200);
        out.push((lo, hi));
        cur = hi;
    }
    out
}

fn to_set(r: &[(u64, u64)]) -> BTreeSet<u64> {
    r.iter().flat_map(|(a, b)| *a..=*b).collect()
}

async fn run_migrate(ctx: &Arc<RunCtx>) {
    let version = *ctx.pick("mig.version", &[2u64, 1, 3, 4, 5]);
    let stored = random_ranges(ctx, "mig.n_stored");
    // sampled ⊆ stored is not required by the migration; use an independent table
    let sampled = random_ranges(ctx, "mig.n_sampled");
    let disk = SimDisk::new(ctx);
    {
        let db = match Database::builder().create_with_backend(disk.clone()) {
            Ok(d) => d,
            Err(e) => {
                ctx.violation("C23", "setup", "harness", format!("cannot create db: {e}"));
                return;
            }
        };
        let tx = db.begin_write().unwrap();
        {
            let mut sv = tx.open_table(SCHEMA_VERSION_TABLE).unwrap();
            sv.insert((), version).unwrap();
            if version == 1 {
                let mut t = tx.open_table(V1_HEIGHT_RANGES).unwrap();
                for (i, r) in stored.iter().enumerate() {
                    t.insert(i as u64, *r).unwrap();
                }
            } else {
                let mut t = tx.open_table(RANGES_TABLE).unwrap();
                t.insert(HEADER_RANGES_KEY, stored.clone()).unwrap();
                let key = if version == 2 { V2_SAMPLED_KEY } else { V3_SAMPLED_KEY };
                t.insert(key, sampled.clone()).unwrap();
            }
        }
        tx.commit().unwrap();
        drop(db);
    }
    let image0 = disk.image_after_stop();
    ctx.ev("migrate.setup", version, stored.len() as u64);

    let expect_sampled = if version == 1 { vec![] } else { sampled.clone() };

    if version > 3 {
        // must be refused, logically unmodified
        let d = SimDisk::from_image(ctx, image0.clone());
        ctx.oracle("C23.newer_schema_refused");
        let r = open_redb(ctx, &d).await;
        if r.is_ok() {
            ctx.violation(
                "C23",
                "newer_schema_refused",
                "open",
                format!("database with schema version {version} was accepted"),
            );
            return;
        }
        drop(r);
        let img = d.image_after_stop();
        let d2 = SimDisk::from_image(ctx, img);
        match Database::builder().create_with_backend(d2) {
            Ok(db) => {
                let tx = db.begin_read().unwrap();
                let sv = tx
                    .open_table(SCHEMA_VERSION_TABLE)
                    .ok()
                    .and_then(|t| t.get(()).ok().flatten().map(|g| g.value()));
                let rt = tx.open_table(RANGES_TABLE).ok();
                let st = rt
                    .as_ref()
                    .and_then(|t| t.get(HEADER_RANGES_KEY).ok().flatten().map(|g| g.value()));
                let sa = rt
                    .as_ref()
                    .and_then(|t| t.get(V3_SAMPLED_KEY).ok().flatten().map(|g| g.value()));
                ctx.oracle("C23.newer_schema_unmodified");
                if sv != Some(version) || st != Some(stored.clone()) || sa != Some(sampled.clone()) {
                    ctx.violation(
                        "C23",
                        "newer_schema_unmodified",
                        "content",
                        format!("refused v{version} database was modified: version={sv:?} stored={st:?} sampled={sa:?}"),
                    );
                }
            }
            Err(e) => ctx.violation(
                "C23",
                "newer_schema_unmodified",
                "reopen",
                format!("refused database no longer opens: {e}"),
            ),
        }
        return;
    }

    // optional crash inside the migration
    let mut image = image0;
    let crash = ctx.coin("mig.crash", 600);
    if crash {
        let d = SimDisk::from_image(ctx, image.clone());
        d.arm_crash(ctx.range("mig.crash_at", 1, 30));
        let r = open_redb(ctx, &d).await;
        if d.crashed() {
            ctx.probe("crash_inside_migration");
        }
        drop(r);
        if !d.crashed() {
            d.crash_now();
        }
        image = d.image_after_stop();
    }
    let d = SimDisk::from_image(ctx, image);
    ctx.oracle("C23.opens");
    match open_redb(ctx, &d).await {
        Err(e) => ctx.violation(
            "C23",
            "opens",
            if crash { "after_crash" } else { "plain" },
            format!("v{version} database failed to open: {e}"),
        ),
        Ok((s, _db)) => {
            ctx.oracle("C23.ranges_preserved");
            let st = s.get_stored_header_ranges().await.map(|r| ranges_to_set(&r));
            let sa = s.get_sampled_ranges().await.map(|r| ranges_to_set(&r));
            if st.as_ref().ok() != Some(&to_set(&stored)) {
                ctx.violation(
                    "C23",
                    "ranges_preserved",
                    "stored",
                    format!("v{version} stored ranges {stored:?} reported as {:?}", st.map(|s| compact(&s)).map_err(|e| e.to_string())),
                );
            }
            if sa.as_ref().ok() != Some(&to_set(&expect_sampled)) {
                ctx.violation(
                    "C23",
                    "ranges_preserved",
                    "sampled",
                    format!("v{version} sampled ranges {expect_sampled:?} reported as {:?}", sa.map(|s| compact(&s)).map_err(|e| e.to_string())),
                );
            }
            let _ = s.close().await;
        }
    }
}

#[allow(dead_code)]
fn _unused(_: BlockRanges, _: fn(&StoreError) -> Kind) {
    let _ = kind_of;
}
