//! W-PRUNE: the real `Pruner` (with its window cache and window-edge search) over a recording
//! store and a real blockstore, against a scripted daser that grants or refuses permission.
//!
//! Stores with gaps, sampled sets and sampling metadata; both window orders; the store grows at
//! the head, is filled from below and new samples appear while the pruner works; the clock
//! advances and jumps forward. A probe drives the real window search (`WindowSearch`: own cache,
//! own previous answer) on the same evolving store and clock.
//!
//! Decides C35 (the pruner only removes safe blocks) and C36 (window-edge search).

use std::collections::{BTreeMap, BTreeSet};
use std::sync::{Arc, Mutex};
use std::time::Duration;

use blockstore::Blockstore;
use cid::Cid;
use futures::FutureExt;
use lumina_node::blockstore::InMemoryBlockstore;
use lumina_node::store::{InMemoryStore, Store};
use lumina_node::verif::{self, DaserCommand, Events, WindowSearch};

use crate::kernel::ctx::{RunCtx, Tier, time_from_ns, time_to_ns};
use crate::kernel::runner::{World, WorldFut, is_harness_location, short_location};
use crate::seams::chain::{Chain, ChainParams};
use crate::seams::rec_store::{Call, RecStore, Ret, StoreObserver};
use crate::seams::store_model::ranges_to_set;

pub struct PruneWorld;

impl World for PruneWorld {
    fn name(&self) -> &'static str {
        "prune.net"
    }
    fn run<'a>(&'a self, ctx: &'a Arc<RunCtx>) -> WorldFut<'a> {
        Box::pin(run_prune(ctx))
    }
    fn vtime_cap(&self) -> Duration {
        Duration::from_secs(3600 * 24 * 3)
    }
}

const EPS_NS: i64 = 1_000_000_000;

fn make_cid(n: u64) -> Cid {
    let mut digest = [0u8; 32];
    digest[..8].copy_from_slice(&n.to_le_bytes());
    let mh = multihash::Multihash::<64>::wrap(0x12, &digest).unwrap();
    Cid::new_v1(0x55, mh)
}

struct ObsState {
    /// heights the scripted daser is "sampling" right now (it refuses to let them go)
    ongoing: BTreeSet<u64>,
    /// snapshots (stored set, wall clock) taken whenever the pruner read the stored ranges; the
    /// pruner runs ahead of the harness, so a report is judged against the recent snapshots
    snaps: std::collections::VecDeque<(BTreeSet<u64>, i64, i64)>,
    /// wall clock when the pruner's previous store call returned: the pruner reads its clock
    /// somewhere between that instant and its next read of the stored ranges
    last_pruner_call_wall: Option<i64>,
    removed: u64,
}

struct Obs {
    ctx: Arc<RunCtx>,
    chain: Arc<Chain>,
    inner: Arc<InMemoryStore>,
    blockstore: Arc<InMemoryBlockstore>,
    pruning_window_ns: i64,
    sampling_window_ns: i64,
    st: Mutex<ObsState>,
}

fn edges(synced: &BTreeSet<u64>) -> BTreeSet<u64> {
    synced
        .iter()
        .copied()
        .filter(|h| !synced.contains(&(h + 1)) || *h == 0 || !synced.contains(&(h.wrapping_sub(1))))
        .collect()
}

impl StoreObserver for Obs {
    fn before(&self, tag: &'static str, call: &Call) {
        if tag != "pruner" {
            return;
        }
        let Call::Remove(h) = call else { return };
        let h = *h;
        let ctx = &self.ctx;
        // the pruner's call has not reached the store yet: nothing holds the store's lock, so
        // these resolve immediately
        let stored = self.inner.get_stored_header_ranges().now_or_never().and_then(|r| r.ok()).map(|r| ranges_to_set(&r));
        let sampled = self.inner.get_sampled_ranges().now_or_never().and_then(|r| r.ok()).map(|r| ranges_to_set(&r));
        let pruned = self.inner.get_pruned_ranges().now_or_never().and_then(|r| r.ok()).map(|r| ranges_to_set(&r));
        let meta = self.inner.get_sampling_metadata(h).now_or_never().and_then(|r| r.ok()).flatten();
        let (Some(stored), Some(sampled), Some(pruned)) = (stored, sampled, pruned) else { return };
        if !stored.contains(&h) || h > self.chain.len() {
            return;
        }
        let now = ctx.wall_now_ns();
        let t = time_to_ns(self.chain.time_of(h));
        let mut st = self.st.lock().unwrap();
        st.removed += 1;
        ctx.probe("pruner_removed_a_header");

        // ---- not inside the pruning window
        ctx.oracle("C35.outside_pruning_window");
        if t > now - self.pruning_window_ns + EPS_NS {
            ctx.violation("C35", "outside_pruning_window", "pruner",
                format!("header {h} removed although it is {} s inside the pruning window", (t - (now - self.pruning_window_ns)) / 1_000_000_000));
        }
        // ---- inside the sampling window: must be sampled and must not border an unsynced gap
        if t > now - self.sampling_window_ns + EPS_NS {
            ctx.probe("removed_inside_sampling_window");
            ctx.oracle("C35.sampled_and_not_edge_inside_sampling_window");
            if !sampled.contains(&h) {
                ctx.violation("C35", "sampled_and_not_edge_inside_sampling_window", "unsampled",
                    format!("unsampled header {h} removed although it is inside the sampling window"));
            }
            let synced: BTreeSet<u64> = stored.union(&pruned).copied().collect();
            if edges(&synced).contains(&h) {
                ctx.violation("C35", "sampled_and_not_edge_inside_sampling_window", "edge",
                    format!("header {h} removed although it is inside the sampling window and borders an unsynced gap (synced ranges {:?})", compact(&synced)));
            }
        }
        // ---- not while its sampling is in progress
        ctx.oracle("C35.not_being_sampled");
        if st.ongoing.contains(&h) {
            ctx.violation("C35", "not_being_sampled", "pruner",
                format!("header {h} removed while the daser is sampling it (the daser refuses want_to_prune({h}))"));
        }
        // ---- its CIDs are gone from the blockstore first
        ctx.oracle("C35.cids_removed_first");
        if let Some(m) = meta {
            for cid in &m.cids {
                let present = self.blockstore.has(cid).now_or_never().and_then(|r| r.ok()).unwrap_or(false);
                if present {
                    ctx.violation("C35", "cids_removed_first", "pruner",
                        format!("header {h} removed while CID {cid} of its sampling metadata is still in the blockstore"));
                    break;
                }
            }
            if !m.cids.is_empty() {
                ctx.probe("removed_header_had_cids");
            }
        }
    }

    fn after(&self, tag: &'static str, call: &Call, ret: &Ret) {
        if tag != "pruner" {
            return;
        }
        let mut st = self.st.lock().unwrap();
        let now = self.ctx.wall_now_ns();
        if let (Call::GetStored, Ret::Ranges(r)) = (call, ret) {
            let lo = st.last_pruner_call_wall.unwrap_or(now).min(now);
            st.snaps.push_back((ranges_to_set(r), lo, now));
            if st.snaps.len() > 12 {
                st.snaps.pop_front();
            }
        }
        st.last_pruner_call_wall = Some(now);
    }
}

fn compact(s: &BTreeSet<u64>) -> Vec<(u64, u64)> {
    let mut out: Vec<(u64, u64)> = Vec::new();
    for h in s {
        match out.last_mut() {
            Some((_, e)) if *e + 1 == *h => *e = *h,
            _ => out.push((*h, *h)),
        }
    }
    out
}

/// The statement of C36 evaluated on a set of stored heights whose times increase with height.
/// Returns an error text if `answer` is not admissible for `cutoff_ns`.
fn window_edge_ok(chain: &Chain, stored: &BTreeSet<u64>, cutoff_ns: i64, answer: Option<u64>, slack_ns: i64) -> Result<(), String> {
    match answer {
        Some(h) => {
            if !stored.contains(&h) {
                return Err(format!("answer {h} is not a stored height"));
            }
            let t = time_to_ns(chain.time_of(h));
            if t > cutoff_ns + slack_ns {
                return Err(format!("answer {h} is {} ms newer than the cutoff", (t - cutoff_ns) / 1_000_000));
            }
            if let Some(above) = stored.range(h + 1..).find(|x| time_to_ns(chain.time_of(**x)) < cutoff_ns - slack_ns) {
                return Err(format!("stored header {above} above the answer {h} is older than the cutoff"));
            }
            Ok(())
        }
        None => {
            if let Some(older) = stored.iter().find(|x| time_to_ns(chain.time_of(**x)) < cutoff_ns - slack_ns) {
                return Err(format!("no answer although stored header {older} is strictly older than the cutoff"));
            }
            Ok(())
        }
    }
}

async fn run_prune(ctx: &Arc<RunCtx>) {
    let thorough = ctx.tier == Tier::Thorough;
    // ---- configuration
    let block_time_ms = *ctx.pick("cfg.block_time", &[6000u64, 1000, 12000]);
    let chain_len = ctx.range("cfg.chain_len", 30, if thorough { 700 } else { 260 });
    let future_blocks = ctx.range("cfg.future_blocks", 2, 30.min(chain_len / 3));
    let chain = Chain::cached(ChainParams {
        class: ctx.range("cfg.chain_class", 0, 3),
        len: chain_len,
        validators: 1,
        block_time_ms,
        head_offset_ms: (future_blocks * block_time_ms) as i64,
    });
    let span_s = chain_len * block_time_ms / 1000;
    let sampling_window = Duration::from_secs(ctx.range("cfg.sampling_window_s", 5, span_s));
    let pruning_window = if ctx.coin("cfg.pruning_smaller", 400) {
        Duration::from_secs(ctx.range("cfg.pruning_window_s", 1, sampling_window.as_secs()))
    } else {
        sampling_window + Duration::from_secs(ctx.range("cfg.pruning_extra_s", 0, span_s / 2 + 1))
    };
    let store_delay = *ctx.pick("cfg.store_delay", &[0u32, 1, 2, 2, 30, 600]);
    let p_refuse = ctx.range("cfg.p_ongoing", 0, 500) as u32;
    let run_s = ctx.range("cfg.run_s", 30, if thorough { 3000 } else { 900 });
    let clock_jumps = ctx.coin("cfg.clock_jumps", 300);
    ctx.note("config", format!("len={chain_len} bt={block_time_ms} sw={}s pw={}s refuse={p_refuse} run={run_s}s", sampling_window.as_secs(), pruning_window.as_secs()));

    let inner = Arc::new(InMemoryStore::new());
    let blockstore = Arc::new(InMemoryBlockstore::new());
    let events = Events::new();

    // ---- initial store: ranges with gaps up to the current network head
    let net_head0 = chain_len - future_blocks;
    let mut hi = net_head0;
    let n_ranges = ctx.range("init.ranges", 1, 4);
    let mut ranges: Vec<(u64, u64)> = Vec::new();
    for _ in 0..n_ranges {
        if hi < 2 {
            break;
        }
        let len = ctx.range("init.len", 1, hi.min(120));
        let lo = hi - len + 1;
        ranges.push((lo, hi));
        let gap = ctx.range("init.gap", 1, 20);
        if lo <= gap + 1 {
            break;
        }
        hi = lo - gap - 1;
    }
    ranges.reverse(); // ascending: each one is above the store head when inserted
    let mut cid_no = 0u64;
    for (lo, hi) in &ranges {
        let hs: Vec<_> = (*lo..=*hi).map(|h| chain.get(h).clone()).collect();
        let _ = inner.insert(hs).await;
        for h in *lo..=*hi {
            match ctx.choose("init.sampling_state", 4) {
                // unsampled, no metadata
                0 => {}
                // sampled with CIDs in the blockstore
                1 | 2 => {
                    let k = ctx.range("init.cids", 0, 3);
                    let cids: Vec<Cid> = (0..k).map(|_| { cid_no += 1; make_cid(cid_no) }).collect();
                    for c in &cids {
                        let _ = blockstore.put_keyed(c, b"sample").await;
                    }
                    let _ = inner.update_sampling_metadata(h, cids).await;
                    let _ = inner.mark_as_sampled(h).await;
                }
                // attempted (metadata + blocks) but not sampled
                _ => {
                    cid_no += 1;
                    let c = make_cid(cid_no);
                    let _ = blockstore.put_keyed(&c, b"sample").await;
                    let _ = inner.update_sampling_metadata(h, vec![c]).await;
                }
            }
        }
    }
    ctx.ev("init", ranges.len() as u64, net_head0);

    let obs = Arc::new(Obs {
        ctx: ctx.clone(),
        chain: chain.clone(),
        inner: inner.clone(),
        blockstore: blockstore.clone(),
        pruning_window_ns: pruning_window.as_nanos() as i64,
        sampling_window_ns: sampling_window.as_nanos() as i64,
        st: Mutex::new(ObsState { ongoing: BTreeSet::new(), snaps: Default::default(), last_pruner_call_wall: None, removed: 0 }),
    });
    // the scripted daser is sampling some unsampled heights
    if let (Ok(stored), Ok(sampled)) = (inner.get_stored_header_ranges().await, inner.get_sampled_ranges().await) {
        let mut st = obs.st.lock().unwrap();
        for h in ranges_to_set(&stored).difference(&ranges_to_set(&sampled)) {
            if ctx.coin("init.ongoing", p_refuse) {
                st.ongoing.insert(*h);
            }
        }
    }
    // the pruner can read its clock any time from now on
    obs.st.lock().unwrap().last_pruner_call_wall = Some(ctx.wall_now_ns());
    let store_pruner = RecStore::new(inner.clone(), "pruner", ctx, obs.clone(), store_delay);
    let (daser, mut daser_cmds) = verif::mocked_daser();
    let pruner = verif::start_pruner(&daser, store_pruner, blockstore.clone(), &events, Duration::from_millis(block_time_ms), pruning_window, sampling_window);

    // ---- window-search probe state (C36)
    let mut ws = WindowSearch::new();
    let ws_window_ns = (ctx.range("ws.window_s", 1, span_s) * 1_000_000_000) as i64;
    let mut ws_last_cutoff: Option<i64> = None;

    let mut next_head = net_head0 + 1;
    let mut tick = tokio::time::interval(Duration::from_millis(700));
    tick.set_missed_tick_behavior(tokio::time::MissedTickBehavior::Delay);
    let mut answers: BTreeMap<u64, bool> = BTreeMap::new();
    let end_ms = ctx.now_ms() + run_s * 1000;

    loop {
        if ctx.over_step_cap() || !ctx.findings.lock().unwrap().is_empty() || ctx.now_ms() > end_ms {
            break;
        }
        tokio::select! {
            biased;
            cmd = daser_cmds.recv() => {
                let Some(cmd) = cmd else { break; };
                match cmd {
                    DaserCommand::WantToPrune { height, respond_to } => {
                        // the daser refuses exactly what it is sampling
                        let d = ctx.delay("daser.delay", 20);
                        if !d.is_zero() {
                            tokio::time::sleep(d).await;
                        }
                        let grant = !obs.st.lock().unwrap().ongoing.contains(&height);
                        answers.insert(height, grant);
                        ctx.ev("daser.want_to_prune", height, grant as u64);
                        if !grant {
                            ctx.fault("daser_refused");
                        }
                        let _ = respond_to.send(grant);
                    }
                    DaserCommand::UpdateHighestPrunableHeight { value } => {
                        ctx.ev("daser.update_highest_prunable", value, 0);
                        // ---- C36, indirectly: what the pruner tells the daser is the window
                        // edge of the stored ranges it had just read (1 s slack for the delays
                        // between its clock read, its store reads and this observation)
                        let st = obs.st.lock().unwrap();
                        if !st.snaps.is_empty() {
                            ctx.oracle("C36.reported_highest_prunable");
                            // the pruner only reports when the edge moved forward, so `None` is never
                            // reported; the report belongs to one of the recent reads
                            let mut errs = Vec::new();
                            // the pruner read its clock at some instant between its previous
                            // store call and the read (store calls are delayed, the clock may
                            // jump in between): the report must be the edge for some cutoff in
                            // that interval. With times increasing with height that is: the
                            // answer is not newer than the latest cutoff, and the next stored
                            // header above it is not older than the earliest one.
                            let ok = st.snaps.iter().any(|(stored, now_lo, now_hi)| {
                                let pw = pruning_window.as_nanos() as i64;
                                let r = window_edge_ok(&chain, stored, now_hi - pw, Some(value), EPS_NS).or_else(|e| {
                                    if !stored.contains(&value) || time_to_ns(chain.time_of(value)) > now_hi - pw + EPS_NS {
                                        return Err(e);
                                    }
                                    match stored.range(value + 1..).next() {
                                        Some(next) if time_to_ns(chain.time_of(*next)) < now_lo - pw - EPS_NS => Err(e),
                                        _ => Ok(()),
                                    }
                                });
                                match r {
                                    Ok(()) => true,
                                    Err(e) => { errs.push(e); false }
                                }
                            });
                            if !ok {
                                ctx.violation("C36", "reported_highest_prunable", "pruner",
                                    format!("UpdateHighestPrunableHeight({value}) is the window edge of none of the pruner's last {} reads of the stored ranges, e.g. {:?}: {}", st.snaps.len(), st.snaps.back().map(|s| compact(&s.0)), errs.last().cloned().unwrap_or_default()));
                            }
                        }
                    }
                    DaserCommand::UpdateNumberOfPrunableBlocks { value } => {
                        ctx.ev("daser.update_prunable_blocks", value, 0);
                    }
                }
            }
            _ = tick.tick() => {
                let now_ns = ctx.wall_now_ns();
                let nh = (((now_ns - chain.base_time_ns) / (block_time_ms as i64 * 1_000_000)).max(1) as u64).min(chain.len());
                // ---- store growth at the head
                if next_head <= nh && ctx.coin("grow.head", 700) {
                    let to = (next_head + ctx.range("grow.n", 0, 3)).min(nh);
                    let hs: Vec<_> = (next_head..=to).map(|h| chain.get(h).clone()).collect();
                    if inner.insert(hs).await.is_ok() {
                        ctx.ev("store.new_heads", next_head, to);
                        next_head = to + 1;
                    }
                }
                // ---- fill a gap from below the highest range (what the syncer does)
                if ctx.coin("grow.fill", 150) {
                    if let (Ok(stored), Ok(pruned)) = (inner.get_stored_header_ranges().await, inner.get_pruned_ranges().await) {
                        let stored = ranges_to_set(&stored);
                        let pruned = ranges_to_set(&pruned);
                        if let Some(top) = stored.iter().next_back().copied() {
                            let mut start = top;
                            while start > 1 && stored.contains(&(start - 1)) {
                                start -= 1;
                            }
                            if start > 1 && !pruned.contains(&(start - 1)) {
                                let k = ctx.range("grow.fill_n", 1, 8).min(start - 1);
                                let lo = start - k;
                                if (lo..start).all(|h| !stored.contains(&h) && !pruned.contains(&h)) {
                                    let hs: Vec<_> = (lo..start).map(|h| chain.get(h).clone()).collect();
                                    if inner.insert(hs).await.is_ok() {
                                        ctx.ev("store.backward_fill", lo, start - 1);
                                    }
                                }
                            }
                        }
                    }
                }
                // ---- the scripted daser finishes / starts sampling
                if ctx.coin("daser.progress", 300) {
                    if let (Ok(stored), Ok(sampled)) = (inner.get_stored_header_ranges().await, inner.get_sampled_ranges().await) {
                        let unsampled: Vec<u64> = ranges_to_set(&stored).difference(&ranges_to_set(&sampled)).copied().collect();
                        if !unsampled.is_empty() {
                            let h = unsampled[ctx.choose("daser.which", unsampled.len() as u32) as usize];
                            let was_ongoing = obs.st.lock().unwrap().ongoing.contains(&h);
                            // the real daser never samples (so never records CIDs for) a height it has
                            // promised to the pruner
                            let promised = answers.get(&h) == Some(&true);
                            match ctx.choose("daser.what", 3) {
                                0 if !promised => {
                                    // finish sampling h
                                    cid_no += 1;
                                    let c = make_cid(cid_no);
                                    let _ = blockstore.put_keyed(&c, b"sample").await;
                                    let _ = inner.update_sampling_metadata(h, vec![c]).await;
                                    let _ = inner.mark_as_sampled(h).await;
                                    obs.st.lock().unwrap().ongoing.remove(&h);
                                    ctx.ev("daser.sampled", h, 0);
                                }
                                0 => {}
                                1 if !was_ongoing && !promised => {
                                    // start sampling h (never something already promised to the pruner)
                                    obs.st.lock().unwrap().ongoing.insert(h);
                                    ctx.ev("daser.sampling_started", h, 0);
                                }
                                _ => {
                                    // give up on h (timed out)
                                    obs.st.lock().unwrap().ongoing.remove(&h);
                                }
                            }
                        }
                    }
                }
                if clock_jumps && ctx.coin("clock.jump", 40) {
                    ctx.jump_wall_clock(ctx.range("clock.jump_ms", 1, (span_s * 1000 / 4).max(2)) as i64 * 1_000_000);
                }
                // ---- C36 probe: the real window search on the evolving store
                if ctx.coin("ws.call", 500) {
                    if let Ok(stored_r) = inner.get_stored_header_ranges().await {
                        let stored = ranges_to_set(&stored_r);
                        let now_ns = ctx.wall_now_ns();
                        let cutoff = now_ns - ws_window_ns;
                        // precondition: the cutoff only moves forward between calls, and the
                        // previous answer (if any) is a stored height not newer than the cutoff
                        if ws_last_cutoff.is_some_and(|c| cutoff < c) {
                            ws.reset();
                        }
                        let prev = ws.prev();
                        let pre_ok = match prev {
                            None => true,
                            Some(p) => stored.contains(&p) && p <= chain.len() && time_to_ns(chain.time_of(p)) <= cutoff,
                        };
                        if !pre_ok && ctx.coin("ws.reset_on_pruned_prev", 500) {
                            ws.reset();
                        }
                        let pre_ok = pre_ok || ws.prev().is_none();
                        ws_last_cutoff = Some(cutoff);
                        let cutoff_t = time_from_ns(cutoff);
                        let fut = std::panic::AssertUnwindSafe(ws.find(&*inner, &stored_r, &cutoff_t)).catch_unwind();
                        match fut.await {
                            Err(_) => {
                                let p = ctx.panics.lock().unwrap().iter().rev().find(|p| !is_harness_location(&p.location)).cloned();
                                let (loc, msg) = p.map(|p| (p.location, p.message)).unwrap_or_default();
                                ctx.violation("C36", "no_panic", &short_location(&loc), format!("window search panicked at {loc}: {msg}"));
                                break;
                            }
                            Ok(Err(e)) => {
                                ctx.note("ws_error", e);
                                ws.reset();
                            }
                            Ok(Ok(ans)) => {
                                ctx.ev("ws.find", ans.unwrap_or(0), prev.unwrap_or(0));
                                let verdict = window_edge_ok(&chain, &stored, cutoff, ans, 0);
                                if pre_ok {
                                    ctx.oracle("C36.window_edge");
                                    if prev.is_some() { ctx.probe("ws_with_previous_answer"); }
                                    if stored.iter().any(|h| time_to_ns(chain.time_of(*h)) == cutoff) { ctx.probe("ws_tie_at_cutoff"); }
                                    if let Err(e) = verdict {
                                        ctx.violation("C36", "window_edge", if prev.is_some() { "with_previous_answer" } else { "no_previous_answer" },
                                            format!("find_height_after_window(stored {:?}, cutoff {cutoff_t}, previous answer {prev:?}) = {ans:?}: {e}", compact(&stored)));
                                    }
                                } else {
                                    // previous answer was pruned meanwhile: outside the statement's
                                    // precondition; observed as a probe only
                                    ctx.probe(if verdict.is_ok() { "ws_prev_pruned_still_correct" } else { "ws_prev_pruned_incorrect" });
                                }
                            }
                        }
                    }
                }
            }
        }
    }
    ctx.note("removed", obs.st.lock().unwrap().removed.to_string());
    pruner.stop();
    // the pruner may be waiting for a want_to_prune answer: closing the daser's channel fails it
    drop(daser_cmds);
    let _ = tokio::time::timeout(Duration::from_secs(60), pruner.join()).await;
}
