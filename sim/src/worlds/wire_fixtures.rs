//! Deterministic fixtures of the wire worlds: valid data squares (with their DAH, a signed header
//! and the shrex payload), and a badly encoded square with its fraud proof.
//!
//! `celestia_types::test_utils::{generate_dummy_eds, generate_eds, corrupt_eds}` draw from
//! `rand::thread_rng()`; on the fixture thread (`off_thread`) that is OS entropy, so a cached
//! square would differ from process to process and a replay file would not reproduce. The squares
//! here have the same shape (dummy: one namespace, random payload; blocks: several sorted
//! namespaces with gaps) but every byte comes from a PRNG seeded by (class, width), and they go
//! through the same public constructors (`ExtendedDataSquare::from_ods` / `::new`).

use std::collections::BTreeMap;
use std::sync::{Arc, Mutex};

use celestia_proto::share::eds::byzantine::pb::{BadEncoding as RawBefp, Share as RawBefpShare};
use celestia_types::consts::appconsts::{AppVersion, SHARE_SIZE};
use celestia_types::nmt::{NS_SIZE, Namespace};
use celestia_types::sample::{RawSample, Sample};
use celestia_types::{AxisType, DataAvailabilityHeader, ExtendedDataSquare, ExtendedHeader};
use tendermint::chain;

use crate::kernel::ctx::{WALL_BASE_SECS, time_from_ns};
use crate::kernel::rng::{Xoshiro, mix};
use crate::seams::chain::{HeaderSpec, KeyedSet, build_header, off_thread};

pub struct Square {
    pub class: u64,
    /// EDS width
    pub width: u16,
    pub app: AppVersion,
    pub eds: ExtendedDataSquare,
    pub dah: DataAvailabilityHeader,
    /// `shrex::encode_eds(&eds)`: the ODS shares, row by row
    pub payload: Vec<u8>,
    /// signed header at `height` carrying `dah`
    pub header: ExtendedHeader,
    pub height: u64,
    /// namespaces that occur in the ODS, sorted
    pub present: Vec<Namespace>,
    /// namespaces lying strictly between two present ones (absence proofs)
    pub absent: Vec<Namespace>,
}

fn ns_with_id(n: u64) -> Namespace {
    let mut id = [0u8; 10];
    id[2..].copy_from_slice(&n.to_be_bytes());
    Namespace::const_v0(id)
}

pub fn app_of_class(class: u64) -> AppVersion {
    match class % 4 {
        0 => AppVersion::V2,
        1 => AppVersion::V1,
        2 => AppVersion::V4,
        _ => AppVersion::V3,
    }
}

fn make_header(rng: &mut Xoshiro, dah: DataAvailabilityHeader, height: u64, app: AppVersion) -> ExtendedHeader {
    let chain_id: chain::Id = "private".try_into().unwrap();
    let set = KeyedSet::generate(rng, 1, 1000);
    let time = time_from_ns((WALL_BASE_SECS - 3600) * 1_000_000_000 + height as i64 * 6_000_000_000);
    build_header(
        rng,
        HeaderSpec {
            chain_id: &chain_id,
            height,
            time,
            prev: None,
            set: &set,
            next_set: &set,
            dah,
            app_version: app as u64,
            votes: None,
        },
    )
}

fn gen_ods(rng: &mut Xoshiro, class: u64, ods_width: usize) -> (Vec<Vec<u8>>, Vec<Namespace>, Vec<Namespace>) {
    let n = ods_width * ods_width;
    // class 0: like generate_dummy_eds (one namespace); others: sorted runs of several namespaces
    let k = if class % 4 == 0 { 1 } else { (1 + rng.below(6) as usize).min(n) };
    let base = 1000 + rng.below(1 << 40);
    let present: Vec<Namespace> = (0..k).map(|i| ns_with_id(base + 2 * i as u64)).collect();
    let absent: Vec<Namespace> = (0..k.saturating_sub(1)).map(|i| ns_with_id(base + 2 * i as u64 + 1)).collect();
    // cut points of the runs in row-major order (row-major monotone => rows and columns sorted)
    let mut cuts: Vec<usize> = (0..k - 1).map(|_| 1 + rng.below(n.max(2) as u64 - 1) as usize).collect();
    cuts.sort();
    // share version 1 needs app >= V3: class 3 uses it so that a wrong (older) app version is
    // rejected by `Share::validate`
    let info_byte = if class % 4 == 3 { 2u8 } else { 0u8 };
    let mut shares = Vec::with_capacity(n);
    for i in 0..n {
        let run = cuts.iter().filter(|c| **c <= i).count();
        let mut s = vec![0u8; SHARE_SIZE];
        s[..NS_SIZE].copy_from_slice(present[run].as_bytes());
        s[NS_SIZE] = info_byte;
        rng.fill(&mut s[NS_SIZE + 1..]);
        shares.push(s);
    }
    let used: Vec<Namespace> = {
        let mut u: Vec<Namespace> = Vec::new();
        for s in &shares {
            let ns = Namespace::from_raw(&s[..NS_SIZE]).unwrap();
            if u.last() != Some(&ns) {
                u.push(ns);
            }
        }
        u
    };
    (shares, used, absent)
}

impl Square {
    fn generate(class: u64, width: u16) -> Square {
        let mut rng = Xoshiro::new(mix(&[0x5EED_0E05, class, width as u64]));
        let app = app_of_class(class);
        let (ods, present, absent) = gen_ods(&mut rng, class, width as usize / 2);
        let eds = ExtendedDataSquare::from_ods(ods, app).expect("valid ods");
        let dah = DataAvailabilityHeader::from_eds(&eds);
        let payload = lumina_node::verif::shrex::encode_eds(&eds);
        let height = 7 + class;
        let header = make_header(&mut rng, dah.clone(), height, app);
        header.validate().expect("fixture header validates");
        Square { class, width, app, eds, dah, payload, header, height, present, absent }
    }

    pub fn cached(class: u64, width: u16) -> Arc<Square> {
        static CACHE: Mutex<BTreeMap<(u64, u16), Arc<Square>>> = Mutex::new(BTreeMap::new());
        if let Some(s) = CACHE.lock().unwrap().get(&(class, width)) {
            return s.clone();
        }
        let s = off_thread(move || Arc::new(Square::generate(class, width)));
        CACHE.lock().unwrap().entry((class, width)).or_insert(s).clone()
    }
}

/// A square whose row `index` is not a codeword, the header committing to it, and the fraud proof
/// an honest full node would gossip (all shares of the row, each proven against the DAH).
pub struct Befp {
    pub width: u16,
    pub header: ExtendedHeader,
    pub raw: RawBefp,
    pub index: u16,
    /// true: the whole parity half of the row is arbitrary bytes (a malicious block producer);
    /// false: like `test_utils::corrupt_eds` (payload bytes of width/2+1 shares trashed)
    pub parity_garbage: bool,
}

impl Befp {
    fn generate(class: u64, width: u16) -> Befp {
        let base = Square::cached(class, width);
        let mut rng = Xoshiro::new(mix(&[0xBEF9, class, width as u64]));
        let w = width as usize;
        let ods = w / 2;
        let mut shares: Vec<Vec<u8>> = base.eds.data_square().iter().map(|s| s.to_vec()).collect();
        let index = rng.below(ods as u64) as usize;
        let parity_garbage = class % 2 == 1;
        if parity_garbage {
            for col in ods..w {
                rng.fill(&mut shares[index * w + col][..]);
            }
        } else {
            // trash the payload (after namespace, info byte, sequence length) of width/2+1 shares
            let offset = NS_SIZE + 1 + 4;
            let mut cols: Vec<usize> = (0..w).collect();
            for i in 0..ods + 1 {
                let j = i + rng.below((w - i) as u64) as usize;
                cols.swap(i, j);
                rng.fill(&mut shares[index * w + cols[i]][offset..]);
            }
        }
        let bad = ExtendedDataSquare::new(shares, "Leopard".to_string(), base.app).expect("shape still valid");
        let dah = DataAvailabilityHeader::from_eds(&bad);
        let height = 40 + class;
        let header = make_header(&mut rng, dah, height, base.app);
        let mut raw_shares = Vec::new();
        for col in 0..w {
            let axis = if rng.below(2) == 0 { AxisType::Row } else { AxisType::Col };
            let sample = Sample::new(index as u16, col as u16, axis, &bad).expect("in range");
            let ns = if col < ods { sample.share.namespace() } else { Namespace::PARITY_SHARE };
            let mut data = ns.as_bytes().to_vec();
            data.extend_from_slice(sample.share.as_ref());
            let raw = RawSample::from(sample);
            raw_shares.push(RawBefpShare { data, proof: raw.proof, proof_axis: axis as i32 });
        }
        let raw = RawBefp {
            header_hash: header.hash().as_bytes().to_vec(),
            height,
            shares: raw_shares,
            index: index as u32,
            axis: AxisType::Row as i32,
        };
        Befp { width, header, raw, index: index as u16, parity_garbage }
    }

    pub fn cached(class: u64, width: u16) -> Arc<Befp> {
        static CACHE: Mutex<BTreeMap<(u64, u16), Arc<Befp>>> = Mutex::new(BTreeMap::new());
        if let Some(s) = CACHE.lock().unwrap().get(&(class, width)) {
            return s.clone();
        }
        // make sure the base square is cached before entering the helper thread
        let _ = Square::cached(class, width);
        let s = off_thread(move || Arc::new(Befp::generate(class, width)));
        CACHE.lock().unwrap().entry((class, width)).or_insert(s).clone()
    }
}
