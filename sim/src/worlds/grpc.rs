//! W-GRPC: the real `celestia_grpc::GrpcClient` against in-process fake consensus nodes.
//!
//! Seam: `GrpcClientBuilder::transport(T)` accepts any `tower::Service<http::Request<tonic::Body>>`.
//! [`FakeNode`] is such a service: it collects the request body, strips the 5-byte gRPC frame
//! header, hands `(endpoint index, path, headers, protobuf bytes)` to a [`NodeBehaviour`] and
//! turns its [`Reply`] into a framed gRPC response (HTTP 200, `content-type: application/grpc`,
//! one data frame, `grpc-status` trailers), a trailers-only status response, or a transport-level
//! error (the service future resolves to `Err`, which tonic maps to `Code::Unknown`). No sockets,
//! no threads; all delays are `tokio::time::sleep` on the paused clock and every decision comes
//! from the run's chooser.
//!
//! Worlds:
//! * `grpc.sequence` (C43): one client, 1..3 endpoints backed by one `NodeState`, 1..5 concurrent
//!   `submit_message` / `submit_blobs`; the node follows a chooser script per call.
//! * `grpc.failover` (C44): 1..5 endpoints with independent per-attempt outcomes, 1..4 callers.
//! * `grpc.verified_balance` (C45): ABCI query answered with ICS-23 proof chains from a minimal
//!   prover; Byzantine tampering.

use std::collections::{BTreeMap, BTreeSet, VecDeque};
use std::future::Future;
use std::pin::Pin;
use std::sync::{Arc, Mutex};
use std::task::{Context as TaskCx, Poll};
use std::time::Duration;

use bytes::Bytes;
use celestia_grpc::{GrpcClient, TxConfig};
use celestia_proto::celestia::core::v1::gas_estimation::{
    EstimateGasPriceAndUsageRequest, EstimateGasPriceAndUsageResponse, EstimateGasPriceResponse,
};
use celestia_proto::celestia::core::v1::tx::{TxStatusRequest, TxStatusResponse};
use celestia_proto::cosmos::auth::v1beta1::{
    BaseAccount as RawBaseAccount, Params as RawAuthParams, QueryAccountRequest,
    QueryAccountResponse, QueryParamsResponse as QueryAuthParamsResponse,
};
use celestia_proto::cosmos::bank::v1beta1::MsgSend;
use celestia_proto::cosmos::base::abci::v1beta1::TxResponse as RawTxResponse;
use celestia_proto::cosmos::base::node::v1beta1::ConfigResponse as RawConfigResponse;
use celestia_proto::cosmos::base::tendermint::v1beta1::GetLatestBlockResponse;
use celestia_proto::cosmos::tx::v1beta1::{
    AuthInfo as RawAuthInfo, BroadcastTxRequest, BroadcastTxResponse, TxBody as RawTxBody, TxRaw,
};
use celestia_proto::proto::blob::v2::BlobTx as RawBlobTx;
use celestia_types::block::{Block, Data};
use celestia_types::nmt::Namespace;
use celestia_types::state::Coin;
use celestia_types::{AppVersion, Blob};
use http_body::Frame;
use http_body_util::BodyExt;
use prost::{Message, Name};
use sha2::{Digest, Sha256};
use tendermint_proto::google::protobuf::Any;
use tonic::{Code, Status};

use crate::kernel::ctx::RunCtx;
use crate::kernel::runner::{World, WorldFut, is_harness_location};
use crate::seams::chain::{Chain, ChainParams};

// ======================================================================================
// FakeNode: the transport seam
// ======================================================================================

pub const P_LATEST_BLOCK: &str = "/cosmos.base.tendermint.v1beta1.Service/GetLatestBlock";
pub const P_ABCI_QUERY: &str = "/cosmos.base.tendermint.v1beta1.Service/ABCIQuery";
pub const P_ACCOUNT: &str = "/cosmos.auth.v1beta1.Query/Account";
pub const P_AUTH_PARAMS: &str = "/cosmos.auth.v1beta1.Query/Params";
pub const P_NODE_CONFIG: &str = "/cosmos.base.node.v1beta1.Service/Config";
pub const P_EST_PRICE: &str = "/celestia.core.v1.gas_estimation.GasEstimator/EstimateGasPrice";
pub const P_EST_PRICE_USAGE: &str =
    "/celestia.core.v1.gas_estimation.GasEstimator/EstimateGasPriceAndUsage";
pub const P_BROADCAST: &str = "/cosmos.tx.v1beta1.Service/BroadcastTx";
pub const P_TX_STATUS: &str = "/celestia.core.v1.tx.Tx/TxStatus";

/// Response body: a queue of frames (data, then trailers). `Default` = empty body, which is what
/// `Status::into_http` needs for trailers-only responses.
#[derive(Default)]
pub struct FakeBody {
    frames: VecDeque<Frame<Bytes>>,
}

impl http_body::Body for FakeBody {
    type Data = Bytes;
    type Error = std::convert::Infallible;

    fn poll_frame(
        mut self: Pin<&mut Self>,
        _cx: &mut TaskCx<'_>,
    ) -> Poll<Option<Result<Frame<Bytes>, Self::Error>>> {
        Poll::Ready(self.frames.pop_front().map(Ok))
    }
}

/// Transport-level failure (connection dropped, reset, refused).
#[derive(Debug)]
pub struct ConnError(pub &'static str);

impl std::fmt::Display for ConnError {
    fn fmt(&self, f: &mut std::fmt::Formatter<'_>) -> std::fmt::Result {
        write!(f, "fake transport: {}", self.0)
    }
}
impl std::error::Error for ConnError {}

/// What a fake node answers to one request.
pub enum Reply {
    /// gRPC OK with this encoded protobuf message
    Msg(Vec<u8>),
    /// a gRPC status (trailers-only response)
    Status(Status),
    /// transport-level failure: the service future resolves to `Err`
    Drop(&'static str),
}

pub type ReplyFut = Pin<Box<dyn Future<Output = Reply> + Send>>;

/// The scripted behaviour behind one or more [`FakeNode`] endpoints.
pub trait NodeBehaviour: Send + Sync + 'static {
    fn handle(self: Arc<Self>, ep: usize, path: String, headers: http::HeaderMap, msg: Bytes) -> ReplyFut;
}

/// One endpoint of a fake node, as handed to `GrpcClientBuilder::transport`.
#[derive(Clone)]
pub struct FakeNode {
    pub idx: usize,
    pub behaviour: Arc<dyn NodeBehaviour>,
}

impl tower_service::Service<http::Request<tonic::body::Body>> for FakeNode {
    type Response = http::Response<FakeBody>;
    type Error = ConnError;
    type Future = Pin<Box<dyn Future<Output = Result<Self::Response, Self::Error>> + Send>>;

    fn poll_ready(&mut self, _cx: &mut TaskCx<'_>) -> Poll<Result<(), Self::Error>> {
        Poll::Ready(Ok(()))
    }

    fn call(&mut self, req: http::Request<tonic::body::Body>) -> Self::Future {
        let behaviour = self.behaviour.clone();
        let ep = self.idx;
        Box::pin(async move {
            let (parts, body) = req.into_parts();
            let collected = match body.collect().await {
                Ok(c) => c.to_bytes(),
                Err(_) => return Err(ConnError("request body error")),
            };
            // gRPC length-prefixed message: 1 byte compression flag, 4 bytes big-endian length
            if collected.len() < 5 || collected[0] != 0 {
                return Ok(Status::internal("fake node: bad gRPC frame").into_http::<FakeBody>());
            }
            let len = u32::from_be_bytes([collected[1], collected[2], collected[3], collected[4]]) as usize;
            if collected.len() < 5 + len {
                return Ok(Status::internal("fake node: truncated gRPC frame").into_http::<FakeBody>());
            }
            let msg = collected.slice(5..5 + len);
            let path = parts.uri.path().to_string();
            match behaviour.handle(ep, path, parts.headers, msg).await {
                Reply::Msg(m) => Ok(ok_response(m)),
                Reply::Status(s) => Ok(s.into_http::<FakeBody>()),
                Reply::Drop(why) => Err(ConnError(why)),
            }
        })
    }
}

fn ok_response(msg: Vec<u8>) -> http::Response<FakeBody> {
    let mut buf = Vec::with_capacity(5 + msg.len());
    buf.push(0u8);
    buf.extend_from_slice(&(msg.len() as u32).to_be_bytes());
    buf.extend_from_slice(&msg);
    let mut trailers = http::HeaderMap::new();
    trailers.insert("grpc-status", http::HeaderValue::from_static("0"));
    let mut frames = VecDeque::new();
    frames.push_back(Frame::data(Bytes::from(buf)));
    frames.push_back(Frame::trailers(trailers));
    let mut resp = http::Response::new(FakeBody { frames });
    resp.headers_mut()
        .insert(http::header::CONTENT_TYPE, http::HeaderValue::from_static("application/grpc"));
    resp
}

/// One of the failures `celestia_grpc::Error::is_network_error` classifies as network errors:
/// a transport error (mapped by tonic to `Unknown`), or status Unavailable / DeadlineExceeded /
/// Aborted / Unknown. The messages never contain the sequence-mismatch pattern.
fn net_failure(ctx: &RunCtx) -> (Reply, &'static str) {
    match ctx.choose("net.kind", 5) {
        0 => (Reply::Drop("connection reset by peer"), "conn_reset"),
        1 => (Reply::Status(Status::unavailable("node unavailable")), "unavailable"),
        2 => (Reply::Status(Status::deadline_exceeded("deadline exceeded")), "deadline_exceeded"),
        3 => (Reply::Status(Status::aborted("aborted")), "aborted"),
        _ => (Reply::Status(Status::unknown("unknown")), "unknown"),
    }
}

const NON_NETWORK_CODES: [Code; 9] = [
    Code::InvalidArgument,
    Code::NotFound,
    Code::Internal,
    Code::Unauthenticated,
    Code::PermissionDenied,
    Code::Unimplemented,
    Code::ResourceExhausted,
    Code::FailedPrecondition,
    Code::Cancelled,
];

async fn vsleep(d: Duration) {
    if !d.is_zero() {
        tokio::time::sleep(d).await;
    }
}

/// The seam met something it does not model (unknown gRPC path, undecodable transaction, ...).
/// That is a gap in the harness, never a verdict: panic at a harness location, which the runner
/// reports as HARNESS-ERROR.
fn unmodelled(what: &str, detail: String) {
    panic!("fake node: unmodelled situation `{what}`: {detail}");
}

fn has_findings(ctx: &RunCtx) -> bool {
    !ctx.findings.lock().unwrap().is_empty()
}

/// A fixed secp256k1 private key (any non-zero scalar below the group order).
const PRIV_KEY: [u8; 32] = [
    0x1f, 0x2e, 0x3d, 0x4c, 0x5b, 0x6a, 0x79, 0x88, 0x97, 0xa6, 0xb5, 0xc4, 0xd3, 0xe2, 0xf1, 0x01,
    0x10, 0x21, 0x32, 0x43, 0x54, 0x65, 0x76, 0x87, 0x98, 0xa9, 0xba, 0xcb, 0xdc, 0xed, 0xfe, 0x0f,
];
const OTHER_ADDRESS: &str = "celestia169s50psyj2f4la9a2235329xz7rk6c53zhw9mm";

/// Encoded `GetLatestBlockResponse` with a header of the cached honest chain (app version 3).
fn latest_block_response() -> Vec<u8> {
    let chain = Chain::cached(ChainParams {
        class: 0,
        len: 2,
        validators: 1,
        block_time_ms: 6000,
        head_offset_ms: -3_600_000,
    });
    let mut header = chain.get(2).header.clone();
    header.version.app = 3;
    let block = Block::new(
        header,
        Data { txs: vec![], square_size: 1, hash: vec![] },
        Default::default(),
        None,
    );
    GetLatestBlockResponse { block_id: None, block: Some(block.into()), sdk_block: None }.encode_to_vec()
}

// ======================================================================================
// C43: grpc.sequence
// ======================================================================================

pub struct SequenceWorld;

impl World for SequenceWorld {
    fn name(&self) -> &'static str {
        "grpc.sequence"
    }
    fn run<'a>(&'a self, ctx: &'a Arc<RunCtx>) -> WorldFut<'a> {
        Box::pin(run_sequence(ctx))
    }
    fn vtime_cap(&self) -> Duration {
        Duration::from_secs(3600 * 6)
    }
}

/// What a broadcast / simulated transaction carries.
#[derive(Clone, Debug)]
struct DecodedTx {
    seq: u64,
    memo: String,
    /// upper-case hex of sha256 over the (inner) transaction bytes
    hash: String,
    blob: bool,
}

fn decode_tx(bytes: &[u8]) -> Option<DecodedTx> {
    let (inner, blob): (Vec<u8>, bool) = match RawBlobTx::decode(bytes) {
        Ok(b) if b.type_id == "BLOB" => (b.tx, true),
        _ => (bytes.to_vec(), false),
    };
    let raw = TxRaw::decode(inner.as_slice()).ok()?;
    let auth = RawAuthInfo::decode(raw.auth_info_bytes.as_slice()).ok()?;
    let body = RawTxBody::decode(raw.body_bytes.as_slice()).ok()?;
    let seq = auth.signer_infos.first()?.sequence;
    Some(DecodedTx { seq, memo: body.memo, hash: hex::encode_upper(Sha256::digest(&inner)), blob })
}

fn sub_of_memo(memo: &str) -> Option<usize> {
    memo.strip_prefix("sub-")?.parse().ok()
}

#[derive(Clone, Copy, Debug, PartialEq, Eq)]
enum Final {
    Committed { code: u32 },
    Rejected { code: u32 },
    Evicted,
}

#[derive(Clone, Copy, Debug, PartialEq, Eq)]
enum TxState {
    Pending { polls_left: u32, then: Final },
    Committed { code: u32, height: i64 },
    Rejected { code: u32 },
    Evicted,
}

struct TxEntry {
    seq: u64,
    sub: Option<usize>,
    state: TxState,
}

/// One BroadcastTx as seen by the node (the broadcast log).
struct BroadcastRec {
    at_ms: u64,
    ep: usize,
    seq: u64,
    hash: String,
    bytes: Vec<u8>,
    sub: Option<usize>,
}

struct Accepted {
    bytes: Vec<u8>,
    seq: u64,
}

/// Reference model of what the client may believe its account sequence to be.
///
/// `cur` is the set of values the client's `account.base.sequence` may legitimately hold right
/// now. It is a singleton except for roll-backs after a rejection reported by TxStatus, which the
/// client applies "at any later point" (when it gets the account lock): those stay possible until
/// the rejected submission has returned.
#[derive(Default)]
struct Model {
    cur: BTreeSet<u64>,
    /// the value ignoring roll-backs (probe only)
    exact: Option<u64>,
    pending_rollback: BTreeMap<usize, u64>,
    /// every roll-back target ever allowed (probe only)
    rollback_values: BTreeSet<u64>,
    /// Some(i): the last answer delivered in the sign-and-broadcast phase of submission i makes
    /// the client continue that phase with the account lock held (mismatch => re-sign)
    locked_by: Option<usize>,
    accepted: BTreeMap<usize, Accepted>,
    evicted_reported: BTreeSet<usize>,
    /// per submission: (signed, expected) of the last mismatch delivered and not yet acted upon
    last_mismatch: BTreeMap<usize, (u64, u64)>,
    started: BTreeSet<usize>,
    done: BTreeSet<usize>,
}

impl Model {
    fn unlock(&mut self) {
        self.locked_by = None;
        let vals: Vec<u64> = self.pending_rollback.values().copied().collect();
        self.cur.extend(vals);
    }
    fn set_exact(&mut self, v: u64) {
        self.cur.clear();
        self.cur.insert(v);
        self.exact = Some(v);
    }
}

struct FaultPlan {
    p_fault: u32,
    p_final_fault: u32,
    max_delay_ms: u32,
    slow_ms: u32,
}

struct NodeState {
    account_number: u64,
    /// the sequence the node's CheckTx expects next
    expected: u64,
    table: BTreeMap<String, TxEntry>,
    bcast_log: Vec<BroadcastRec>,
    calls: u64,
    budget: u64,
    last_fault_ms: u64,
    height: i64,
    model: Model,
    cap_hit: bool,
}

const CALL_CAP: u64 = 3000;
const SEQ_PAT: &str = "account sequence mismatch, expected ";

fn mismatch_msg(expected: u64, got: u64) -> String {
    format!("{SEQ_PAT}{expected}, got {got}: incorrect account sequence")
}

/// Answer to a BroadcastTx as decided by the node.
#[derive(Clone, Debug)]
enum BAnswer {
    Accepted,
    CacheHit,
    Mismatch { expected: u64, code: u32 },
    Rejected { code: u32 },
}

struct SeqNode {
    ctx: Arc<RunCtx>,
    st: Mutex<NodeState>,
    plan: FaultPlan,
    block: Vec<u8>,
}

impl SeqNode {
    fn fire(&self, st: &mut NodeState, kind: &'static str) {
        self.ctx.fault(kind);
        st.last_fault_ms = self.ctx.now_ms();
    }

    /// Spend one unit of the fault budget with probability `permille`.
    fn take_fault(&self, st: &mut NodeState, tag: &'static str, permille: u32) -> bool {
        if st.budget > 0 && !st.cap_hit && self.ctx.coin(tag, permille) {
            st.budget -= 1;
            true
        } else {
            false
        }
    }

    fn req_delay(&self) -> Duration {
        self.ctx.delay("rpc.req_delay", self.plan.max_delay_ms)
    }

    /// Response delay; occasionally (budgeted fault) a slow answer.
    fn resp_delay(&self) -> Duration {
        let slow = {
            let mut st = self.st.lock().unwrap();
            if self.plan.slow_ms > 0 && self.take_fault(&mut st, "rpc.slow", self.plan.p_fault / 4) {
                self.fire(&mut st, "slow_response");
                true
            } else {
                false
            }
        };
        if slow {
            Duration::from_millis(self.ctx.range("rpc.slow_ms", 1000, self.plan.slow_ms as u64))
        } else {
            self.ctx.delay("rpc.resp_delay", self.plan.max_delay_ms)
        }
    }

    /// After a slow answer has been delivered, faults have "stopped" only now.
    fn touch_fault_clock_if_slow(&self, d: Duration) {
        if d >= Duration::from_millis(1000) {
            self.st.lock().unwrap().last_fault_ms = self.ctx.now_ms();
        }
    }

    fn over_cap(&self) -> bool {
        let mut st = self.st.lock().unwrap();
        st.calls += 1;
        if st.calls > CALL_CAP && !st.cap_hit {
            st.cap_hit = true;
            self.ctx.probe("call_cap_hit");
        }
        st.cap_hit
    }

    fn choose_final(&self, st: &mut NodeState) -> (u32, Final) {
        let polls = self.ctx.choose("tx.pending_polls", 4);
        let then = if self.take_fault(st, "tx.final_fault", self.plan.p_final_fault) {
            match self.ctx.choose("tx.final_kind", 4) {
                0 => Final::Evicted,
                1 => Final::Rejected { code: *self.ctx.pick("tx.reject_code", &[5u32, 11, 13, 21]) },
                2 => Final::Rejected { code: 32 },
                _ => Final::Committed { code: 11 },
            }
        } else {
            Final::Committed { code: 0 }
        };
        (polls, then)
    }

    /// What an honest node does with a broadcast.
    fn honest_broadcast(&self, st: &mut NodeState, tx: &DecodedTx, sub: Option<usize>) -> BAnswer {
        let existing = st.table.get(&tx.hash).map(|e| e.state);
        match existing {
            Some(TxState::Pending { .. }) | Some(TxState::Committed { .. }) => BAnswer::CacheHit,
            Some(TxState::Evicted) => {
                // an evicted transaction is admitted again (CheckTx state was reset on eviction)
                let (polls_left, then) = self.choose_final(st);
                if let Some(e) = st.table.get_mut(&tx.hash) {
                    e.state = TxState::Pending { polls_left, then };
                }
                BAnswer::Accepted
            }
            _ => {
                if tx.seq != st.expected {
                    BAnswer::Mismatch { expected: st.expected, code: 32 }
                } else {
                    let (polls_left, then) = self.choose_final(st);
                    st.table.insert(
                        tx.hash.clone(),
                        TxEntry { seq: tx.seq, sub, state: TxState::Pending { polls_left, then } },
                    );
                    st.expected = tx.seq + 1;
                    BAnswer::Accepted
                }
            }
        }
    }

    async fn latest_block(self: &Arc<Self>, ep: usize) -> Reply {
        self.ctx.ev("rpc.latest_block", ep as u64, 0);
        vsleep(self.req_delay()).await;
        let fault = {
            let mut st = self.st.lock().unwrap();
            let f = self.take_fault(&mut st, "block.fault", self.plan.p_fault);
            if f {
                self.fire(&mut st, "net_error_latest_block");
            }
            f
        };
        if fault {
            return net_failure(&self.ctx).0;
        }
        let d = self.resp_delay();
        vsleep(d).await;
        self.touch_fault_clock_if_slow(d);
        Reply::Msg(self.block.clone())
    }

    async fn account(self: &Arc<Self>, ep: usize, msg: Bytes) -> Reply {
        let Ok(req) = QueryAccountRequest::decode(msg) else {
            return Reply::Status(Status::invalid_argument("bad QueryAccountRequest"));
        };
        self.ctx.ev("rpc.account", ep as u64, 0);
        vsleep(self.req_delay()).await;
        enum A {
            Ok(u64, u64),
            Net,
            NotFound,
        }
        let a = {
            let mut st = self.st.lock().unwrap();
            if self.take_fault(&mut st, "account.fault", self.plan.p_fault) {
                if self.ctx.choose("account.fault_kind", 2) == 0 {
                    self.fire(&mut st, "net_error_account");
                    A::Net
                } else {
                    self.fire(&mut st, "account_not_found");
                    A::NotFound
                }
            } else {
                A::Ok(st.account_number, st.expected)
            }
        };
        match a {
            A::Net => net_failure(&self.ctx).0,
            A::NotFound => Reply::Status(Status::not_found("account not found")),
            A::Ok(number, seq) => {
                let d = self.resp_delay();
                vsleep(d).await;
                self.touch_fault_clock_if_slow(d);
                {
                    // delivery: the client now believes `seq`
                    let mut st = self.st.lock().unwrap();
                    self.ctx.ev("rpc.account.ok", ep as u64, seq);
                    if st.model.cur.is_empty() {
                        st.model.set_exact(seq);
                    } else {
                        st.model.cur.insert(seq);
                    }
                }
                let acc = RawBaseAccount { address: req.address, pub_key: None, account_number: number, sequence: seq };
                let any = Any { type_url: RawBaseAccount::type_url(), value: acc.encode_to_vec() };
                Reply::Msg(QueryAccountResponse { account: Some(any) }.encode_to_vec())
            }
        }
    }

    async fn estimate_price(self: &Arc<Self>, ep: usize) -> Reply {
        self.ctx.ev("rpc.estimate_price", ep as u64, 0);
        vsleep(self.req_delay()).await;
        let fault = {
            let mut st = self.st.lock().unwrap();
            let f = self.take_fault(&mut st, "price.fault", self.plan.p_fault);
            if f {
                self.fire(&mut st, "net_error_estimate_price");
            }
            f
        };
        if fault {
            return net_failure(&self.ctx).0;
        }
        vsleep(self.ctx.delay("rpc.resp_delay", self.plan.max_delay_ms)).await;
        Reply::Msg(EstimateGasPriceResponse { estimated_gas_price: 0.004 }.encode_to_vec())
    }

    /// Entry of a call of the sign-and-broadcast phase (gas simulation or first broadcast) of
    /// submission `sub`, signed with sequence `seq`: the signed-with-believed-sequence oracle.
    fn phase_call_entry(&self, st: &mut NodeState, sub: usize, seq: u64, what: &'static str) {
        let ctx = &self.ctx;
        ctx.oracle("C43.signed_with_believed_sequence");
        let m = &mut st.model;
        if !m.cur.contains(&seq) {
            let key = if m.last_mismatch.contains_key(&sub) { "after_mismatch" } else { what };
            ctx.violation(
                "C43",
                "signed_with_believed_sequence",
                key,
                format!(
                    "{what} of submission {sub} is signed with sequence {seq}, but the sequences the client may believe current are {:?} (pending roll-backs {:?}, last mismatch answered to this submission {:?})",
                    m.cur, m.pending_rollback, m.last_mismatch.get(&sub)
                ),
            );
        } else {
            if let Some((signed, expected)) = m.last_mismatch.remove(&sub) {
                if seq == expected && signed != expected {
                    ctx.probe("mismatch_resync_happened");
                }
            }
            if m.exact.is_some_and(|e| e != seq) && m.rollback_values.contains(&seq) {
                ctx.probe("rollback_value_used_for_signing");
            }
        }
        // The client holds the account lock with exactly this value until the answer arrives.
        // The check is made at the entry of the call (narrower reading: the belief at the time of
        // the broadcast, not at the time the node processes it).
        m.set_exact(seq);
        if m.started.len() - m.done.len() >= 2 {
            ctx.probe("two_submissions_in_flight");
        }
    }

    async fn estimate_price_usage(self: &Arc<Self>, ep: usize, msg: Bytes) -> Reply {
        let Ok(req) = EstimateGasPriceAndUsageRequest::decode(msg) else {
            return Reply::Status(Status::invalid_argument("bad EstimateGasPriceAndUsageRequest"));
        };
        let Some(tx) = decode_tx(&req.tx_bytes) else {
            unmodelled("undecodable_tx", "estimate".into());
            return Reply::Status(Status::invalid_argument("undecodable tx"));
        };
        let Some(sub) = sub_of_memo(&tx.memo) else {
            unmodelled("unknown_memo", tx.memo.clone());
            return Reply::Status(Status::invalid_argument("unknown memo"));
        };
        // ---- entry
        {
            let mut st = self.st.lock().unwrap();
            self.ctx.ev_with("sim.in", ep as u64, tx.seq, || format!("sub={sub} blob={}", tx.blob));
            if st.model.accepted.contains_key(&sub) {
                unmodelled("simulate_after_accept", format!("sub {sub}"));
            } else {
                self.phase_call_entry(&mut st, sub, tx.seq, "gas_simulation");
            }
        }
        vsleep(self.req_delay()).await;
        // ---- node processing
        enum E {
            Ok,
            Mismatch(u64, Code),
            Net,
            Other(Code),
        }
        let e = {
            let mut st = self.st.lock().unwrap();
            if self.take_fault(&mut st, "sim.fault", self.plan.p_fault) {
                match self.ctx.choose("sim.fault_kind", 3) {
                    0 => {
                        self.fire(&mut st, "net_error_simulate");
                        E::Net
                    }
                    1 => {
                        self.fire(&mut st, "spurious_mismatch_simulate");
                        let n = self.spurious_expected(&mut st, tx.seq);
                        E::Mismatch(n, *self.ctx.pick("sim.mismatch_code", &[Code::InvalidArgument, Code::Unknown]))
                    }
                    _ => {
                        self.fire(&mut st, "simulate_rejected");
                        E::Other(*self.ctx.pick("sim.other_code", &[Code::InvalidArgument, Code::Internal, Code::ResourceExhausted]))
                    }
                }
            } else if tx.seq != st.expected {
                E::Mismatch(st.expected, *self.ctx.pick("sim.mismatch_code", &[Code::InvalidArgument, Code::Unknown]))
            } else {
                E::Ok
            }
        };
        let net_reply = if matches!(e, E::Net) { Some(net_failure(&self.ctx).0) } else { None };
        let d = self.resp_delay();
        vsleep(d).await;
        self.touch_fault_clock_if_slow(d);
        // ---- delivery
        let mut st = self.st.lock().unwrap();
        let m = &mut st.model;
        match e {
            E::Ok => {
                self.ctx.ev("sim.ok", ep as u64, tx.seq);
                m.set_exact(tx.seq);
                m.locked_by = Some(sub);
                Reply::Msg(
                    EstimateGasPriceAndUsageResponse { estimated_gas_price: 0.004, estimated_gas_used: 90_000 }
                        .encode_to_vec(),
                )
            }
            E::Mismatch(n, code) => {
                self.ctx.ev_with("sim.mismatch", ep as u64, n, || format!("code={code:?} got={}", tx.seq));
                m.last_mismatch.insert(sub, (tx.seq, n));
                let status_is_network = matches!(code, Code::Unknown);
                if status_is_network {
                    // The failover loop treats this status as a network error and tries the next
                    // endpoint with the same request; only the last error is inspected for the
                    // mismatch pattern. Both the old and the announced value stay possible.
                    m.set_exact(tx.seq);
                    m.cur.insert(n);
                    m.unlock();
                } else {
                    m.set_exact(n);
                    m.locked_by = Some(sub);
                }
                Reply::Status(Status::new(code, mismatch_msg(n, tx.seq)))
            }
            E::Net => {
                self.ctx.ev("sim.net_error", ep as u64, tx.seq);
                m.set_exact(tx.seq);
                m.unlock();
                net_reply.unwrap_or(Reply::Drop("connection reset by peer"))
            }
            E::Other(code) => {
                self.ctx.ev_with("sim.rejected", ep as u64, tx.seq, || format!("{code:?}"));
                m.set_exact(tx.seq);
                m.unlock();
                Reply::Status(Status::new(code, "simulation failed"))
            }
        }
    }

    /// A spurious "expected" value announced by the node; it becomes the node's expectation.
    fn spurious_expected(&self, st: &mut NodeState, signed: u64) -> u64 {
        let n = match self.ctx.choose("mismatch.value", 6) {
            0 => st.expected + 1,
            1 => st.expected + 2,
            2 => st.expected.saturating_sub(1),
            3 => signed,
            4 => st.expected + 1000,
            _ => 0,
        };
        st.expected = n;
        n
    }

    async fn broadcast(self: &Arc<Self>, ep: usize, msg: Bytes) -> Reply {
        let ctx = &self.ctx;
        let Ok(req) = BroadcastTxRequest::decode(msg) else {
            return Reply::Status(Status::invalid_argument("bad BroadcastTxRequest"));
        };
        let Some(tx) = decode_tx(&req.tx_bytes) else {
            unmodelled("undecodable_tx", "broadcast".into());
            return Reply::Status(Status::invalid_argument("undecodable tx"));
        };
        let sub = sub_of_memo(&tx.memo);
        if sub.is_none() {
            unmodelled("unknown_memo", tx.memo.clone());
        }
        // ---- entry: log + oracles
        let rebroadcast = {
            let mut st = self.st.lock().unwrap();
            ctx.ev_with("bcast.in", ep as u64, tx.seq, || {
                format!("sub={sub:?} hash={} len={} blob={}", &tx.hash[..12], req.tx_bytes.len(), tx.blob)
            });
            ctx.hash_bytes(&req.tx_bytes);
            let at_ms = ctx.now_ms();
            st.bcast_log.push(BroadcastRec {
                at_ms,
                ep,
                seq: tx.seq,
                hash: tx.hash.clone(),
                bytes: req.tx_bytes.clone(),
                sub,
            });
            match sub {
                Some(i) if st.model.accepted.contains_key(&i) => {
                    // Submission i is in its confirmation phase: the only broadcast it may make is
                    // the re-broadcast of the accepted bytes.
                    let evicted = st.model.evicted_reported.contains(&i);
                    let acc = &st.model.accepted[&i];
                    if evicted {
                        // Narrower reading: judged only once EVICTED has been reported for this
                        // transaction (the statement speaks about evicted transactions; a
                        // re-broadcast after UNKNOWN alone is not judged).
                        ctx.oracle("C43.evicted_rebroadcast_identical");
                        if acc.bytes != req.tx_bytes {
                            let key = if acc.seq != tx.seq { "resigned_new_sequence" } else { "resigned_same_sequence" };
                            ctx.violation(
                                "C43",
                                "evicted_rebroadcast_identical",
                                key,
                                format!(
                                    "submission {i}: after EVICTED the client broadcast {} bytes signed with sequence {} (hash {}), not the accepted transaction ({} bytes, sequence {})",
                                    req.tx_bytes.len(), tx.seq, &tx.hash[..12], acc.bytes.len(), acc.seq
                                ),
                            );
                        } else {
                            ctx.probe("eviction_rebroadcast_happened");
                        }
                    }
                    true
                }
                Some(i) => {
                    self.phase_call_entry(&mut st, i, tx.seq, "broadcast");
                    false
                }
                None => false,
            }
        };
        if self.over_cap() {
            return Reply::Status(Status::failed_precondition("fake node: call cap reached"));
        }
        vsleep(self.req_delay()).await;
        // ---- node processing
        enum Out {
            Answer(BAnswer),
            /// processed by the node, answer lost on the way back
            Lost,
            Net,
        }
        let out = {
            let mut st = self.st.lock().unwrap();
            if self.take_fault(&mut st, "bcast.fault", self.plan.p_fault) {
                match ctx.choose("bcast.fault_kind", 5) {
                    0 => {
                        let a = self.honest_broadcast(&mut st, &tx, sub);
                        self.fire(&mut st, "response_lost_after_processing");
                        if matches!(a, BAnswer::Accepted) && !rebroadcast {
                            ctx.probe("response_lost_after_acceptance");
                        }
                        Out::Lost
                    }
                    1 => {
                        self.fire(&mut st, "net_error_broadcast");
                        Out::Net
                    }
                    2 => {
                        self.fire(&mut st, "spurious_mismatch_broadcast");
                        let n = self.spurious_expected(&mut st, tx.seq);
                        Out::Answer(BAnswer::Mismatch { expected: n, code: *ctx.pick("bcast.mismatch_code", &[32u32, 3]) })
                    }
                    3 => {
                        self.fire(&mut st, "broadcast_rejected");
                        Out::Answer(BAnswer::Rejected { code: *ctx.pick("bcast.reject_code", &[13u32, 11, 20, 5, 21]) })
                    }
                    _ => {
                        // admitted, but the node answers "already in mempool cache"
                        self.fire(&mut st, "spurious_cache_hit");
                        match self.honest_broadcast(&mut st, &tx, sub) {
                            BAnswer::Accepted | BAnswer::CacheHit => Out::Answer(BAnswer::CacheHit),
                            other => Out::Answer(other),
                        }
                    }
                }
            } else {
                Out::Answer(self.honest_broadcast(&mut st, &tx, sub))
            }
        };
        let net_reply = match &out {
            Out::Answer(_) => None,
            _ => Some(net_failure(ctx).0),
        };
        let d = self.resp_delay();
        vsleep(d).await;
        self.touch_fault_clock_if_slow(d);
        // ---- delivery
        let mut st = self.st.lock().unwrap();
        match out {
            Out::Answer(a) => {
                ctx.ev_with("bcast.out", ep as u64, tx.seq, || format!("{a:?} sub={sub:?}"));
                if let (Some(i), false) = (sub, rebroadcast) {
                    let m = &mut st.model;
                    match &a {
                        BAnswer::Accepted | BAnswer::CacheHit => {
                            // +1 on an accepted broadcast or a mempool-cache hit
                            m.set_exact(tx.seq + 1);
                            m.accepted.insert(i, Accepted { bytes: req.tx_bytes.clone(), seq: tx.seq });
                            m.unlock();
                        }
                        BAnswer::Mismatch { expected, .. } => {
                            // := expected; the client keeps the lock, re-signs and re-broadcasts
                            m.set_exact(*expected);
                            m.last_mismatch.insert(i, (tx.seq, *expected));
                            m.locked_by = Some(i);
                        }
                        BAnswer::Rejected { .. } => {
                            m.set_exact(tx.seq);
                            m.unlock();
                        }
                    }
                }
                let (code, log) = match &a {
                    BAnswer::Accepted => (0u32, String::new()),
                    BAnswer::CacheHit => (19, "tx already in mempool cache".to_string()),
                    BAnswer::Mismatch { expected, code } => (*code, mismatch_msg(*expected, tx.seq)),
                    BAnswer::Rejected { code } => (*code, format!("rejected with code {code}")),
                };
                let resp = RawTxResponse {
                    txhash: tx.hash.clone(),
                    codespace: if code == 0 { String::new() } else { "sdk".into() },
                    code,
                    raw_log: log,
                    ..Default::default()
                };
                Reply::Msg(BroadcastTxResponse { tx_response: Some(resp) }.encode_to_vec())
            }
            Out::Lost | Out::Net => {
                ctx.ev_with("bcast.net_error", ep as u64, tx.seq, || {
                    format!("processed={} sub={sub:?}", matches!(out, Out::Lost))
                });
                if let (Some(_), false) = (sub, rebroadcast) {
                    // the client's sequence is untouched; it may fail over to the next endpoint
                    // (same bytes) or give up and release the lock
                    st.model.set_exact(tx.seq);
                    st.model.unlock();
                }
                net_reply.unwrap_or(Reply::Drop("connection reset by peer"))
            }
        }
    }

    async fn tx_status(self: &Arc<Self>, ep: usize, msg: Bytes) -> Reply {
        let ctx = &self.ctx;
        let Ok(req) = TxStatusRequest::decode(msg) else {
            return Reply::Status(Status::invalid_argument("bad TxStatusRequest"));
        };
        let id = req.tx_id.to_uppercase();
        ctx.ev_with("status.in", ep as u64, 0, || id[..id.len().min(12)].to_string());
        if self.over_cap() {
            return Reply::Status(Status::failed_precondition("fake node: call cap reached"));
        }
        vsleep(self.req_delay()).await;
        enum S {
            Net,
            Status { status: &'static str, code: u32, height: i64, sub: Option<usize>, seq: u64 },
        }
        let s = {
            let mut st = self.st.lock().unwrap();
            if self.take_fault(&mut st, "status.fault", self.plan.p_fault) {
                if ctx.choose("status.fault_kind", 3) < 2 {
                    self.fire(&mut st, "net_error_tx_status");
                    S::Net
                } else {
                    self.fire(&mut st, "spurious_unknown_status");
                    let (sub, seq) = st.table.get(&id).map(|e| (e.sub, e.seq)).unwrap_or((None, 0));
                    S::Status { status: "UNKNOWN", code: 0, height: 0, sub, seq }
                }
            } else {
                let height = st.height;
                let mut rolled_back: Option<u64> = None;
                let mut fired: Option<&'static str> = None;
                let s = match st.table.get_mut(&id) {
                    None => S::Status { status: "UNKNOWN", code: 0, height: 0, sub: None, seq: 0 },
                    Some(e) => {
                        if let TxState::Pending { polls_left, then } = e.state {
                            if polls_left > 0 {
                                e.state = TxState::Pending { polls_left: polls_left - 1, then };
                            } else {
                                e.state = match then {
                                    Final::Committed { code } => {
                                        if code != 0 {
                                            fired = Some("execution_failed");
                                        }
                                        TxState::Committed { code, height: height + 1 }
                                    }
                                    Final::Rejected { code } => {
                                        fired = Some(if code == 32 { "rejected_wrong_sequence" } else { "rejected_at_block" });
                                        if code != 32 && code != 3 {
                                            rolled_back = Some(e.seq);
                                        }
                                        TxState::Rejected { code }
                                    }
                                    Final::Evicted => {
                                        fired = Some("evicted");
                                        TxState::Evicted
                                    }
                                };
                            }
                        }
                        let (status, code, h) = match e.state {
                            TxState::Pending { .. } => ("PENDING", 0, 0),
                            TxState::Committed { code, height } => ("COMMITTED", code, height),
                            TxState::Rejected { code } => ("REJECTED", code, 0),
                            TxState::Evicted => ("EVICTED", 0, 0),
                        };
                        S::Status { status, code, height: h, sub: e.sub, seq: e.seq }
                    }
                };
                if matches!(s, S::Status { status: "COMMITTED", .. }) {
                    st.height += 1;
                }
                if let Some(k) = fired {
                    self.fire(&mut st, k);
                }
                if let Some(t) = rolled_back {
                    // the rejected transaction did not consume its sequence: the node expects it
                    // again and every later pending transaction fails with a sequence mismatch
                    st.expected = st.expected.min(t);
                    for e in st.table.values_mut() {
                        if let TxState::Pending { polls_left, .. } = e.state {
                            if e.seq > t {
                                e.state = TxState::Pending { polls_left, then: Final::Rejected { code: 32 } };
                            }
                        }
                    }
                }
                s
            }
        };
        let net_reply = if matches!(s, S::Net) { Some(net_failure(ctx).0) } else { None };
        let d = self.resp_delay();
        vsleep(d).await;
        self.touch_fault_clock_if_slow(d);
        // ---- delivery
        let mut st = self.st.lock().unwrap();
        match s {
            S::Net => {
                ctx.ev("status.net_error", ep as u64, 0);
                net_reply.unwrap_or(Reply::Drop("connection reset by peer"))
            }
            S::Status { status, code, height, sub, seq } => {
                ctx.ev_with("status.out", ep as u64, code as u64, || format!("{status} sub={sub:?} seq={seq}"));
                if let Some(i) = sub {
                    let m = &mut st.model;
                    match status {
                        "REJECTED" if code != 32 && code != 3 => {
                            // := the rejected transaction's sequence, applied whenever the client
                            // gets the account lock (before it returns)
                            let t = m.accepted.get(&i).map(|a| a.seq).unwrap_or(seq);
                            m.pending_rollback.insert(i, t);
                            m.rollback_values.insert(t);
                            if m.locked_by.is_none() {
                                m.cur.insert(t);
                            }
                            ctx.probe("rejection_rollback_allowed");
                        }
                        "EVICTED" => {
                            m.evicted_reported.insert(i);
                        }
                        _ => {}
                    }
                }
                Reply::Msg(
                    TxStatusResponse {
                        height,
                        index: 0,
                        execution_code: code,
                        error: if code == 0 { String::new() } else { format!("code {code}") },
                        status: status.to_string(),
                    }
                    .encode_to_vec(),
                )
            }
        }
    }

    fn sub_started(&self, i: usize) {
        let mut st = self.st.lock().unwrap();
        st.model.started.insert(i);
        self.ctx.ev("sub.start", i as u64, 0);
    }

    fn sub_done(&self, i: usize, ok: bool, text: String) {
        let mut st = self.st.lock().unwrap();
        self.ctx.ev_with("sub.done", i as u64, ok as u64, || text);
        let m = &mut st.model;
        m.done.insert(i);
        // its roll-back (if any) has been applied by now: it stays possible as a current value
        // but can no longer be applied later
        if let Some(t) = m.pending_rollback.remove(&i) {
            m.cur.insert(t);
        }
        m.last_mismatch.remove(&i);
        if m.locked_by == Some(i) {
            m.unlock();
        }
    }
}

impl NodeBehaviour for SeqNode {
    fn handle(self: Arc<Self>, ep: usize, path: String, _headers: http::HeaderMap, msg: Bytes) -> ReplyFut {
        Box::pin(async move {
            match path.as_str() {
                P_LATEST_BLOCK => self.latest_block(ep).await,
                P_ACCOUNT => self.account(ep, msg).await,
                P_EST_PRICE => self.estimate_price(ep).await,
                P_EST_PRICE_USAGE => self.estimate_price_usage(ep, msg).await,
                P_BROADCAST => self.broadcast(ep, msg).await,
                P_TX_STATUS => self.tx_status(ep, msg).await,
                other => {
                    self.ctx.ev_with("rpc.unimplemented", ep as u64, 0, || other.to_string());
                    unmodelled("unimplemented_path", other.to_string());
                    Reply::Status(Status::unimplemented("fake node: method not implemented"))
                }
            }
        })
    }
}

#[derive(Clone)]
struct SubPlan {
    blob: bool,
    gas_limit: Option<u64>,
    gas_price: Option<f64>,
    start_ms: u64,
    interval_ms: u64,
    blob_len: usize,
}

/// Virtual seconds every submission is given to return after the last fault fired (and after it
/// was started). An undisturbed submission needs a handful of calls (<= 0.6 s each with the
/// largest delays) and at most 4 confirmation polls of 0.5 s; 5 submissions may queue on the
/// account lock.
const RETURN_BOUND_MS: u64 = 300_000;

async fn run_sequence(ctx: &Arc<RunCtx>) {
    // ---- sizes and fault plan, up front
    let n_ep = 1 + ctx.choose("endpoints", 3) as usize;
    let k = 1 + ctx.choose("submissions", 5) as usize;
    let seq0 = match ctx.choose("seq0.class", 3) {
        0 => 0,
        1 => ctx.range("seq0", 1, 60),
        _ => (1u64 << 40) + ctx.range("seq0", 0, 1000),
    };
    let budget = ctx.range("fault.budget", 0, 10);
    let plan = FaultPlan {
        p_fault: if budget == 0 { 0 } else { *ctx.pick("fault.p", &[60u32, 150, 350, 700]) },
        p_final_fault: if budget == 0 { 0 } else { *ctx.pick("fault.p_final", &[100u32, 300, 600]) },
        max_delay_ms: *ctx.pick("delay.max_ms", &[0u32, 5, 60, 300]),
        slow_ms: *ctx.pick("delay.slow_ms", &[0u32, 5_000, 45_000]),
    };
    let mut subs = Vec::with_capacity(k);
    for _ in 0..k {
        ctx.begin_span("sub");
        let blob = ctx.coin("sub.blob", 300);
        let gas_limit = if ctx.coin("sub.estimate_gas", 500) { None } else { Some(200_000) };
        let gas_price = if ctx.coin("sub.estimate_price", 400) { None } else { Some(0.004) };
        let start_ms = match ctx.choose("sub.start_class", 3) {
            0 => 0,
            1 => ctx.range("sub.start_ms", 0, 50),
            _ => ctx.range("sub.start_ms", 0, 12_000),
        };
        let interval_ms = *ctx.pick("sub.confirm_interval_ms", &[500u64, 50, 3000]);
        let blob_len = 1 + ctx.choose("sub.blob_len", 600) as usize;
        ctx.end_span();
        subs.push(SubPlan { blob, gas_limit, gas_price, start_ms, interval_ms, blob_len });
    }

    let node = Arc::new(SeqNode {
        ctx: ctx.clone(),
        st: Mutex::new(NodeState {
            account_number: 7,
            expected: seq0,
            table: BTreeMap::new(),
            bcast_log: Vec::new(),
            calls: 0,
            budget,
            last_fault_ms: 0,
            height: 10,
            model: Model::default(),
            cap_hit: false,
        }),
        plan,
        block: latest_block_response(),
    });
    let mut builder = GrpcClient::builder();
    for idx in 0..n_ep {
        builder = builder.transport(FakeNode { idx, behaviour: node.clone() });
    }
    let client = builder.private_key(&PRIV_KEY).build().expect("client builds");
    let address = client.get_account_address().expect("signer set").to_string();
    ctx.ev_with("setup", n_ep as u64, k as u64, || format!("seq0={seq0} budget={budget}"));

    // ---- workload
    let mut handles = Vec::new();
    let mut last_start_ms = 0;
    for (i, p) in subs.iter().cloned().enumerate() {
        last_start_ms = last_start_ms.max(p.start_ms);
        let client = client.clone();
        let node = node.clone();
        let address = address.clone();
        handles.push(tokio::spawn(async move {
            vsleep(Duration::from_millis(p.start_ms)).await;
            node.sub_started(i);
            let mut cfg = TxConfig::default()
                .with_memo(format!("sub-{i}"))
                .with_confirmation_interval_ms(p.interval_ms);
            if let Some(g) = p.gas_limit {
                cfg = cfg.with_gas_limit(g);
            }
            if let Some(g) = p.gas_price {
                cfg = cfg.with_gas_price(g);
            }
            let r = if p.blob {
                let ns = Namespace::new_v0(&[b's', b'i', b'm', i as u8]).expect("namespace");
                let data: Vec<u8> = (0..p.blob_len).map(|b| (b as u8) ^ (i as u8)).collect();
                match Blob::new(ns, data, None, AppVersion::V3) {
                    Ok(blob) => client.submit_blobs(&[blob], cfg).await,
                    Err(e) => Err(e.into()),
                }
            } else {
                let msg = MsgSend {
                    from_address: address,
                    to_address: OTHER_ADDRESS.to_string(),
                    amount: vec![Coin::utia(1000 + i as u64).into()],
                };
                client.submit_message(msg, cfg).await
            };
            let text = match &r {
                Ok(info) => format!("Ok height={}", info.height),
                Err(e) => format!("Err {e}"),
            };
            node.sub_done(i, r.is_ok(), text);
            r.is_ok()
        }));
    }

    // ---- wait: every submission returns within RETURN_BOUND_MS after the last fault
    let mut timed_out = false;
    loop {
        if handles.iter().all(|h| h.is_finished()) || has_findings(ctx) || ctx.over_step_cap() {
            break;
        }
        let (last_fault_ms, cap_hit) = {
            let st = node.st.lock().unwrap();
            (st.last_fault_ms, st.cap_hit)
        };
        if cap_hit {
            break;
        }
        if ctx.now_ms() > last_fault_ms.max(last_start_ms) + RETURN_BOUND_MS {
            timed_out = true;
            break;
        }
        tokio::time::sleep(Duration::from_millis(1000)).await;
    }
    let cap_hit = node.st.lock().unwrap().cap_hit;
    if !has_findings(ctx) && !cap_hit && !ctx.over_step_cap() {
        ctx.oracle("C43.every_submission_returns");
        if timed_out {
            let st = node.st.lock().unwrap();
            let open: Vec<usize> = (0..k).filter(|i| !st.model.done.contains(i)).collect();
            ctx.violation(
                "C43",
                "every_submission_returns",
                "hang_after_faults_stop",
                format!(
                    "submissions {open:?} have not returned {} virtual s after the last fault (t={} ms) and after they were started; broadcasts so far {}, fault budget left {}",
                    RETURN_BOUND_MS / 1000, st.last_fault_ms, st.bcast_log.len(), st.budget
                ),
            );
        }
    }
    let mut ok_count = 0u64;
    for h in &handles {
        h.abort();
    }
    for (i, h) in handles.into_iter().enumerate() {
        match h.await {
            Ok(true) => ok_count += 1,
            Ok(false) => {}
            Err(e) if e.is_panic() => {
                let panics = ctx.panics.lock().unwrap().clone();
                if let Some(p) = panics.iter().find(|p| !is_harness_location(&p.location)) {
                    ctx.oracle("C43.every_submission_returns");
                    ctx.violation(
                        "C43",
                        "every_submission_returns",
                        "panic",
                        format!("submission {i} panicked at {}: {}", p.location, p.message),
                    );
                }
            }
            Err(_) => {}
        }
    }
    if ok_count > 0 {
        ctx.probe("submission_confirmed_ok");
    }
    if ok_count as usize == k {
        ctx.probe("all_submissions_ok");
    }
    {
        let st = node.st.lock().unwrap();
        ctx.ev("end", st.bcast_log.len() as u64, ok_count);
        let seqs: BTreeSet<u64> = st.bcast_log.iter().map(|b| b.seq).collect();
        if seqs.len() >= 3 {
            ctx.probe("three_distinct_sequences_broadcast");
        }
        if st.bcast_log.iter().any(|b| b.sub.is_some() && b.at_ms > 0 && b.ep > 0) {
            ctx.probe("broadcast_on_fallback_endpoint");
        }
        // same hash <=> same bytes over the whole broadcast log (sanity of the node's own table)
        let mut by_hash: BTreeMap<&str, &[u8]> = BTreeMap::new();
        for b in &st.bcast_log {
            if let Some(prev) = by_hash.insert(b.hash.as_str(), b.bytes.as_slice()) {
                if b.bytes.as_slice() != prev {
                    unmodelled("hash_collision", b.hash.clone());
                }
            }
        }
    }
}

// ======================================================================================
// C44: grpc.failover
// ======================================================================================

pub struct FailoverWorld;

impl World for FailoverWorld {
    fn name(&self) -> &'static str {
        "grpc.failover"
    }
    fn run<'a>(&'a self, ctx: &'a Arc<RunCtx>) -> WorldFut<'a> {
        Box::pin(run_failover(ctx))
    }
    fn vtime_cap(&self) -> Duration {
        Duration::from_secs(3600 * 6)
    }
}

#[derive(Clone, Copy, Debug, PartialEq, Eq)]
enum AttemptOutcome {
    Success,
    Network,
    NonNetwork,
}

#[derive(Default)]
struct CallRec {
    attempts: Vec<(usize, AttemptOutcome)>,
    /// set when the call started while another one was in flight, or another one started while
    /// this one was in flight
    overlapped: bool,
    /// the endpoint this call must try first (narrow "next call" rule), if judged
    expect_first: Option<usize>,
    /// not judged: the endpoint of the most recent successful call when that call overlapped
    /// another one (observation for the report)
    observe_first: Option<usize>,
    ended: bool,
}

#[derive(Default)]
struct FoState {
    calls: BTreeMap<String, CallRec>,
    in_flight: BTreeSet<String>,
    /// Some(e): the most recent call to end did so with Ok via endpoint e and overlapped no other
    /// call; cleared by the end of any other call
    isolated_success: Option<usize>,
    /// endpoint of the most recent call that ended with Ok (overlapping or not); None after an Err
    last_success_any: Option<usize>,
    /// sweep mode: every attempt fails with a network error
    sweep: bool,
}

struct EndpointProfile {
    p_net: u32,
    p_nonnet: u32,
    p_slow: u32,
}

struct FoNet {
    ctx: Arc<RunCtx>,
    n: usize,
    profiles: Vec<EndpointProfile>,
    max_delay_ms: u32,
    st: Mutex<FoState>,
}

impl FoNet {
    fn call_started(&self, id: &str) {
        let mut st = self.st.lock().unwrap();
        let mut rec = CallRec::default();
        if st.in_flight.is_empty() {
            // Narrower reading of "the endpoint that succeeds becomes the first one tried next":
            // judged only for the call that immediately follows a successful call which
            // overlapped no other call, and which itself starts with nothing in flight. Under
            // overlapping calls the stored order is "last store wins" and the statement is silent.
            rec.expect_first = st.isolated_success;
            if rec.expect_first.is_none() {
                rec.observe_first = st.last_success_any;
            }
        } else {
            rec.overlapped = true;
            let ids: Vec<String> = st.in_flight.iter().cloned().collect();
            for other in ids {
                if let Some(o) = st.calls.get_mut(&other) {
                    o.overlapped = true;
                }
            }
            self.ctx.probe("concurrent_calls_overlapped");
        }
        st.in_flight.insert(id.to_string());
        st.calls.insert(id.to_string(), rec);
        self.ctx.ev_with("call.start", 0, 0, || id.to_string());
    }

    /// Oracle at the end of a call.
    fn call_ended(&self, id: &str, result: Result<(), String>) {
        let ctx = &self.ctx;
        let mut st = self.st.lock().unwrap();
        st.in_flight.remove(id);
        ctx.ev_with("call.end", result.is_ok() as u64, 0, || format!("{id} {result:?}"));
        let n = self.n;
        let Some(rec) = st.calls.get_mut(id) else { return };
        rec.ended = true;
        let attempts = rec.attempts.clone();
        let overlapped = rec.overlapped;
        let tried: BTreeSet<usize> = attempts.iter().map(|a| a.0).collect();
        let desc = || format!("call {id}: attempts (endpoint, outcome) {attempts:?}, {n} endpoints configured");
        match &result {
            Err(e) => {
                ctx.oracle("C44.error_only_after_all_network_or_one_non_network");
                let any_non_network = attempts.iter().any(|a| a.1 == AttemptOutcome::NonNetwork);
                let any_success = attempts.iter().any(|a| a.1 == AttemptOutcome::Success);
                if any_success {
                    ctx.violation("C44", "error_only_after_all_network_or_one_non_network", "error_despite_success",
                        format!("returned Err({e}) although an endpoint answered successfully; {}", desc()));
                } else if !any_non_network && tried.len() < n {
                    ctx.violation("C44", "error_only_after_all_network_or_one_non_network", "not_all_endpoints_tried",
                        format!("returned Err({e}) after network errors on endpoints {tried:?} only; {}", desc()));
                } else if !any_non_network {
                    ctx.probe("all_endpoints_failed_over");
                } else {
                    ctx.probe("non_network_error_returned");
                }
                st.isolated_success = None;
                st.last_success_any = None;
            }
            Ok(()) => {
                let last = attempts.last().copied();
                if attempts.len() >= 2 {
                    ctx.probe("succeeded_after_failover");
                }
                st.isolated_success = match last {
                    Some((e, AttemptOutcome::Success)) if !overlapped => Some(e),
                    _ => None,
                };
                st.last_success_any = match last {
                    Some((e, AttemptOutcome::Success)) => Some(e),
                    _ => None,
                };
                if overlapped {
                    if let Some((e, AttemptOutcome::Success)) = last {
                        // observation only (not judged): with overlapping calls the endpoint of
                        // the call that finished last is not necessarily first in the stored list
                        ctx.ev("call.overlapped_success", e as u64, 0);
                    }
                }
            }
        }
    }
}

impl NodeBehaviour for FoNet {
    fn handle(self: Arc<Self>, ep: usize, path: String, headers: http::HeaderMap, _msg: Bytes) -> ReplyFut {
        Box::pin(async move {
            let ctx = &self.ctx;
            let id = headers.get("x-call").and_then(|v| v.to_str().ok()).unwrap_or("?").to_string();
            // ---- attempt-time oracles
            let (sweep, known) = {
                let mut st = self.st.lock().unwrap();
                let sweep = st.sweep;
                ctx.ev_with("attempt", ep as u64, 0, || id.clone());
                let n = self.n;
                match st.calls.get_mut(&id) {
                    None => (sweep, false),
                    Some(rec) => {
                        ctx.oracle("C44.each_endpoint_at_most_once");
                        if rec.attempts.iter().any(|a| a.0 == ep) {
                            ctx.violation("C44", "each_endpoint_at_most_once", "endpoint_retried",
                                format!("call {id} tries endpoint {ep} again; attempts so far {:?}", rec.attempts));
                        }
                        if rec.attempts.len() >= n {
                            ctx.violation("C44", "each_endpoint_at_most_once", "more_attempts_than_endpoints",
                                format!("call {id} makes attempt {} with {n} endpoints configured", rec.attempts.len() + 1));
                        }
                        ctx.oracle("C44.stops_after_final_answer");
                        if let Some((e, o)) = rec.attempts.iter().find(|a| a.1 != AttemptOutcome::Network) {
                            let key = if *o == AttemptOutcome::NonNetwork { "continued_after_non_network_error" } else { "continued_after_success" };
                            ctx.violation("C44", "stops_after_final_answer", key,
                                format!("call {id} tries endpoint {ep} although endpoint {e} already answered {o:?}; attempts {:?}", rec.attempts));
                        }
                        if rec.ended {
                            ctx.violation("C44", "stops_after_final_answer", "attempt_after_return",
                                format!("call {id} tries endpoint {ep} after it returned"));
                        }
                        if rec.attempts.is_empty() {
                            if rec.observe_first.is_some_and(|e| e != ep) {
                                // Not a violation under the narrow reading: the call that ended
                                // last (successfully) overlapped another call, and the stored
                                // order is that of the last *store*, not of the last success.
                                ctx.probe("observed_stale_first_endpoint_after_overlapping_calls");
                            }
                            if let Some(want) = rec.expect_first {
                                ctx.oracle("C44.last_successful_endpoint_first");
                                if want != ep {
                                    ctx.violation("C44", "last_successful_endpoint_first", "isolated_next_call",
                                        format!("call {id} started with no call in flight right after an isolated call succeeded on endpoint {want}, but tries endpoint {ep} first"));
                                } else if want != 0 {
                                    ctx.probe("rotated_endpoint_tried_first");
                                }
                            }
                        }
                        (sweep, true)
                    }
                }
            };
            if !known {
                unmodelled("unknown_call", id.clone());
            }
            // ---- outcome
            let prof = &self.profiles[ep];
            let kind = if sweep {
                1
            } else if ctx.coin("ep.net", prof.p_net) {
                1
            } else if ctx.coin("ep.nonnet", prof.p_nonnet) {
                2
            } else {
                0
            };
            let slow = !sweep && ctx.coin("ep.slow", prof.p_slow);
            let delay = if slow {
                ctx.fault("slow_endpoint");
                Duration::from_millis(ctx.range("ep.slow_ms", 500, 40_000))
            } else {
                ctx.delay("ep.delay", self.max_delay_ms)
            };
            let (reply, outcome) = match kind {
                1 => {
                    let (r, k) = net_failure(ctx);
                    ctx.fault(k);
                    (r, AttemptOutcome::Network)
                }
                2 => {
                    ctx.fault("non_network_status");
                    let code = *ctx.pick("ep.nonnet_code", &NON_NETWORK_CODES);
                    (Reply::Status(Status::new(code, "non-network failure")), AttemptOutcome::NonNetwork)
                }
                _ => {
                    let msg = match path.as_str() {
                        P_AUTH_PARAMS => QueryAuthParamsResponse {
                            params: Some(RawAuthParams {
                                max_memo_characters: 256,
                                tx_sig_limit: 7,
                                tx_size_cost_per_byte: 10,
                                sig_verify_cost_ed25519: 590,
                                sig_verify_cost_secp256k1: 1000,
                            }),
                        }
                        .encode_to_vec(),
                        P_EST_PRICE => EstimateGasPriceResponse { estimated_gas_price: 0.004 }.encode_to_vec(),
                        P_NODE_CONFIG => RawConfigResponse {
                            minimum_gas_price: "0.002utia".into(),
                            pruning_keep_recent: "100".into(),
                            pruning_interval: "10".into(),
                            halt_height: 0,
                        }
                        .encode_to_vec(),
                        other => {
                            unmodelled("unimplemented_path", other.to_string());
                            Vec::new()
                        }
                    };
                    (Reply::Msg(msg), AttemptOutcome::Success)
                }
            };
            // The outcome is recorded when the node decides it (before the response delay): from
            // this point on the attempt can only end in this way.
            {
                let mut st = self.st.lock().unwrap();
                if let Some(rec) = st.calls.get_mut(&id) {
                    rec.attempts.push((ep, outcome));
                }
                ctx.ev_with("attempt.outcome", ep as u64, outcome as u64, || format!("{id} {outcome:?} delay={}ms", delay.as_millis()));
            }
            vsleep(delay).await;
            reply
        })
    }
}

async fn one_call(client: &GrpcClient, net: &Arc<FoNet>, id: &str, method: u32) {
    net.call_started(id);
    let result: Result<(), String> = match method {
        0 => match client.get_auth_params().metadata("x-call", id) {
            Ok(c) => c.await.map(|_| ()).map_err(|e| e.to_string()),
            Err(e) => Err(format!("metadata: {e}")),
        },
        1 => match client.estimate_gas_price(Default::default()).metadata("x-call", id) {
            Ok(c) => c.await.map(|_| ()).map_err(|e| e.to_string()),
            Err(e) => Err(format!("metadata: {e}")),
        },
        _ => match client.get_node_config().metadata("x-call", id) {
            Ok(c) => c.await.map(|_| ()).map_err(|e| e.to_string()),
            Err(e) => Err(format!("metadata: {e}")),
        },
    };
    net.call_ended(id, result);
}

async fn run_failover(ctx: &Arc<RunCtx>) {
    let n = 1 + ctx.choose("endpoints", 5) as usize;
    let callers = 1 + ctx.choose("callers", 4) as usize;
    let max_delay_ms = *ctx.pick("delay.max_ms", &[0u32, 10, 200]);
    let mut profiles = Vec::new();
    for _ in 0..n {
        // 0: healthy, 1: flaky, 2: dead, 3: answers with non-network errors, 4: mixed and slow
        let (p_net, p_nonnet, p_slow) = match ctx.choose("ep.profile", 5) {
            0 => (0, 0, 0),
            1 => (ctx.range("ep.p_net", 100, 700) as u32, 0, 50),
            2 => (1000, 0, 0),
            3 => (ctx.range("ep.p_net", 0, 500) as u32, ctx.range("ep.p_nonnet", 100, 600) as u32, 0),
            _ => (ctx.range("ep.p_net", 0, 800) as u32, ctx.range("ep.p_nonnet", 0, 200) as u32, 300),
        };
        profiles.push(EndpointProfile { p_net, p_nonnet, p_slow });
    }
    struct CallPlan {
        gap_ms: u64,
        method: u32,
    }
    let mut plans: Vec<Vec<CallPlan>> = Vec::new();
    for _ in 0..callers {
        let calls = 1 + ctx.choose("caller.calls", 5) as usize;
        let mut v = Vec::new();
        for _ in 0..calls {
            ctx.begin_span("call");
            let gap_ms = match ctx.choose("call.gap_class", 3) {
                0 => 0,
                1 => ctx.range("call.gap_ms", 0, 300),
                _ => ctx.range("call.gap_ms", 0, 60_000),
            };
            let method = ctx.choose("call.method", 3);
            ctx.end_span();
            v.push(CallPlan { gap_ms, method });
        }
        plans.push(v);
    }
    let net = Arc::new(FoNet {
        ctx: ctx.clone(),
        n,
        profiles,
        max_delay_ms,
        st: Mutex::new(FoState::default()),
    });
    let mut builder = GrpcClient::builder();
    for idx in 0..n {
        builder = builder.transport(FakeNode { idx, behaviour: net.clone() });
    }
    let client = builder.build().expect("client builds");
    ctx.ev("setup", n as u64, callers as u64);

    let mut handles = Vec::new();
    for (c, plan) in plans.into_iter().enumerate() {
        let client = client.clone();
        let net = net.clone();
        handles.push(tokio::spawn(async move {
            for (k, p) in plan.iter().enumerate() {
                vsleep(Duration::from_millis(p.gap_ms)).await;
                let id = format!("c{c}-k{k}");
                one_call(&client, &net, &id, p.method).await;
                if has_findings(&net.ctx) {
                    break;
                }
            }
        }));
    }
    for h in handles {
        if let Err(e) = h.await {
            if e.is_panic() {
                ctx.probe("caller_task_panicked");
            }
        }
    }
    if has_findings(ctx) {
        return;
    }
    // ---- sweep: with nothing in flight, a call on which every endpoint fails with a network
    // error must try exactly the configured set (the list neither shrank nor grew under the
    // concurrent calls above), and returns Err.
    net.st.lock().unwrap().sweep = true;
    for s in 0..2 {
        let id = format!("sweep-{s}");
        one_call(&client, &net, &id, 0).await;
        let st = net.st.lock().unwrap();
        ctx.oracle("C44.endpoint_set_unchanged");
        let tried: Vec<usize> = st.calls.get(&id).map(|r| r.attempts.iter().map(|a| a.0).collect()).unwrap_or_default();
        let set: BTreeSet<usize> = tried.iter().copied().collect();
        if set.len() != tried.len() || set != (0..n).collect::<BTreeSet<usize>>() {
            ctx.violation("C44", "endpoint_set_unchanged", "sweep",
                format!("after the concurrent phase a call failing over through all endpoints tried {tried:?}; configured set is 0..{n}"));
        }
        if has_findings(ctx) {
            break;
        }
    }
}

// ======================================================================================
// C45: grpc.verified_balance
// ======================================================================================

pub struct BalanceWorld;

impl World for BalanceWorld {
    fn name(&self) -> &'static str {
        "grpc.verified_balance"
    }
    fn run<'a>(&'a self, ctx: &'a Arc<RunCtx>) -> WorldFut<'a> {
        Box::pin(run_balance(ctx))
    }
    fn vtime_cap(&self) -> Duration {
        Duration::from_secs(3600)
    }
}

// ---- a minimal ICS-23 prover (IAVL-spec tree under a simple-spec multistore root)

type H32 = [u8; 32];

fn sha256(b: &[u8]) -> H32 {
    Sha256::digest(b).into()
}

fn put_uvarint(n: u64, out: &mut Vec<u8>) {
    prost::encoding::encode_varint(n, out);
}

/// Go `binary.PutVarint` (zig-zag), as used by IAVL node hashing.
fn put_ivarint(x: i64, out: &mut Vec<u8>) {
    put_uvarint(((x << 1) ^ (x >> 63)) as u64, out);
}

fn leaf_op(prefix: Vec<u8>) -> ics23::LeafOp {
    ics23::LeafOp {
        hash: ics23::HashOp::Sha256.into(),
        prehash_key: ics23::HashOp::NoHash.into(),
        prehash_value: ics23::HashOp::Sha256.into(),
        length: ics23::LengthOp::VarProto.into(),
        prefix,
    }
}

/// hash(prefix || len(key) || key || len(sha(value)) || sha(value)): the leaf rule shared by the
/// IAVL and the simple spec.
fn leaf_hash(prefix: &[u8], key: &[u8], value: &[u8]) -> H32 {
    let mut b = prefix.to_vec();
    put_uvarint(key.len() as u64, &mut b);
    b.extend_from_slice(key);
    put_uvarint(32, &mut b);
    b.extend_from_slice(&sha256(value));
    sha256(&b)
}

fn iavl_header(height: i64, size: i64, version: i64) -> Vec<u8> {
    let mut b = Vec::new();
    put_ivarint(height, &mut b);
    put_ivarint(size, &mut b);
    put_ivarint(version, &mut b);
    b
}

/// Build the IAVL-style tree over sorted `leaves`; returns (hash, height, size) and, if `target`
/// lies in this subtree, appends the inner ops from the leaf upwards to `path`.
fn iavl_build(
    leaves: &[(Vec<u8>, Vec<u8>)],
    tree_version: i64,
    offset: usize,
    target: Option<usize>,
    path: &mut Vec<ics23::InnerOp>,
) -> (H32, i64, i64) {
    if leaves.len() == 1 {
        let (k, v) = &leaves[0];
        return (leaf_hash(&iavl_header(0, 1, iavl_leaf_version(k, tree_version)), k, v), 0, 1);
    }
    let mid = leaves.len().div_ceil(2);
    let in_left = target.is_some_and(|t| t >= offset && t < offset + mid);
    let in_right = target.is_some_and(|t| t >= offset + mid && t < offset + leaves.len());
    let (lh, lheight, lsize) = iavl_build(&leaves[..mid], tree_version, offset, target, path);
    let (rh, rheight, rsize) = iavl_build(&leaves[mid..], tree_version, offset + mid, target, path);
    let height = lheight.max(rheight) + 1;
    let size = lsize + rsize;
    let version = 1 + (lh[0] as i64 + rh[0] as i64) % tree_version.max(1);
    let hdr = iavl_header(height, size, version);
    let mut img = hdr.clone();
    img.push(32);
    img.extend_from_slice(&lh);
    img.push(32);
    img.extend_from_slice(&rh);
    if in_left {
        let mut prefix = hdr.clone();
        prefix.push(32);
        let mut suffix = vec![32u8];
        suffix.extend_from_slice(&rh);
        path.push(ics23::InnerOp { hash: ics23::HashOp::Sha256.into(), prefix, suffix });
    } else if in_right {
        let mut prefix = hdr.clone();
        prefix.push(32);
        prefix.extend_from_slice(&lh);
        prefix.push(32);
        path.push(ics23::InnerOp { hash: ics23::HashOp::Sha256.into(), prefix, suffix: vec![] });
    }
    (sha256(&img), height, size)
}

fn iavl_leaf_version(key: &[u8], tree_version: i64) -> i64 {
    1 + (sha256(key)[0] as i64) % tree_version.max(1)
}

/// Tendermint simple Merkle tree over (name, commit hash) leaves (split at the largest power of
/// two below n); inner = sha256(0x01 || left || right).
fn simple_build(
    leaves: &[(Vec<u8>, Vec<u8>)],
    offset: usize,
    target: Option<usize>,
    path: &mut Vec<ics23::InnerOp>,
) -> H32 {
    if leaves.len() == 1 {
        return leaf_hash(&[0u8], &leaves[0].0, &leaves[0].1);
    }
    let mut split = 1;
    while split * 2 < leaves.len() {
        split *= 2;
    }
    let in_left = target.is_some_and(|t| t >= offset && t < offset + split);
    let in_right = target.is_some_and(|t| t >= offset + split && t < offset + leaves.len());
    let lh = simple_build(&leaves[..split], offset, target, path);
    let rh = simple_build(&leaves[split..], offset + split, target, path);
    let mut img = vec![1u8];
    img.extend_from_slice(&lh);
    img.extend_from_slice(&rh);
    if in_left {
        path.push(ics23::InnerOp { hash: ics23::HashOp::Sha256.into(), prefix: vec![1u8], suffix: rh.to_vec() });
    } else if in_right {
        let mut prefix = vec![1u8];
        prefix.extend_from_slice(&lh);
        path.push(ics23::InnerOp { hash: ics23::HashOp::Sha256.into(), prefix, suffix: vec![] });
    }
    sha256(&img)
}

/// The committed application state of one height: the bank store and the other stores' hashes.
#[derive(Clone)]
struct AppState {
    version: i64,
    bank: BTreeMap<Vec<u8>, Vec<u8>>,
    other_stores: BTreeMap<String, H32>,
}

impl AppState {
    fn bank_leaves(&self) -> Vec<(Vec<u8>, Vec<u8>)> {
        self.bank.iter().map(|(k, v)| (k.clone(), v.clone())).collect()
    }
    fn bank_root(&self) -> H32 {
        let leaves = self.bank_leaves();
        if leaves.is_empty() {
            return sha256(b"");
        }
        iavl_build(&leaves, self.version, 0, None, &mut Vec::new()).0
    }
    fn store_leaves(&self) -> Vec<(Vec<u8>, Vec<u8>)> {
        let mut m: BTreeMap<Vec<u8>, Vec<u8>> =
            self.other_stores.iter().map(|(k, v)| (k.clone().into_bytes(), v.to_vec())).collect();
        m.insert(b"bank".to_vec(), self.bank_root().to_vec());
        m.into_iter().collect()
    }
    fn app_hash(&self) -> H32 {
        simple_build(&self.store_leaves(), 0, None, &mut Vec::new())
    }
    /// Existence proof of `key` in the bank tree.
    fn bank_proof(&self, key: &[u8]) -> Option<ics23::ExistenceProof> {
        let leaves = self.bank_leaves();
        let idx = leaves.iter().position(|(k, _)| k == key)?;
        let mut path = Vec::new();
        iavl_build(&leaves, self.version, 0, Some(idx), &mut path);
        Some(ics23::ExistenceProof {
            key: key.to_vec(),
            value: leaves[idx].1.clone(),
            leaf: Some(leaf_op(iavl_header(0, 1, iavl_leaf_version(key, self.version)))),
            path,
        })
    }
    /// Non-existence proof of `key` in the bank tree from its lexicographic neighbours (the key
    /// itself, if present, is skipped: that is the forged variant). None for an empty tree.
    fn bank_nonexist(&self, key: &[u8]) -> Option<ics23::NonExistenceProof> {
        let left = self.bank.range::<[u8], _>((std::ops::Bound::Unbounded, std::ops::Bound::Excluded(key))).next_back().and_then(|(k, _)| self.bank_proof(k));
        let right = self
            .bank
            .range::<[u8], _>((std::ops::Bound::Excluded(key), std::ops::Bound::Unbounded))
            .next()
            .and_then(|(k, _)| self.bank_proof(k));
        if left.is_none() && right.is_none() {
            return None;
        }
        Some(ics23::NonExistenceProof { key: key.to_vec(), left, right })
    }
    /// Existence proof of the bank store's root under the multistore root.
    fn store_proof(&self) -> ics23::ExistenceProof {
        let leaves = self.store_leaves();
        let idx = leaves.iter().position(|(k, _)| k == b"bank").expect("bank store present");
        let mut path = Vec::new();
        simple_build(&leaves, 0, Some(idx), &mut path);
        ics23::ExistenceProof {
            key: b"bank".to_vec(),
            value: leaves[idx].1.clone(),
            leaf: Some(leaf_op(vec![0u8])),
            path,
        }
    }
}

use celestia_proto::cosmos::base::tendermint::v1beta1::{
    AbciQueryRequest, AbciQueryResponse as RawAbciQueryResponse, ProofOp, ProofOps,
};

fn exist_op(kind: &str, ep: ics23::ExistenceProof) -> ProofOp {
    let key = ep.key.clone();
    let proof = ics23::CommitmentProof { proof: Some(ics23::commitment_proof::Proof::Exist(ep)) };
    ProofOp { r#type: kind.to_string(), key, data: proof.encode_to_vec() }
}

fn balance_key(addr: &[u8]) -> Vec<u8> {
    let mut k = vec![0x02u8, addr.len() as u8];
    k.extend_from_slice(addr);
    k.extend_from_slice(b"utia");
    k
}

const TAMPER_KINDS: u32 = 26;

fn tamper_name(t: u32) -> &'static str {
    match t {
        0 => "honest",
        1 => "value_changed",
        2 => "value_changed_consistently_in_proof",
        3 => "value_emptied",
        4 => "value_emptied_and_proof_dropped",
        5 => "op0_key_relabelled",
        6 => "other_account_proof_real_keys",
        7 => "other_account_proof_op_key_relabelled",
        8 => "other_account_proof_all_keys_relabelled",
        9 => "bank_proof_byte_flipped",
        10 => "store_proof_byte_flipped",
        11 => "ops_swapped",
        12 => "spec_types_swapped",
        13 => "unknown_spec_type",
        14 => "other_state_full_answer",
        15 => "other_state_bank_proof_under_honest_store_proof",
        16 => "store_op_dropped",
        17 => "bank_op_dropped",
        18 => "extra_op_appended",
        19 => "batch_wrapped_honest",
        20 => "nonexistence_proof_instead",
        21 => "proof_ops_missing",
        22 => "error_code",
        23 => "bank_path_truncated_to_subroot",
        24 => "other_state_chain_closed_by_a_surplus_op",
        25 => "longer_key_sharing_the_requested_prefix",
        101 => "absent_in_empty_bank_store",
        _ => "forged_value_for_absent_account",
    }
}

struct BalNode {
    ctx: Arc<RunCtx>,
    honest: AppState,
    other: AppState,
    /// (tamper kind, key of another funded account if any)
    current: Mutex<(u32, Option<Vec<u8>>)>,
    /// what was sent for the last query: (value bytes, tamper actually applied)
    sent: Mutex<Option<(Vec<u8>, u32)>>,
}

fn flip_in_proof(ctx: &RunCtx, ep: &mut ics23::ExistenceProof) {
    // candidates: every byte of every inner op's prefix/suffix and of the leaf prefix
    let mut total = ep.leaf.as_ref().map(|l| l.prefix.len()).unwrap_or(0);
    for op in &ep.path {
        total += op.prefix.len() + op.suffix.len();
    }
    if total == 0 {
        // single-leaf tree: nothing but key/value to tamper with
        ep.value.push(b'0');
        return;
    }
    let mut at = ctx.choose("tamper.byte", total as u32) as usize;
    let bit = 1u8 << ctx.choose("tamper.bit", 8);
    if let Some(l) = ep.leaf.as_mut() {
        if at < l.prefix.len() {
            l.prefix[at] ^= bit;
            return;
        }
        at -= l.prefix.len();
    }
    for op in ep.path.iter_mut() {
        if at < op.prefix.len() {
            op.prefix[at] ^= bit;
            return;
        }
        at -= op.prefix.len();
        if at < op.suffix.len() {
            op.suffix[at] ^= bit;
            return;
        }
        at -= op.suffix.len();
    }
}

impl BalNode {
    fn answer(&self, req: &AbciQueryRequest) -> RawAbciQueryResponse {
        let ctx = &self.ctx;
        let (tamper, other_key) = self.current.lock().unwrap().clone();
        let key = req.data.clone();
        let honest_value = self.honest.bank.get(&key).cloned();
        let mut resp = RawAbciQueryResponse {
            code: 0,
            key: key.clone(),
            height: req.height,
            ..Default::default()
        };
        let Some(value) = honest_value else {
            // The account has no balance entry. (A real node attaches a non-existence proof; the
            // client does not look at it.) Tampering with an absent entry: forge a value.
            let applied = if tamper == 0 {
                // what a real node answers: empty value, non-existence proof under the bank root,
                // existence proof of the bank root under the app hash
                match self.honest.bank_nonexist(&key) {
                    Some(ne) => {
                        let op0 = ProofOp {
                            r#type: "ics23:iavl".into(),
                            key: key.clone(),
                            data: ics23::CommitmentProof { proof: Some(ics23::commitment_proof::Proof::Nonexist(ne)) }.encode_to_vec(),
                        };
                        resp.proof_ops = Some(ProofOps { ops: vec![op0, exist_op("ics23:simple", self.honest.store_proof())] });
                        0
                    }
                    // empty bank store: nothing to prove absence against in this model
                    None => 101,
                }
            } else {
                // claim a balance, with the proof of some other account if there is one
                resp.value = b"777".to_vec();
                if let Some(ok) = &other_key {
                    if let Some(mut ep) = self.honest.bank_proof(ok) {
                        if ctx.coin("tamper.absent.relabel", 500) {
                            ep.key = key.clone();
                        }
                        resp.value = ep.value.clone();
                        let mut op0 = exist_op("ics23:iavl", ep);
                        op0.key = key.clone();
                        resp.proof_ops = Some(ProofOps { ops: vec![op0, exist_op("ics23:simple", self.honest.store_proof())] });
                    }
                }
                100
            };
            *self.sent.lock().unwrap() = Some((resp.value.clone(), applied));
            return resp;
        };
        let mut value = value;
        let mut ep0 = self.honest.bank_proof(&key).expect("key present");
        let mut ep1 = self.honest.store_proof();
        let mut type0 = "ics23:iavl".to_string();
        let mut type1 = "ics23:simple".to_string();
        let mut opkey0 = key.clone();
        let opkey1 = b"bank".to_vec();
        let mut applied = tamper;
        enum Shape {
            Normal,
            Swapped,
            Only0,
            Only1,
            Extra,
            Batch,
            NonExist,
            /// a self-consistent chain over another state, with one more op whose *value* is that
            /// state's app hash (nothing links it to the header's app hash)
            SurplusRoot,
            /// a non-existence proof assembled from the key's real neighbours (the key itself
            /// sits between them)
            ForgedAbsence,
            Missing,
        }
        let mut shape = Shape::Normal;
        let changed_value = |v: &[u8]| -> Vec<u8> {
            let mut s = v.to_vec();
            match ctx.choose("tamper.value_how", 3) {
                0 => s.push(b'0'),
                1 => s[0] = if s[0] == b'9' { b'1' } else { s[0] + 1 },
                _ => s = b"1".to_vec(),
            }
            if s == v {
                s.push(b'7');
            }
            s
        };
        match tamper {
            0 => {}
            1 => value = changed_value(&value),
            2 => {
                value = changed_value(&value);
                ep0.value = value.clone();
            }
            3 => {
                value = Vec::new();
                if ctx.coin("tamper.forged_absence", 600) {
                    shape = Shape::ForgedAbsence;
                }
            }
            4 => {
                value = Vec::new();
                shape = Shape::Missing;
            }
            5 => {
                opkey0 = other_key.clone().unwrap_or_else(|| b"other".to_vec());
            }
            6 | 7 | 8 => match other_key.as_ref().and_then(|k| self.honest.bank_proof(k)) {
                Some(ep) => {
                    value = ep.value.clone();
                    opkey0 = ep.key.clone();
                    ep0 = ep;
                    if tamper >= 7 {
                        opkey0 = key.clone();
                    }
                    if tamper == 8 {
                        ep0.key = key.clone();
                    }
                }
                None => applied = 0,
            },
            9 => flip_in_proof(ctx, &mut ep0),
            10 => flip_in_proof(ctx, &mut ep1),
            11 => shape = Shape::Swapped,
            12 => std::mem::swap(&mut type0, &mut type1),
            13 => {
                if ctx.coin("tamper.which_type", 500) {
                    type0 = "ics23:smt".into();
                } else {
                    type1 = "ics23:tendermint".into();
                }
            }
            14 | 15 => match (self.other.bank.get(&key), self.other.bank_proof(&key)) {
                (Some(v), Some(ep)) => {
                    value = v.clone();
                    ep0 = ep;
                    if tamper == 14 {
                        ep1 = self.other.store_proof();
                        resp.height = req.height + 1;
                    }
                }
                _ => applied = 0,
            },
            24 => match (self.other.bank.get(&key), self.other.bank_proof(&key)) {
                (Some(v), Some(ep)) => {
                    value = v.clone();
                    ep0 = ep;
                    ep1 = self.other.store_proof();
                    shape = Shape::SurplusRoot;
                }
                _ => applied = 0,
            },
            16 => shape = Shape::Only0,
            17 => shape = Shape::Only1,
            18 => shape = Shape::Extra,
            19 => shape = Shape::Batch,
            20 => shape = Shape::NonExist,
            21 => shape = Shape::Missing,
            22 => {
                resp.code = *ctx.pick("tamper.code", &[1u32, 18, 38]);
                resp.log = "query failed".into();
            }
            25 => {
                // the honest proof of a committed key that merely begins with the requested one
                // (denomination "utiax" of the same account)
                let mut k2 = key.clone();
                k2.push(b'x');
                match self.honest.bank_proof(&k2) {
                    Some(ep) => {
                        value = ep.value.clone();
                        opkey0 = ep.key.clone();
                        ep0 = ep;
                    }
                    None => applied = 0,
                }
            }
            _ => {
                // present an inner node of the bank tree as the bank root
                if ep0.path.len() >= 2 {
                    ep0.path.pop();
                } else {
                    applied = 0;
                }
            }
        }
        resp.value = value.clone();
        let op0 = ProofOp {
            r#type: type0,
            key: opkey0,
            data: match shape {
                Shape::Batch => ics23::CommitmentProof {
                    proof: Some(ics23::commitment_proof::Proof::Batch(ics23::BatchProof {
                        entries: vec![ics23::BatchEntry { proof: Some(ics23::batch_entry::Proof::Exist(ep0.clone())) }],
                    })),
                }
                .encode_to_vec(),
                Shape::ForgedAbsence => ics23::CommitmentProof {
                    proof: Some(ics23::commitment_proof::Proof::Nonexist(self.honest.bank_nonexist(&key).unwrap_or(ics23::NonExistenceProof {
                        key: key.clone(),
                        left: None,
                        right: None,
                    }))),
                }
                .encode_to_vec(),
                Shape::NonExist => ics23::CommitmentProof {
                    proof: Some(ics23::commitment_proof::Proof::Nonexist(ics23::NonExistenceProof {
                        key: key.clone(),
                        left: Some(ep0.clone()),
                        right: None,
                    })),
                }
                .encode_to_vec(),
                _ => ics23::CommitmentProof { proof: Some(ics23::commitment_proof::Proof::Exist(ep0.clone())) }.encode_to_vec(),
            },
        };
        let op1 = ProofOp {
            r#type: type1,
            key: opkey1,
            data: ics23::CommitmentProof { proof: Some(ics23::commitment_proof::Proof::Exist(ep1)) }.encode_to_vec(),
        };
        resp.proof_ops = match shape {
            Shape::Missing => None,
            Shape::Swapped => Some(ProofOps { ops: vec![op1, op0] }),
            Shape::Only0 => Some(ProofOps { ops: vec![op0] }),
            Shape::Only1 => Some(ProofOps { ops: vec![op1] }),
            Shape::Extra => Some(ProofOps { ops: vec![op0, op1.clone(), op1] }),
            Shape::SurplusRoot => {
                let surplus = ics23::ExistenceProof {
                    key: b"root".to_vec(),
                    value: self.other.app_hash().to_vec(),
                    leaf: Some(leaf_op(vec![0u8])),
                    path: vec![],
                };
                Some(ProofOps { ops: vec![op0, op1, exist_op("ics23:simple", surplus)] })
            }
            _ => Some(ProofOps { ops: vec![op0, op1] }),
        };
        *self.sent.lock().unwrap() = Some((resp.value.clone(), applied));
        resp
    }
}

impl NodeBehaviour for BalNode {
    fn handle(self: Arc<Self>, ep: usize, path: String, _headers: http::HeaderMap, msg: Bytes) -> ReplyFut {
        Box::pin(async move {
            let ctx = &self.ctx;
            if path != P_ABCI_QUERY {
                unmodelled("unimplemented_path", path.clone());
                return Reply::Status(Status::unimplemented("fake node: method not implemented"));
            }
            let Ok(req) = AbciQueryRequest::decode(msg) else {
                return Reply::Status(Status::invalid_argument("bad AbciQueryRequest"));
            };
            ctx.ev_with("abci.in", ep as u64, req.height as u64, || {
                format!("path={} prove={} key={}", req.path, req.prove, hex::encode(&req.data))
            });
            if req.path != "store/bank/key" || !req.prove {
                unmodelled("unexpected_query", format!("{} prove={}", req.path, req.prove));
            }
            vsleep(ctx.delay("abci.delay", 20)).await;
            let resp = self.answer(&req);
            let (v, applied) = self.sent.lock().unwrap().clone().unwrap_or_default();
            ctx.ev_with("abci.out", applied as u64, v.len() as u64, || {
                format!("tamper={} value={:?} ops={}", tamper_name(applied), String::from_utf8_lossy(&v),
                    resp.proof_ops.as_ref().map(|p| p.ops.len()).unwrap_or(0))
            });
            Reply::Msg(resp.encode_to_vec())
        })
    }
}

fn gen_state(rng: &mut crate::kernel::rng::Xoshiro, addrs: &[[u8; 20]], extra_keys: u64, stores: u64, version: i64) -> AppState {
    let mut bank = BTreeMap::new();
    for a in addrs {
        let amount = match rng.below(4) {
            0 => rng.below(10),
            1 => rng.below(1_000_000),
            2 => u64::MAX - rng.below(3),
            _ => rng.next_u64(),
        };
        bank.insert(balance_key(a), amount.to_string().into_bytes());
        if a[0] % 2 == 0 {
            // a denomination whose name extends "utia": its key begins with the utia key
            // (no rng draw: the other fixtures stay as they were)
            let mut k = balance_key(a);
            k.push(b'x');
            let other_amount = if amount > 1000 { amount - 1 } else { amount + 1 };
            bank.insert(k, other_amount.to_string().into_bytes());
        }
        if rng.below(3) == 0 {
            // a second denomination of the same account
            let mut k = balance_key(a);
            k.truncate(k.len() - 4);
            k.extend_from_slice(b"ibc/27394FB092D2ECCD56123C74F36E4C1F926001CEADA9CA97EA622B25F41E5EB2");
            bank.insert(k, rng.below(1000).to_string().into_bytes());
        }
    }
    for i in 0..extra_keys {
        // supply / denom metadata style entries
        let mut k = vec![if i % 2 == 0 { 0x00u8 } else { 0x03 }];
        let mut b = [0u8; 6];
        rng.fill(&mut b);
        k.extend_from_slice(&b);
        let mut v = vec![0u8; 1 + rng.below(12) as usize];
        rng.fill(&mut v);
        bank.insert(k, v);
    }
    let names = ["acc", "authz", "blob", "capability", "distribution", "gov", "ibc", "mint", "params", "slashing", "staking", "upgrade"];
    let mut other_stores = BTreeMap::new();
    for i in 0..stores as usize {
        let mut h = [0u8; 32];
        rng.fill(&mut h);
        other_stores.insert(names[i % names.len()].to_string(), h);
    }
    AppState { version, bank, other_stores }
}

async fn run_balance(ctx: &Arc<RunCtx>) {
    // ---- sizes (chooser) and contents (fixture rng)
    let n_funded = ctx.range("accounts.funded", 0, 12) as usize;
    let n_unfunded = if ctx.coin("accounts.unfunded", 250) { 1usize } else { 0 };
    let extra_keys = ctx.range("bank.extra_keys", 0, 6);
    let stores = ctx.range("stores.other", 0, 11);
    let version = ctx.range("state.version", 1, 300) as i64;
    let header_height = match ctx.choose("header.height_class", 3) {
        0 => 2,
        1 => 1,
        _ => ctx.range("header.height", 3, 40),
    };
    let queries = 1 + ctx.choose("queries", 4) as usize;
    let mut rng = ctx.fixture_rng(45);
    let mut addrs: Vec<[u8; 20]> = Vec::new();
    for _ in 0..n_funded + n_unfunded {
        let mut a = [0u8; 20];
        rng.fill(&mut a);
        addrs.push(a);
    }
    let honest = gen_state(&mut rng, &addrs[..n_funded], extra_keys, stores, version);
    // another committed state (another height): every balance differs
    let mut other = gen_state(&mut rng, &addrs[..n_funded], extra_keys, stores, version + 1);
    for (k, v) in other.bank.iter_mut() {
        if honest.bank.get(k) == Some(v) {
            v.push(b'1');
        }
    }
    let app_hash = honest.app_hash();
    let chain = Chain::cached(ChainParams { class: 0, len: 40, validators: 1, block_time_ms: 6000, head_offset_ms: -3_600_000 });
    let mut header = chain.get(header_height).clone();
    header.header.app_hash = match tendermint::AppHash::try_from(app_hash.to_vec()) {
        Ok(h) => h,
        Err(_) => return,
    };
    let node = Arc::new(BalNode {
        ctx: ctx.clone(),
        honest: honest.clone(),
        other,
        current: Mutex::new((0, None)),
        sent: Mutex::new(None),
    });
    let client = GrpcClient::builder()
        .transport(FakeNode { idx: 0, behaviour: node.clone() })
        .build()
        .expect("client builds");
    ctx.ev_with("setup", honest.bank.len() as u64, honest.other_stores.len() as u64, || {
        format!("app_hash={} header_height={header_height}", hex::encode(app_hash))
    });
    if addrs.is_empty() {
        let mut a = [0u8; 20];
        rng.fill(&mut a);
        addrs.push(a);
    }

    for q in 0..queries {
        ctx.begin_span("query");
        let target = ctx.choose("query.target", addrs.len() as u32) as usize;
        let tamper = if ctx.coin("query.tamper", 750) { 1 + ctx.choose("query.tamper_kind", TAMPER_KINDS - 1) } else { 0 };
        let other_idx = ctx.choose("query.other_account", n_funded.max(1) as u32) as usize;
        ctx.end_span();
        let addr_bytes = addrs[target];
        let key = balance_key(&addr_bytes);
        let other_key = if n_funded > 0 && other_idx != target { Some(balance_key(&addrs[other_idx])) } else { None };
        *node.current.lock().unwrap() = (tamper, other_key);
        *node.sent.lock().unwrap() = None;
        let address: celestia_types::state::Address =
            celestia_types::state::AccAddress::new(tendermint::account::Id::new(addr_bytes)).into();
        ctx.ev_with("query", q as u64, tamper as u64, || format!("target={target} funded={} tamper={}", target < n_funded, tamper_name(tamper)));
        let c = client.clone();
        let h = header.clone();
        let res = tokio::spawn(async move { c.get_verified_balance(&address, &h).await }).await;
        let sent = node.sent.lock().unwrap().clone();
        let honest_value = honest.bank.get(&key).cloned();
        let res = match res {
            Ok(r) => r,
            Err(_) => {
                ctx.oracle("C45.no_panic");
                let panics = ctx.panics.lock().unwrap().clone();
                if let Some(p) = panics.iter().find(|p| !is_harness_location(&p.location)) {
                    ctx.violation("C45", "no_panic", tamper_name(tamper),
                        format!("get_verified_balance panicked at {}: {}", p.location, p.message));
                }
                break;
            }
        };
        ctx.ev_with("result", res.is_ok() as u64, 0, || match &res {
            Ok(c) => format!("Ok({})", c.amount()),
            Err(e) => format!("Err({e})"),
        });
        let Some((sent_value, applied)) = sent else {
            unmodelled("no_query_seen", format!("query {q}"));
            continue;
        };
        if applied != 0 && applied != 101 {
            ctx.fault(tamper_name(applied));
        }
        // Ok(balance) => (key, value) is in the honest tree whose root is the header's app hash,
        // and the balance is that value. (Evaluated for every answer; trivially true for Err.)
        ctx.oracle("C45.ok_implies_proven_pair");
        match &res {
            Ok(coin) => {
                if sent_value.is_empty() {
                    // Narrower reading: an empty value for an account that has no entry in the
                    // committed state is an honest answer (the statement does not say how absence
                    // is to be proven) and is not flagged. An emptied value for an account that
                    // does have an entry is a tampered value reported as verified.
                    if let Some(hv) = &honest_value {
                        ctx.violation("C45", "ok_implies_proven_pair", "empty_value_accepted_without_proof",
                            format!("node answered an empty value (tamper {}) for an account whose committed balance is {}; get_verified_balance returned Ok({}) without any proof being checked",
                                tamper_name(applied), String::from_utf8_lossy(hv), coin.amount()));
                    } else {
                        ctx.probe("absent_account_reported_zero");
                    }
                } else if honest_value.as_deref() != Some(sent_value.as_slice()) {
                    ctx.violation("C45", "ok_implies_proven_pair", tamper_name(applied),
                        format!("returned Ok({}) for value {:?} sent by the node (tamper {}), but the committed state under the header's app hash holds {:?} for this key",
                            coin.amount(), String::from_utf8_lossy(&sent_value), tamper_name(applied),
                            honest_value.as_ref().map(|v| String::from_utf8_lossy(v).to_string())));
                } else if String::from_utf8_lossy(&sent_value).parse::<u64>().ok() != Some(coin.amount()) {
                    ctx.violation("C45", "ok_implies_proven_pair", "amount_differs_from_value",
                        format!("returned Ok({}) for proven value {:?}", coin.amount(), String::from_utf8_lossy(&sent_value)));
                } else if applied != 0 {
                    ctx.probe("benign_tamper_accepted");
                }
            }
            Err(_) => {
                if applied != 0 {
                    ctx.probe("tampered_answer_rejected");
                }
            }
        }
        if applied == 0 {
            ctx.oracle("C45.honest_answers_verify");
            let want = honest_value.as_ref().map(|v| String::from_utf8_lossy(v).parse::<u64>().ok()).unwrap_or(Some(0));
            match (&res, want) {
                (Ok(c), Some(w)) if c.amount() == w => ctx.probe("honest_answer_verified"),
                (Ok(c), w) => ctx.violation("C45", "honest_answers_verify", "wrong_amount",
                    format!("honest answer: returned Ok({}) but the committed balance is {w:?}", c.amount())),
                (Err(e), _) => ctx.violation("C45", "honest_answers_verify", "rejected",
                    format!("honest answer with a valid proof chain ({} bank entries, {} stores, header height {header_height}) was rejected: {e}",
                        honest.bank.len(), honest.other_stores.len() + 1)),
            }
        }
        if has_findings(ctx) {
            break;
        }
    }
}
