//! W-COUNTER: `Counter` / `CounterGuard` (what `RedbStore::close` waits on) under a controlled
//! thread scheduler, and `RedbStore::close` itself with blocking tasks parked inside the storage
//! backend.
//!
//! Layer (a), world "counter.threads": the waiter (`Counter::wait_guards`) and up to 4 guard
//! droppers are real OS threads, but each one runs only while it holds the scheduler's token and
//! hands it back at the `yield_point` hooks placed between the statements of `CounterGuard::drop`
//! and `Counter::wait_guards` (and whenever the waiter's future returns Pending). Which thread
//! gets the token next is a chooser decision (uniform or PCT-style priorities), so a schedule is
//! an exactly repeatable interleaving of the real code and the real `tokio::sync::Notify`.
//!
//! Layer (b), world "counter.redb_close": a real `RedbStore` on SimDisk; k operations are started
//! and their futures cancelled while their blocking closures are queued or parked at a gate
//! inside the backend; `close()` must not resolve while the gate is held and must resolve once it
//! is released.
//!
//! Decides C41.

use std::cell::RefCell;
use std::future::Future;
use std::pin::pin;
use std::sync::atomic::{AtomicBool, AtomicUsize, Ordering};
use std::sync::{Arc, Condvar, Mutex};
use std::task::{Context, Poll, Wake, Waker};

use lumina_node::store::{RedbStore, Store};
use lumina_node::verif::{self, VCounter};
use redb::Database;

use crate::kernel::ctx::RunCtx;
use crate::kernel::runner::{World, WorldFut};
use crate::seams::chain::{Chain, ChainParams};
use crate::seams::disk::SimDisk;

pub struct CounterWorld {
    pub redb: bool,
}

impl World for CounterWorld {
    fn name(&self) -> &'static str {
        if self.redb { "counter.redb_close" } else { "counter.threads" }
    }
    fn run<'a>(&'a self, ctx: &'a Arc<RunCtx>) -> WorldFut<'a> {
        Box::pin(async move {
            if self.redb {
                run_redb_close(ctx).await
            } else {
                run_threads(ctx)
            }
        })
    }
}

// ------------------------------------------------------------------------------------ scheduler

#[derive(Clone, Copy, PartialEq, Eq, Debug)]
enum St {
    Runnable,
    /// waiting for a wake-up (only the waiter)
    Blocked,
    Done,
}

struct SchedState {
    status: Vec<St>,
    current: Option<usize>,
    /// PCT-style priorities (higher runs first); None = uniform random choice
    prio: Option<Vec<u32>>,
    /// remaining priority change points
    change_points: u32,
    steps: u64,
    deadlock: bool,
    /// guards whose `take()` has not happened yet
    alive: usize,
    waiter_returned_with_alive: Option<usize>,
    trace: Vec<(usize, &'static str)>,
}

struct Sched {
    ctx: Arc<RunCtx>,
    st: Mutex<SchedState>,
    cv: Condvar,
}

thread_local! {
    static ME: RefCell<Option<(Arc<Sched>, usize)>> = const { RefCell::new(None) };
}

impl Sched {
    /// Pick the next thread to run (called with the lock held by the thread giving up the token).
    fn pick(&self, st: &mut SchedState) {
        let runnable: Vec<usize> = st.status.iter().enumerate().filter(|(_, s)| **s == St::Runnable).map(|(i, _)| i).collect();
        if runnable.is_empty() {
            st.current = None;
            if st.status.iter().any(|s| *s == St::Blocked) {
                // nobody can run and somebody still waits: a lost wake-up
                st.deadlock = true;
            }
            return;
        }
        st.steps += 1;
        let next = match &mut st.prio {
            None => runnable[self.ctx.choose("sched.pick", runnable.len() as u32) as usize],
            Some(prio) => {
                // PCT: run the highest priority runnable thread; at a change point, demote it
                let top = *runnable.iter().max_by_key(|i| prio[**i]).unwrap();
                if st.change_points > 0 && self.ctx.coin("sched.change_point", 120) {
                    st.change_points -= 1;
                    let low = prio.iter().min().copied().unwrap_or(0);
                    prio[top] = low.saturating_sub(1);
                    *runnable.iter().max_by_key(|i| prio[**i]).unwrap()
                } else {
                    top
                }
            }
        };
        st.current = Some(next);
    }

    /// Give up the token at a named point and wait to get it back.
    fn yield_at(&self, me: usize, name: &'static str) {
        let mut st = self.st.lock().unwrap();
        st.trace.push((me, name));
        self.ctx.ev("sched.yield", me as u64, crate::kernel::rng::hash_str(name));
        if name == "counter.drop.between_take_and_notify" {
            st.alive -= 1;
        }
        self.pick(&mut st);
        self.cv.notify_all();
        while st.current != Some(me) && !st.deadlock {
            st = self.cv.wait(st).unwrap();
        }
    }

    fn start(&self, me: usize) {
        let mut st = self.st.lock().unwrap();
        while st.current != Some(me) && !st.deadlock {
            st = self.cv.wait(st).unwrap();
        }
    }

    fn finish(&self, me: usize) {
        let mut st = self.st.lock().unwrap();
        st.status[me] = St::Done;
        self.pick(&mut st);
        self.cv.notify_all();
    }

    /// The waiter's future returned Pending: block until woken.
    fn block(&self, me: usize, woken: &AtomicBool) {
        let mut st = self.st.lock().unwrap();
        if woken.swap(false, Ordering::SeqCst) {
            // already woken between the poll and here: just yield
            self.pick(&mut st);
        } else {
            st.status[me] = St::Blocked;
            self.pick(&mut st);
        }
        self.cv.notify_all();
        while st.current != Some(me) && !st.deadlock {
            st = self.cv.wait(st).unwrap();
        }
    }
}

fn yield_hook(name: &'static str) {
    let me = ME.with(|m| m.borrow().clone());
    if let Some((sched, id)) = me {
        sched.yield_at(id, name);
    }
}

struct WaiterWaker {
    sched: Arc<Sched>,
    id: usize,
    woken: AtomicBool,
}

impl Wake for WaiterWaker {
    fn wake(self: Arc<Self>) {
        self.wake_by_ref()
    }
    fn wake_by_ref(self: &Arc<Self>) {
        self.woken.store(true, Ordering::SeqCst);
        // called by the thread that holds the token (a dropper inside notify_waiters), or by the
        // waiter itself; the scheduler lock is not held at that moment
        let mut st = self.sched.st.lock().unwrap();
        if st.status[self.id] == St::Blocked {
            st.status[self.id] = St::Runnable;
            self.woken.store(false, Ordering::SeqCst);
        }
    }
}

fn run_threads(ctx: &Arc<RunCtx>) {
    verif::install_yield_hook(yield_hook);
    let n_guards = ctx.range("cfg.guards", 0, 4) as usize;
    let pct = ctx.coin("cfg.pct", 500);
    let n_threads = n_guards + 1;
    let prio = if pct {
        // random distinct priorities
        let mut p: Vec<u32> = (0..n_threads as u32).map(|i| 100 + i).collect();
        for i in 0..p.len() {
            let j = i + ctx.choose("cfg.prio_shuffle", (p.len() - i) as u32) as usize;
            p.swap(i, j);
        }
        Some(p)
    } else {
        None
    };
    let sched = Arc::new(Sched {
        ctx: ctx.clone(),
        st: Mutex::new(SchedState {
            status: vec![St::Runnable; n_threads],
            current: None,
            prio,
            change_points: ctx.range("cfg.change_points", 0, 3) as u32,
            steps: 0,
            deadlock: false,
            alive: n_guards,
            waiter_returned_with_alive: None,
            trace: Vec::new(),
        }),
        cv: Condvar::new(),
    });
    let mut counter = VCounter::new();
    let guards: Vec<_> = (0..n_guards).map(|_| counter.guard()).collect();
    // some guards are dropped before the waiter even starts (no scheduling involved)
    let mut guards = guards;
    let early = ctx.range("cfg.dropped_before_wait", 0, n_guards as u64) as usize;
    let late: Vec<_> = guards.split_off(early);
    drop(guards);
    {
        let mut st = sched.st.lock().unwrap();
        st.alive = late.len();
        for i in (1 + late.len())..n_threads {
            st.status[i] = St::Done;
        }
    }
    let returned = Arc::new(AtomicUsize::new(usize::MAX));

    std::thread::scope(|s| {
        // thread 0: the waiter
        {
            let sched = sched.clone();
            let returned = returned.clone();
            let counter = &mut counter;
            s.spawn(move || {
                ME.with(|m| *m.borrow_mut() = Some((sched.clone(), 0)));
                sched.start(0);
                let ww = Arc::new(WaiterWaker { sched: sched.clone(), id: 0, woken: AtomicBool::new(false) });
                let waker = Waker::from(ww.clone());
                let mut cx = Context::from_waker(&waker);
                let mut fut = pin!(counter.wait_guards());
                loop {
                    if sched.st.lock().unwrap().deadlock {
                        break;
                    }
                    match fut.as_mut().poll(&mut cx) {
                        Poll::Ready(()) => {
                            let mut st = sched.st.lock().unwrap();
                            returned.store(st.alive, Ordering::SeqCst);
                            if st.alive > 0 {
                                st.waiter_returned_with_alive = Some(st.alive);
                            }
                            break;
                        }
                        Poll::Pending => sched.block(0, &ww.woken),
                    }
                }
                ME.with(|m| *m.borrow_mut() = None);
                sched.finish(0);
            });
        }
        // threads 1..: the droppers
        for (i, g) in late.into_iter().enumerate() {
            let id = i + 1;
            let sched = sched.clone();
            s.spawn(move || {
                ME.with(|m| *m.borrow_mut() = Some((sched.clone(), id)));
                sched.start(id);
                if !sched.st.lock().unwrap().deadlock {
                    drop(g);
                } else {
                    std::mem::forget(g);
                }
                ME.with(|m| *m.borrow_mut() = None);
                sched.finish(id);
            });
        }
        // hand out the first token
        {
            let mut st = sched.st.lock().unwrap();
            sched.pick(&mut st);
            sched.cv.notify_all();
        }
    });

    let st = sched.st.lock().unwrap();
    ctx.oracle("C41.returns_only_after_all_guards_dropped");
    if let Some(alive) = st.waiter_returned_with_alive {
        ctx.violation("C41", "returns_only_after_all_guards_dropped", "counter",
            format!("wait_guards returned while {alive} guard(s) still existed; schedule: {}", fmt_trace(&st.trace)));
    }
    ctx.oracle("C41.returns_once_all_guards_dropped");
    if st.deadlock || returned.load(Ordering::SeqCst) == usize::MAX {
        ctx.violation("C41", "returns_once_all_guards_dropped", "lost_wakeup",
            format!("all {} guard(s) were dropped but wait_guards never returned (no runnable thread, waiter still waiting); schedule: {}", n_guards, fmt_trace(&st.trace)));
    }
    if st.steps > 0 {
        ctx.probe("threads_interleaved");
    }
    if st.trace.iter().any(|(t, n)| *t != 0 && *n == "counter.drop.between_take_and_notify")
        && st.trace.iter().any(|(t, n)| *t == 0 && *n == "counter.wait.after_check")
    {
        ctx.probe("drop_and_wait_overlapped");
    }
    ctx.note("schedule", fmt_trace(&st.trace));
}

fn fmt_trace(t: &[(usize, &'static str)]) -> String {
    t.iter()
        .map(|(id, n)| format!("T{id}:{}", n.trim_start_matches("counter.")))
        .collect::<Vec<_>>()
        .join(" ")
}

// ------------------------------------------------------------------------------------ layer (b)

async fn run_redb_close(ctx: &Arc<RunCtx>) {
    let chain = Chain::cached(ChainParams { class: 0, len: 12, validators: 1, block_time_ms: 6000, head_offset_ms: -3_600_000 });
    let disk = SimDisk::new(ctx);
    let db = match Database::builder().create_with_backend(disk.clone()) {
        Ok(d) => Arc::new(d),
        Err(e) => {
            ctx.note("setup_error", e.to_string());
            return;
        }
    };
    let Ok(store) = RedbStore::new(db.clone()).await else { return };
    let pre = ctx.range("cfg.preinserted", 0, 6);
    if pre > 0 {
        let hs: Vec<_> = (1..=pre).map(|h| chain.get(h).clone()).collect();
        let _ = store.insert(hs).await;
    }
    // ---- start k operations whose blocking closures are stopped at a gate, then cancel the
    // futures (the closures keep running on the blocking pool, each holding a counter guard)
    let k = ctx.range("cfg.ops", 0, 4);
    disk.close_gate();
    for i in 0..k {
        let kind = ctx.choose("op.kind", 3);
        ctx.ev("op.start", i, kind as u64);
        match kind {
            0 => {
                let f = store.get_by_height(1 + i);
                poll_once_and_drop(f).await;
            }
            1 => {
                let h = chain.get(pre + 1 + i).clone();
                let f = store.insert(h);
                poll_once_and_drop(f).await;
            }
            _ => {
                let f = store.get_stored_header_ranges();
                poll_once_and_drop(f).await;
            }
        }
    }
    // ---- let the blocking pool settle (real time, bounded; leaves no trace in the history):
    // either a closure is parked inside the backend, or every closure has finished (reads served
    // from redb's cache never reach the backend)
    let metrics = tokio::runtime::Handle::current().metrics();
    let mut parked = 0usize;
    for _ in 0..20_000 {
        parked = disk.parked();
        let busy = metrics.num_blocking_threads().saturating_sub(metrics.num_idle_blocking_threads());
        if parked > 0 || (busy == 0 && metrics.blocking_queue_depth() == 0) {
            break;
        }
        std::thread::sleep(std::time::Duration::from_micros(200));
    }
    let mut close_fut = Box::pin(store.close());
    // ---- while a blocking task is parked in the backend, close must not resolve
    if parked > 0 {
        ctx.oracle("C41.close_waits_for_blocking_tasks");
        for _ in 0..3 {
            if futures::poll!(close_fut.as_mut()).is_ready() {
                ctx.violation("C41", "close_waits_for_blocking_tasks", "redb",
                    format!("RedbStore::close returned while a blocking database task started before it was still running inside the storage backend ({k} operations started)"));
                disk.open_gate();
                return;
            }
            tokio::task::yield_now().await;
        }
        ctx.probe("close_pending_while_task_parked_in_backend");
    } else {
        ctx.probe("all_tasks_finished_before_close");
    }
    // ---- release the gate: close must resolve (real threads finish in real time; the wait is
    // bounded in real time and leaves no trace in the history)
    disk.open_gate();
    ctx.oracle("C41.close_returns_after_tasks_finish");
    let mut done = false;
    for _ in 0..20_000 {
        if futures::poll!(close_fut.as_mut()).is_ready() {
            done = true;
            break;
        }
        std::thread::sleep(std::time::Duration::from_micros(500));
    }
    if !done {
        ctx.violation("C41", "close_returns_after_tasks_finish", "redb",
            format!("RedbStore::close did not return within 10 s of real time after all {k} blocking task(s) were released"));
    } else {
        ctx.probe("close_returned");
    }
    drop(db);
}

/// Poll a future once (so that its blocking closure is submitted), then cancel it.
async fn poll_once_and_drop<F: Future>(f: F) {
    let mut f = Box::pin(f);
    let _ = futures::poll!(f.as_mut());
}
