//! W-FRAUD: bad-encoding fraud proofs arriving on fraud-sub, judged by the node's acceptance rule
//! (mirror of `P2p::Worker::on_bad_encoding_fraud_sub_message`: `BadEncodingFraudProof::decode`,
//! header lookup by hash in the store, `validate`). A node that accepts halts syncing and sampling,
//! so a forged proof is a one-message denial of service.
//!
//! The chain contains honestly encoded blocks and blocks whose producer corrupted one row or
//! column (the DAH commits to the corrupted square). Gossipers send honest proofs (any subset of
//! at least half of the axis, each share proven at its own position, either proof axis) and
//! adversarial ones: proven shares permuted, duplicated or substituted (valid NMT proofs, wrong
//! positions), proof axes mixed up, fewer than half the shares, wrong index / axis / height,
//! altered shares. Messages arrive in any order, also before the header is stored.
//!
//! Decides C07.

use std::collections::BTreeMap;
use std::sync::{Arc, Mutex};

use celestia_proto::share::eds::byzantine::pb::{BadEncoding as RawBefp, Share as RawShareWithProof};
use celestia_types::consts::appconsts::AppVersion;
use celestia_types::fraud_proof::{BadEncodingFraudProof, FraudProof};
use celestia_types::nmt::{NS_SIZE, Namespace, NamespaceProof};
use celestia_types::{AxisType, DataAvailabilityHeader, ExtendedDataSquare, ExtendedHeader};
use lumina_node::store::{InMemoryStore, Store, VerifiedExtendedHeaders};
use nmt_rs::nmt_proof::NamespaceProof as NmtNamespaceProof;
use prost::Message;
use tendermint_proto::Protobuf;

use crate::kernel::ctx::{RunCtx, Tier, WALL_BASE_SECS, time_from_ns};
use crate::kernel::rng::{Xoshiro, mix};
use crate::kernel::runner::{World, WorldFut, is_harness_location, short_location};
use crate::seams::chain::{HeaderSpec, KeyedSet, build_header, off_thread};
use crate::seams::squares::{Square, SquareParams};

pub struct FraudWorld;

impl World for FraudWorld {
    fn name(&self) -> &'static str {
        "fraud.sub"
    }
    fn run<'a>(&'a self, ctx: &'a Arc<RunCtx>) -> WorldFut<'a> {
        Box::pin(run_fraud(ctx))
    }
}

// ------------------------------------------------------------------------------------ fixture

#[derive(Clone, Copy, Debug, PartialEq, Eq, PartialOrd, Ord)]
struct FxParams {
    class: u64,
    max_ods_log2: u8,
}

struct BlockFx {
    header: ExtendedHeader,
    eds: ExtendedDataSquare,
    /// Some((axis, index)) if the producer corrupted that axis
    corrupted: Option<(AxisType, u16)>,
}

struct Fx {
    blocks: Vec<BlockFx>,
}

const FX_LEN: u64 = 8;

impl Fx {
    fn generate(p: FxParams) -> Fx {
        let mut rng = Xoshiro::new(mix(&[0xF4A0D, p.class, p.max_ods_log2 as u64]));
        let chain_id: tendermint::chain::Id = "private".try_into().unwrap();
        let set = KeyedSet::generate(&mut rng, 1, 1000);
        let base = WALL_BASE_SECS * 1_000_000_000 - 600_000_000_000;
        let mut blocks: Vec<BlockFx> = Vec::new();
        for h in 1..=FX_LEN {
            // EDS widths 4..: ODS width >= 2
            let log2 = 1 + rng.below(p.max_ods_log2 as u64) as u32;
            let sq = Square::generate(SquareParams { class: rng.below(1000), ods_width: 1 << log2, namespaces: 1 + rng.below(3) as u16 });
            let w = sq.eds.square_width();
            let (eds, corrupted) = if h % 2 == 0 {
                // the producer corrupts more than half of the shares of one axis (only bytes after
                // the namespace and info/sequence bytes, so the square stays well formed)
                let axis = if rng.below(2) == 0 { AxisType::Row } else { AxisType::Col };
                let mut idx = rng.below(w as u64) as u16;
                let mut positions: Vec<u16> = (0..w).collect();
                // Fisher-Yates
                for i in 0..positions.len() {
                    let j = i + rng.below((positions.len() - i) as u64) as usize;
                    positions.swap(i, j);
                }
                let mut junk_rng = Xoshiro::new(rng.next_u64());
                let mut attempt = 0;
                loop {
                    let mut raw: Vec<Vec<u8>> = sq.eds.data_square().iter().map(|s| s.to_vec()).collect();
                    for pos in positions.iter().take((w / 2 + 1) as usize) {
                        let (r, c) = match axis { AxisType::Row => (idx, *pos), AxisType::Col => (*pos, idx) };
                        let s = &mut raw[r as usize * w as usize + c as usize];
                        let mut junk = vec![0u8; 512 - 40];
                        junk_rng.fill(&mut junk);
                        s[40..].copy_from_slice(&junk);
                    }
                    match ExtendedDataSquare::new(raw, "Leopard".into(), AppVersion::V2) {
                        Ok(e) => break (e, Some((axis, idx))),
                        Err(_) => {
                            // an original-data share did not tolerate the junk (padding shares):
                            // corrupt an all-parity axis instead
                            attempt += 1;
                            idx = w / 2 + ((idx + attempt) % (w / 2));
                        }
                    }
                }
            } else {
                (sq.eds.clone(), None)
            };
            let dah = DataAvailabilityHeader::from_eds(&eds);
            let header = {
                let prev = blocks.last().map(|b| &b.header);
                build_header(&mut rng, HeaderSpec {
                    chain_id: &chain_id,
                    height: h,
                    time: time_from_ns(base + h as i64 * 6_000_000_000),
                    prev,
                    set: &set,
                    next_set: &set,
                    dah,
                    app_version: 2,
                    votes: None,
                })
            };
            blocks.push(BlockFx { header, eds, corrupted });
        }
        Fx { blocks }
    }

    fn cached(p: FxParams) -> Arc<Fx> {
        static CACHE: Mutex<BTreeMap<FxParams, Arc<Fx>>> = Mutex::new(BTreeMap::new());
        if let Some(c) = CACHE.lock().unwrap().get(&p) {
            return c.clone();
        }
        let c = off_thread(move || Arc::new(Fx::generate(p)));
        let mut g = CACHE.lock().unwrap();
        if g.len() > 64 {
            g.clear();
        }
        g.entry(p).or_insert(c).clone()
    }
}

// ------------------------------------------------------------------------------------ proofs

/// Share (r,c) with its NMT inclusion proof along `proof_axis`, in the fraud proof's wire form.
fn share_with_proof(eds: &ExtendedDataSquare, r: u16, c: u16, proof_axis: AxisType) -> RawShareWithProof {
    let w = eds.square_width();
    let share = eds.share(r, c).expect("in range");
    let ns = if r < w / 2 && c < w / 2 { share.namespace() } else { Namespace::PARITY_SHARE };
    let proof = match proof_axis {
        AxisType::Row => {
            let mut nmt = eds.row_nmt(r).expect("nmt");
            nmt.build_range_proof(c as usize..c as usize + 1)
        }
        AxisType::Col => {
            let mut nmt = eds.column_nmt(c).expect("nmt");
            nmt.build_range_proof(r as usize..r as usize + 1)
        }
    };
    let proof: NamespaceProof = NmtNamespaceProof::PresenceProof { proof, ignore_max_ns: true }.into();
    let mut data = ns.as_bytes().to_vec();
    debug_assert_eq!(data.len(), NS_SIZE);
    data.extend_from_slice(share.as_ref());
    RawShareWithProof { data, proof: Some(proof.into()), proof_axis: proof_axis as i32 }
}

fn coords(axis: AxisType, index: u16, pos: u16) -> (u16, u16) {
    match axis {
        AxisType::Row => (index, pos),
        AxisType::Col => (pos, index),
    }
}

async fn run_fraud(ctx: &Arc<RunCtx>) {
    let thorough = ctx.tier == Tier::Thorough;
    let fx = Fx::cached(FxParams {
        class: ctx.range("cfg.class", 0, if thorough { 15 } else { 5 }),
        max_ods_log2: *ctx.pick("cfg.max_ods_log2", if thorough { &[2u8, 1, 3, 4][..] } else { &[2u8, 1, 3][..] }),
    });
    let store = Arc::new(InMemoryStore::new());
    // headers arrive over time: some proofs come before their header is stored
    let mut stored_up_to = ctx.range("cfg.initially_stored", 0, FX_LEN);
    if stored_up_to > 0 {
        let hs: Vec<_> = fx.blocks[..stored_up_to as usize].iter().map(|b| b.header.clone()).collect();
        let _ = store.insert(unsafe { VerifiedExtendedHeaders::new_unchecked(hs) }).await;
    }
    let n_msgs = ctx.range("cfg.messages", 1, if thorough { 40 } else { 16 });
    let mut halted = false;

    for m in 0..n_msgs {
        if !ctx.findings.lock().unwrap().is_empty() {
            break;
        }
        ctx.begin_span("msg");
        // a new header may arrive first
        if stored_up_to < FX_LEN && ctx.coin("store.grow", 300) {
            let h = fx.blocks[stored_up_to as usize].header.clone();
            if store.insert(h).await.is_ok() {
                stored_up_to += 1;
            }
        }
        let bi = ctx.choose("msg.block", FX_LEN as u32) as usize;
        let b = &fx.blocks[bi];
        let w = b.eds.square_width();
        let k = w / 2;
        // which axis the proof is about
        let (axis, index, about_corrupted_axis) = match b.corrupted {
            Some((a, i)) if ctx.coin("msg.about_corrupted", 700) => (a, i, true),
            _ => (
                if ctx.coin("msg.axis_col", 500) { AxisType::Col } else { AxisType::Row },
                ctx.choose("msg.index", w as u32) as u16,
                false,
            ),
        };
        // an axis other than the corrupted one may cross it in one share; treat the whole block as
        // "not honestly encoded" then and judge only the soundness clause on honest blocks
        let honest_block = b.corrupted.is_none();
        // ---- build the shares: start from an honest proof of >= half of the axis
        let n_present = ctx.range("proof.present", k as u64, w as u64) as usize;
        let mut present: Vec<u16> = (0..w).collect();
        for i in 0..present.len() {
            let j = i + ctx.choose("proof.shuffle", (present.len() - i) as u32) as usize;
            present.swap(i, j);
        }
        present.truncate(n_present);
        let mut shares: Vec<RawShareWithProof> = vec![RawShareWithProof::default(); w as usize];
        for pos in &present {
            let (r, c) = coords(axis, index, *pos);
            let pa = if ctx.coin("proof.axis_col", 500) { AxisType::Col } else { AxisType::Row };
            shares[*pos as usize] = share_with_proof(&b.eds, r, c, pa);
        }
        let mut raw = RawBefp {
            header_hash: b.header.hash().as_bytes().to_vec(),
            height: b.header.height(),
            shares,
            index: index as u32,
            axis: axis as i32,
        };
        // ---- adversarial rewriting
        let mut well_formed = true; // each present share proven at its own position, >= half present
        let family = if ctx.coin("msg.byzantine", 650) {
            well_formed = false;
            match ctx.choose("byz.family", 9) {
                0 if present.len() >= 2 => {
                    // permute two proven shares (valid proofs, wrong positions)
                    let (a, c) = (present[0] as usize, present[1] as usize);
                    raw.shares.swap(a, c);
                    "proven_shares_permuted"
                }
                1 if present.len() >= 2 => {
                    let (a, c) = (present[0] as usize, present[1] as usize);
                    raw.shares[c] = raw.shares[a].clone();
                    "proven_share_duplicated"
                }
                2 => {
                    // a proven share of a parallel axis substituted at this position
                    let pos = present[0];
                    let other = (index + 1) % w;
                    let (r, c) = coords(axis, other, pos);
                    // proven along the axis orthogonal to the fraud proof's axis: it verifies
                    // against the root the validator picks for this position
                    let pa = match axis { AxisType::Row => AxisType::Col, AxisType::Col => AxisType::Row };
                    raw.shares[pos as usize] = share_with_proof(&b.eds, r, c, pa);
                    "share_of_parallel_axis_substituted"
                }
                3 => {
                    // proof axes mixed up: the share keeps its data, claims the other proof axis
                    let pos = present[0] as usize;
                    raw.shares[pos].proof_axis = 1 - raw.shares[pos].proof_axis;
                    "proof_axis_mixed"
                }
                4 => {
                    // fewer than half of the shares
                    for pos in present.iter().skip((k as usize).saturating_sub(1)) {
                        raw.shares[*pos as usize] = RawShareWithProof::default();
                    }
                    "less_than_half"
                }
                5 => {
                    raw.index = (index as u32 + 1) % w as u32;
                    "wrong_index"
                }
                6 => {
                    raw.axis = 1 - raw.axis;
                    "wrong_axis"
                }
                7 => {
                    let pos = present[0] as usize;
                    let n = raw.shares[pos].data.len();
                    raw.shares[pos].data[n - 1] ^= 0x01;
                    "share_altered"
                }
                _ => {
                    raw.height += 1;
                    "wrong_height"
                }
            }
        } else {
            "well_formed"
        };
        if !well_formed {
            ctx.fault(family);
        }
        let bytes = raw.encode_to_vec();
        ctx.ev_with("msg", m, b.header.height(), || format!("{family} axis={axis:?} index={index} present={n_present} block_honest={honest_block} about_corrupted={about_corrupted_axis}"));

        // ---- the node's acceptance rule (mirror of the fraud-sub handler)
        let store2 = store.clone();
        let outcome = tokio::spawn(async move {
            let Ok(befp) = BadEncodingFraudProof::decode(&bytes[..]) else { return "reject_malformed" };
            let hash = befp.header_hash();
            let Ok(header) = store2.get_by_hash(&hash).await else { return "ignore_no_header" };
            match befp.validate(&header) {
                Ok(()) => "accept",
                Err(_) => "reject_invalid",
            }
        })
        .await;
        let outcome = match outcome {
            Ok(o) => o,
            Err(_) => {
                let p = ctx.panics.lock().unwrap().iter().rev().find(|p| !is_harness_location(&p.location)).cloned();
                let (loc, msg) = p.map(|p| (p.location, p.message)).unwrap_or_default();
                ctx.note(&format!("panic_{family}"), format!("{}: {msg}", short_location(&loc)));
                ctx.probe("fraud_proof_validation_panicked");
                ctx.end_span();
                continue;
            }
        };
        ctx.ev_with("outcome", m, (outcome == "accept") as u64, || outcome.to_string());
        // ---- soundness: no proof against an honestly encoded block validates
        if honest_block {
            ctx.oracle("C07.sound_on_honest_blocks");
            if outcome == "accept" {
                halted = true;
                ctx.violation("C07", "sound_on_honest_blocks", family,
                    format!("a {family} fraud proof ({axis:?} {index}, {n_present} of {w} shares) against the honestly encoded block {} validated: the node would halt", b.header.height()));
            }
        }
        // ---- completeness: corrupted axis, >= half of its shares each proven at its own position
        let header_stored = bi < stored_up_to as usize;
        if about_corrupted_axis && well_formed && header_stored {
            ctx.oracle("C07.complete_on_corrupted_axis");
            if outcome != "accept" {
                ctx.violation("C07", "complete_on_corrupted_axis", "well_formed",
                    format!("a well-formed fraud proof ({axis:?} {index}, {n_present} of {w} shares, each proven at its own position) for the corrupted axis of block {} was not accepted: {outcome}", b.header.height()));
            } else {
                ctx.probe("genuine_fraud_proof_accepted");
            }
        }
        if !header_stored && outcome == "ignore_no_header" {
            ctx.probe("proof_before_header_ignored");
        }
        ctx.end_span();
    }
    let _ = halted;
}
