// Included by wire_decoders.rs: one method per decoder family.

fn mutate_header(ctx: &RunCtx, raw: &mut RawExtendedHeader) -> String {
    use tendermint_proto::google::protobuf::Timestamp;
    let which = ctx.choose("mut.header", 26);
    let hdr = raw.header.get_or_insert_with(Default::default);
    let commit = raw.commit.get_or_insert_with(Default::default);
    let vals = raw.validator_set.get_or_insert_with(Default::default);
    let dah = raw.dah.get_or_insert_with(Default::default);
    match which {
        0 => { hdr.height = *ctx.pick("mut.h.height", &[0i64, -1, i64::MAX, i64::MIN, 1]); format!("header.height={}", hdr.height) }
        1 => { commit.height = *ctx.pick("mut.h.cheight", &[0i64, -1, i64::MAX, i64::MIN]); format!("commit.height={}", commit.height) }
        2 => { commit.round = *ctx.pick("mut.h.round", &[-1i32, i32::MAX, i32::MIN]); format!("commit.round={}", commit.round) }
        3 => { commit.signatures.clear(); "commit.signatures empty".into() }
        4 => {
            let n = *ctx.pick("mut.h.sigs", &[2usize, 64, 1000]);
            let s = commit.signatures.first().cloned().unwrap_or_default();
            commit.signatures = vec![s; n];
            format!("commit.signatures x{n}")
        }
        5 => {
            if let Some(s) = commit.signatures.first_mut() {
                s.block_id_flag = *ctx.pick("mut.h.flag", ENUM_EXTREMES);
                s.signature = vec![1u8; *ctx.pick("mut.h.siglen", &[0usize, 1, 63, 64, 65, 200])];
                s.validator_address = vec![2u8; *ctx.pick("mut.h.addrlen", &[0usize, 19, 20, 21])];
            }
            "commit.signatures[0] flag/signature/address sizes".into()
        }
        6 => { vals.validators.clear(); "validator_set.validators empty".into() }
        7 => {
            let n = *ctx.pick("mut.h.vals", &[2usize, 101, 1000]);
            let v = vals.validators.first().cloned().unwrap_or_default();
            vals.validators = vec![v; n];
            format!("validator_set.validators x{n}")
        }
        8 => {
            let p = *ctx.pick("mut.h.power", &[0i64, -1, i64::MAX, i64::MIN, i64::MAX / 8 + 1]);
            for v in vals.validators.iter_mut() { v.voting_power = p; }
            vals.total_voting_power = p;
            format!("voting_power={p}")
        }
        9 => { vals.total_voting_power = *ctx.pick("mut.h.total", &[0i64, -1, i64::MAX, i64::MIN]); "validator_set.total_voting_power extreme".into() }
        10 => { vals.proposer = None; "validator_set.proposer missing".into() }
        11 => {
            if let Some(v) = vals.validators.first_mut() {
                v.pub_key = None;
                v.address = vec![];
                v.proposer_priority = i64::MIN;
            }
            "validator without key/address".into()
        }
        12 => { dah.row_roots.clear(); "dah.row_roots empty".into() }
        13 => { dah.column_roots.pop(); "dah row/column count mismatch".into() }
        14 => { dah.row_roots.clear(); dah.column_roots.clear(); "dah empty".into() }
        15 => {
            let n = *ctx.pick("mut.h.roots", &[1usize, 3, 6, 1024, 2048]);
            let r = dah.row_roots.first().cloned().unwrap_or_else(|| vec![0u8; 90]);
            dah.row_roots = vec![r.clone(); n];
            dah.column_roots = vec![r; n];
            format!("dah with {n} roots")
        }
        16 => {
            let len = *ctx.pick("mut.h.rootlen", &[0usize, 1, 32, 89, 91]);
            if let Some(r) = dah.row_roots.first_mut() { *r = vec![0u8; len]; }
            format!("dah.row_roots[0] of {len} bytes")
        }
        17 => {
            let v = hdr.version.get_or_insert_with(Default::default);
            v.app = *ctx.pick("mut.h.app", &[0u64, 8, 99, u64::MAX]);
            v.block = *ctx.pick("mut.h.block", &[0u64, 11, u64::MAX]);
            format!("version app={} block={}", v.app, v.block)
        }
        18 => {
            hdr.time = Some(Timestamp {
                seconds: *ctx.pick("mut.h.secs", &[i64::MAX, i64::MIN, -1, 0, 253_402_300_800]),
                nanos: *ctx.pick("mut.h.nanos", &[0i32, -1, 999_999_999, 1_000_000_000, i32::MAX, i32::MIN]),
            });
            "header.time extreme".into()
        }
        19 => { hdr.time = None; "header.time missing".into() }
        20 => { hdr.chain_id = match ctx.choose("mut.h.chain", 3) { 0 => String::new(), 1 => "x".repeat(51), _ => "x".repeat(5000) }; "chain_id length".into() }
        21 => {
            let len = *ctx.pick("mut.h.hashlen", &[0usize, 1, 31, 33, 64]);
            hdr.data_hash = vec![0u8; len];
            hdr.validators_hash = vec![0u8; len];
            hdr.last_commit_hash = vec![0u8; len];
            format!("header hashes of {len} bytes")
        }
        22 => { hdr.proposer_address = vec![0u8; *ctx.pick("mut.h.proplen", &[0usize, 19, 21, 64])]; "proposer_address length".into() }
        23 => { raw.header = None; "header missing".into() }
        24 => { raw.commit = None; raw.dah = None; "commit and dah missing".into() }
        _ => {
            if let Some(b) = commit.block_id.as_mut() {
                b.hash = vec![0u8; *ctx.pick("mut.h.bidlen", &[0usize, 31, 33])];
                b.part_set_header = None;
            }
            "commit.block_id hash length / no part set header".into()
        }
    }
}

impl<'a> Env<'a> {
    async fn store(&self) -> Arc<InMemoryStore> {
        self.store
            .get_or_init(|| async {
                let s = Arc::new(InMemoryStore::new());
                if s.insert(self.sq.header.clone()).await.is_err() {
                    self.ctx.probe("fixture_header_not_inserted");
                }
                s
            })
            .await
            .clone()
    }

    /// Run an async decoder in its own task and judge it.
    async fn run_async<T: Send + 'static>(
        &self,
        call: &Call<'_>,
        decoder: &'static str,
        input: &[u8],
        fut: impl std::future::Future<Output = Result<T, String>> + Send + 'static,
    ) -> Option<T> {
        let mark = panic_mark(self.ctx);
        let r = tokio::spawn(fut).await;
        let (code, val) = match r {
            Ok(Ok(v)) => (OK, Some(v)),
            Ok(Err(_)) => (ERR, None),
            Err(_) => (PANIC, None),
        };
        call.judge(decoder, input, mark, code);
        val
    }

    /// Reader plan for stream-based decoders: chunking, truncation, short and long stalls.
    fn reader_plan(&self, len: usize, limit_ms: u64) -> LinkPlan {
        LinkPlan::draw(self.ctx, &Profile {
            len,
            hot: vec![0, 1, len],
            align: 0,
            align_off: 0,
            limit_ms,
            weights: [6, 3, 2, 1, 1, 1, 1, 1, 0, 0],
            second_fault: 100,
            max_chunks: 24,
        })
    }

    // ---------------------------------------------------------------- extended header

    async fn ext_header(&self) {
        let ctx = self.ctx;
        let honest = if ctx.coin("hdr.from_chain", 500) {
            let class = ctx.range("hdr.chain_class", 0, 1);
            let chain = Chain::cached(ChainParams { class, len: 8, validators: if class == 0 { 1 } else { 4 }, block_time_ms: 6000, head_offset_ms: -3_600_000 });
            chain.get(ctx.range("hdr.height", 1, 8)).clone()
        } else {
            self.sq.header.clone()
        };
        let bytes = honest.encode_vec();
        let mut note = String::from("honest ExtendedHeader");
        let source = ctx.choose("hdr.source", 3);
        let input = if source == 0 {
            corrupt(ctx, bytes, &[1, 2, 3], &mut note).await
        } else {
            let mut raw = RawExtendedHeader::decode(&bytes[..]).unwrap_or_default();
            for _ in 0..1 + ctx.choose("hdr.mutations", 2) {
                note.push_str(&format!(" | {}", mutate_header(ctx, &mut raw)));
            }
            let b = raw.encode_to_vec();
            if source == 2 { corrupt(ctx, b, &[1, 2, 3], &mut note).await } else { b }
        };
        let call = Call { ctx, note };
        call.sync("ExtendedHeader::decode", &input, || ExtendedHeader::decode(&input[..]).map_err(|e| e.to_string()));
        let ok = call.sync("ExtendedHeader::decode_and_validate", &input, || ExtendedHeader::decode_and_validate(&input).map_err(|e| e.to_string()));
        if ok.is_some() && source != 0 {
            ctx.probe("structured_header_mutant_validated");
        }
    }

    // ---------------------------------------------------------------- header-ex framing

    async fn hx_request(&self) {
        let ctx = self.ctx;
        let req = HeaderRequest {
            data: match ctx.choose("hxr.data", 3) {
                0 => Some(Data::Origin(ctx.range("hxr.origin", 0, 1000))),
                1 => Some(Data::Hash(vec![7u8; ctx.range("hxr.hash_len", 0, 1100) as usize])),
                _ => None,
            },
            amount: *ctx.pick("hxr.amount", &[1u64, 0, 64, u64::MAX]),
        };
        let mut note = format!("HeaderRequest {:?} amount {}", req.data.as_ref().map(|d| matches!(d, Data::Origin(_))), req.amount);
        let input = corrupt(ctx, req.encode_length_delimited_to_vec(), &[0, 1, 2], &mut note).await;
        let plan = self.reader_plan(input.len(), 1000);
        let (r, _h) = preloaded(ctx, plan, input.clone());
        let call = Call { ctx, note };
        self.run_async(&call, "hx::read_request", &input, async move {
            let mut r = r;
            hx::read_request(&mut r).await.map_err(|e| e.to_string())
        })
        .await;
    }

    async fn hx_response(&self) {
        let ctx = self.ctx;
        // read_response allocates its 10 MiB buffer per call: at most two per run
        if self.response_reads.get() >= 2 {
            return self.hx_request().await;
        }
        self.response_reads.set(self.response_reads.get() + 1);
        let n = 1 + ctx.range("hxs.n", 0, 3);
        let mut bytes = Vec::new();
        let mut hot = vec![0usize];
        for _ in 0..n {
            let r = match ctx.choose("hxs.entry", 3) {
                0 => HeaderResponse { body: self.sq.header.clone().encode_vec(), status_code: StatusCode::Ok.into() },
                1 => HeaderResponse { body: vec![], status_code: StatusCode::NotFound.into() },
                _ => HeaderResponse { body: vec![9u8; ctx.range("hxs.junk", 0, 200) as usize], status_code: *ctx.pick("hxs.status", ENUM_EXTREMES) },
            };
            r.encode_length_delimited(&mut bytes).expect("vec grows");
            hot.push(bytes.len());
            hot.push(bytes.len() + 1);
        }
        let mut note = format!("{n} HeaderResponse messages");
        let input = corrupt(ctx, bytes, &hot, &mut note).await;
        let plan = self.reader_plan(input.len(), RESPONSE_TIME_LIMIT_MS);
        let (r, _h) = preloaded(ctx, plan, input.clone());
        let call = Call { ctx, note };
        self.run_async(&call, "hx::read_response", &input, async move {
            let mut r = r;
            hx::read_response(&mut r).await.map_err(|e| e.to_string())
        })
        .await;
    }

    // ---------------------------------------------------------------- shwap containers

    /// The three entry points a Shwap container reaches: shrex response codec (length-delimited),
    /// and the bitswap multihasher (Block{cid, container}) with a store that has the header.
    async fn shwap_block(&self, call: &Call<'_>, decoder: &'static str, code: u64, cid: Vec<u8>, container: &[u8]) {
        let block = Block { cid, container: container.to_vec() }.encode_to_vec();
        let block = if self.ctx.coin("shwap.tamper_block", 100) { tamper_varint(self.ctx, &block, 1) } else { block };
        let store = self.store().await;
        let b2 = block.clone();
        let ok = self
            .run_async(call, decoder, &block, async move { verif::shwap_hash(store, code, &b2).await })
            .await;
        if ok.is_some() {
            self.ctx.probe("shwap_hash_accepted_block");
        }
    }

    fn delimited(container: &[u8]) -> Vec<u8> {
        let mut v = Vec::with_capacity(container.len() + 5);
        prost::encoding::encode_varint(container.len() as u64, &mut v);
        v.extend_from_slice(container);
        v
    }

    fn pick_index(&self, tag_class: &'static str, tag: &'static str, honest: u16) -> u16 {
        let w = self.sq.width;
        match self.ctx.choose(tag_class, 6) {
            0 => honest,
            1 => self.ctx.range(tag, 0, w as u64 - 1) as u16,
            2 => w,
            3 => w / 2,
            4 => u16::MAX,
            _ => w + 1,
        }
    }

    async fn sample(&self) {
        let ctx = self.ctx;
        let sq = &self.sq;
        let w = sq.width as u64;
        let (row, col) = (ctx.range("smp.row", 0, w - 1) as u16, ctx.range("smp.col", 0, w - 1) as u16);
        let axis = if ctx.coin("smp.col_proof", 500) { AxisType::Col } else { AxisType::Row };
        let Ok(honest) = Sample::new(row, col, axis, &sq.eds) else { return };
        let mut raw = RawSample::from(honest);
        let mut note = format!("honest Sample({row},{col},{axis:?}) of a width-{w} square");
        let source = ctx.choose("smp.source", 3);
        let mut container = Vec::new();
        if source != 0 {
            for _ in 0..1 + ctx.choose("smp.mutations", 3) {
                let what = match ctx.weighted("smp.mut", &[8, 2, 1, 1, 1]) {
                    0 => match raw.proof.as_mut() { Some(p) => mutate_proof(ctx, p), None => "-".into() },
                    1 => { raw.share = Some(RawShare { data: junk_share(ctx, &sq.present[0]) }); "share replaced".into() }
                    2 => { raw.share = None; "share missing".into() }
                    3 => { raw.proof = None; "proof missing".into() }
                    _ => { raw.proof_type = *ctx.pick("smp.axis", ENUM_EXTREMES); format!("proof_type={}", raw.proof_type) }
                };
                note.push_str(&format!(" | {what}"));
            }
            container = raw.encode_to_vec();
        }
        if source != 1 {
            container = corrupt(ctx, raw.encode_to_vec(), &[1, 2], &mut note).await;
        }
        let r = self.pick_index("smp.id_row_class", "smp.id_row", row);
        let c = self.pick_index("smp.id_col_class", "smp.id_col", col);
        let height = if ctx.coin("smp.other_height", 60) { sq.height + 1 } else { sq.height };
        let Ok(id) = SampleId::new(r, c, height) else { return };
        note.push_str(&format!(" ; decoded as SampleId({r},{c},h{height})"));
        let call = Call { ctx, note };
        let dec = call.sync("Sample::decode", &container, || Sample::decode(id, &container).map_err(|e| e.to_string()));
        if let Some(s) = dec {
            if source != 0 {
                ctx.probe("structured_mutant_reached_verify");
            }
            if call.sync("Sample::verify", &container, || s.verify(id, &sq.dah).map_err(|e| e.to_string())).is_some() && source != 0 {
                ctx.probe("structured_mutant_verified");
            }
        }
        let framed = Self::delimited(&container);
        call.sync("shrex::decode_sample", &framed, || shrex::decode_sample(&framed, &id, &sq.dah, sq.app));
        let cid: CidGeneric<12> = id.into();
        self.shwap_block(&call, "shwap_hash(sample)", SAMPLE_ID_MULTIHASH_CODE, cid.to_bytes(), &container).await;
    }

    async fn row(&self) {
        let ctx = self.ctx;
        let sq = &self.sq;
        let w = sq.width as usize;
        let ods = w / 2;
        let idx = ctx.range("row.idx", 0, w as u64 - 1) as u16;
        let Ok(honest) = Row::new(idx, &sq.eds) else { return };
        let parity_half: Vec<RawShare> = honest.shares[ods..].iter().map(|s| RawShare { data: s.to_vec() }).collect();
        let mut raw = RawRow::from(honest);
        let mut note = format!("honest Row({idx}) of a width-{w} square");
        let source = ctx.choose("row.source", 3);
        let mut container = Vec::new();
        if source != 0 {
            for _ in 0..1 + ctx.choose("row.mutations", 2) {
                let what = match ctx.choose("row.mut", 8) {
                    0 => {
                        let n = *ctx.pick("row.count", &[0usize, 1, 3, 5, 129, 200, 300]);
                        let src = raw.shares_half.clone();
                        raw.shares_half = (0..n).map(|i| src.get(i % src.len().max(1)).cloned().unwrap_or(RawShare { data: vec![0u8; SHARE_SIZE] })).collect();
                        format!("shares_half x{n}")
                    }
                    1 => { raw.shares_half.pop(); "one share removed".into() }
                    2 => { let s = raw.shares_half.first().cloned().unwrap_or_default(); raw.shares_half.push(s); "one share added".into() }
                    3 => {
                        let len = *ctx.pick("row.share_len", &[0usize, 1, 64, 448, 511, 513, 576, 1024]);
                        for s in raw.shares_half.iter_mut() { s.data.resize(len, 0); }
                        format!("all shares resized to {len}")
                    }
                    4 => {
                        if !raw.shares_half.is_empty() {
                            let i = ctx.choose("row.share_idx", raw.shares_half.len() as u32) as usize;
                            raw.shares_half[i].data = junk_share(ctx, &sq.present[0]);
                            format!("share {i} replaced ({} bytes)", raw.shares_half[i].data.len())
                        } else { "-".into() }
                    }
                    5 => { raw.half_side = *ctx.pick("row.side", ENUM_EXTREMES); format!("half_side={}", raw.half_side) }
                    6 => { raw.shares_half = parity_half.clone(); raw.half_side = 1; "honest parity half, RIGHT".into() }
                    _ => { raw.half_side = 1; "data half declared RIGHT".into() }
                };
                note.push_str(&format!(" | {what}"));
            }
            container = raw.encode_to_vec();
        }
        if source != 1 {
            container = corrupt(ctx, raw.encode_to_vec(), &[1, 2, 3, 4], &mut note).await;
        }
        let i = self.pick_index("row.id_class", "row.id", idx);
        let height = if ctx.coin("row.other_height", 60) { sq.height + 1 } else { sq.height };
        let Ok(id) = RowId::new(i, height) else { return };
        note.push_str(&format!(" ; decoded as RowId({i},h{height})"));
        let call = Call { ctx, note };
        let dec = call.sync("Row::decode", &container, || Row::decode(id, &container).map_err(|e| e.to_string()));
        if let Some(r) = dec {
            if source != 0 {
                ctx.probe("structured_mutant_reached_verify");
            }
            if call.sync("Row::verify", &container, || r.verify(id, &sq.dah).map_err(|e| e.to_string())).is_some() && source != 0 {
                ctx.probe("structured_mutant_verified");
            }
        }
        let framed = Self::delimited(&container);
        call.sync("shrex::decode_row", &framed, || shrex::decode_row(&framed, &id, &sq.dah, sq.app));
        let cid: CidGeneric<10> = id.into();
        self.shwap_block(&call, "shwap_hash(row)", ROW_ID_MULTIHASH_CODE, cid.to_bytes(), &container).await;
    }

    async fn row_namespace_data(&self) {
        let ctx = self.ctx;
        let sq = &self.sq;
        let ns = match ctx.choose("rnd.ns", 5) {
            0 => sq.present[0],
            1 => *ctx.pick("rnd.present", &sq.present),
            2 if !sq.absent.is_empty() => *ctx.pick("rnd.absent", &sq.absent),
            3 => Namespace::PARITY_SHARE,
            4 => Namespace::TAIL_PADDING,
            _ => sq.present[sq.present.len() - 1],
        };
        let rows = std::panic::catch_unwind(AssertUnwindSafe(|| sq.eds.get_namespace_data(ns, &sq.dah, sq.height))).ok().and_then(|r| r.ok()).unwrap_or_default();
        let mut raws: Vec<RawRnd> = rows.iter().map(|(_, d)| RawRnd::from(d.clone())).collect();
        let row_ids: Vec<u16> = rows.iter().map(|(id, _)| id.row_index()).collect();
        let absence = rows.first().is_some_and(|(_, d)| d.proof.is_of_absence());
        let mut note = format!("honest RowNamespaceData of ns {} ({} rows, absence={absence}) of a width-{} square", hex::encode(&ns.as_bytes()[18..]), raws.len(), sq.width);
        let k = if raws.is_empty() { 0 } else { ctx.choose("rnd.row", raws.len() as u32) as usize };
        let mut raw = raws.get(k).cloned().unwrap_or_default();
        let source = ctx.choose("rnd.source", 3);
        let mut container = Vec::new();
        if source != 0 {
            for _ in 0..1 + ctx.choose("rnd.mutations", 3) {
                let what = match ctx.weighted("rnd.mut", &[8, 1, 1, 1, 1, 1, 1, 3]) {
                    7 => {
                        // share count consistent with the proof range, tree shape arbitrary
                        let n = *ctx.pick("rnd.cons_n", &[1usize, 2, 3, 5, 16, 64]);
                        let start = *ctx.pick("rnd.cons_start", &[0i64, 1, 3, 6, 0xFFFF, 0x7FFF_FFFF, 0xFFFF_FFFF - 64]);
                        let s = raw.shares.first().cloned().unwrap_or(RawShare { data: junk_share(ctx, &ns) });
                        raw.shares = vec![s; n];
                        let p = raw.proof.get_or_insert_with(Default::default);
                        p.start = start;
                        p.end = start + n as i64;
                        p.leaf_hash.clear();
                        let keep = *ctx.pick("rnd.cons_nodes", &[0usize, 1, 2, 3, 8, 31, 32, 33]);
                        let node = p.nodes.first().cloned().unwrap_or_else(|| nmt_node(&[0u8; NS_SIZE], &[0xffu8; NS_SIZE], 7));
                        p.nodes = (0..keep).map(|i| p.nodes.get(i).cloned().unwrap_or_else(|| node.clone())).collect();
                        format!("{n} shares with proof [{start},{}) and {keep} nodes", start + n as i64)
                    }
                    0 => mutate_proof(ctx, raw.proof.get_or_insert_with(Default::default)),
                    1 => { raw.shares.clear(); "shares cleared".into() }
                    2 => { let s = raw.shares.first().cloned().unwrap_or(RawShare { data: junk_share(ctx, &ns) }); raw.shares.push(s); "share added".into() }
                    3 => { raw.shares.pop(); "share removed".into() }
                    4 => { raw.shares.push(RawShare { data: junk_share(ctx, &sq.present[0]) }); "junk share added".into() }
                    5 => { raw.proof = None; "proof missing".into() }
                    _ => {
                        let n = *ctx.pick("rnd.count", &[2usize, 64, 300]);
                        let s = raw.shares.first().cloned().unwrap_or(RawShare { data: junk_share(ctx, &ns) });
                        raw.shares = vec![s; n];
                        format!("shares x{n}")
                    }
                };
                note.push_str(&format!(" | {what}"));
            }
            container = raw.encode_to_vec();
        }
        if source != 1 {
            container = corrupt(ctx, raw.encode_to_vec(), &[1, 2, 3], &mut note).await;
        }
        let honest_row = row_ids.get(k).copied().unwrap_or(0);
        let i = self.pick_index("rnd.id_class", "rnd.id", honest_row);
        let id_ns = if ctx.coin("rnd.other_ns", 100) { *ctx.pick("rnd.id_ns", &[Namespace::PARITY_SHARE, Namespace::TAIL_PADDING, sq.present[0]]) } else { ns };
        let Ok(id) = RowNamespaceDataId::new(id_ns, i, sq.height) else { return };
        note.push_str(&format!(" ; decoded as RowNamespaceDataId(row {i})"));
        let call = Call { ctx, note };
        let dec = call.sync("RowNamespaceData::decode", &container, || RowNamespaceData::decode(id, &container).map_err(|e| e.to_string()));
        if let Some(d) = dec {
            if source != 0 {
                ctx.probe("structured_mutant_reached_verify");
            }
            if call.sync("RowNamespaceData::verify", &container, || d.verify(id, &sq.dah).map_err(|e| e.to_string())).is_some() && source != 0 {
                ctx.probe("structured_mutant_verified");
            }
        }
        let cid: CidGeneric<39> = id.into();
        self.shwap_block(&call, "shwap_hash(row_namespace_data)", ROW_NAMESPACE_DATA_ID_MULTIHASH_CODE, cid.to_bytes(), &container).await;

        // the shrex namespace-data response: all rows, the mutated one in place
        if let Ok(raw_mut) = RawRnd::decode(&container[..]) {
            if k < raws.len() { raws[k] = raw_mut; } else { raws.push(raw_mut); }
        }
        match ctx.choose("rnd.list", 6) {
            0 => {}
            1 => { raws.pop(); }
            2 => { if let Some(f) = raws.first().cloned() { raws.push(f); } }
            3 => raws.reverse(),
            4 => raws.clear(),
            _ => {}
        }
        let mut framed = Vec::new();
        for r in &raws {
            r.encode_length_delimited(&mut framed).expect("vec grows");
        }
        if ctx.coin("rnd.many_empty_rows", 30) {
            framed = vec![0u8; 70_000]; // 70000 empty rows: above the u16 row limit
        }
        let Ok(nd_id) = NamespaceDataId::new(id_ns, sq.height) else { return };
        if call.sync("shrex::decode_namespace_data", &framed, || shrex::decode_namespace_data(&framed, &nd_id, &sq.dah, sq.app)).is_some() {
            ctx.probe("namespace_data_accepted");
        }
    }

    // ---------------------------------------------------------------- shrex EDS / status / notification

    async fn eds(&self) {
        let ctx = self.ctx;
        let sq = &self.sq;
        let mut note = format!("honest EDS payload of a width-{} square", sq.width);
        let share = |i: usize| sq.payload[i * SHARE_SIZE..(i + 1) * SHARE_SIZE].to_vec();
        let n = sq.payload.len() / SHARE_SIZE;
        let input = match ctx.choose("eds.source", 8) {
            0 => corrupt(ctx, sq.payload.clone(), &[SHARE_SIZE, 2 * SHARE_SIZE], &mut note).await,
            1 => { note.push_str(" | empty"); vec![] }
            2 => {
                let k = *ctx.pick("eds.count", &[1usize, 2, 3, 5, 9, 25, 36, 17]);
                note.push_str(&format!(" | {k} shares"));
                (0..k).flat_map(|i| share(i % n)).collect()
            }
            3 => { let mut p = sq.payload.clone(); let j = junk_share(ctx, &sq.present[0]); p.splice(0..SHARE_SIZE.min(p.len()), j); note.push_str(" | first share replaced"); p }
            4 => { let mut p = sq.payload.clone(); p.reverse(); note.push_str(" | bytes reversed"); p }
            5 => { let mut p: Vec<u8> = (0..n).rev().flat_map(share).collect(); p.truncate(sq.payload.len()); note.push_str(" | shares in reverse order"); p }
            6 => { note.push_str(" | all 0xff"); vec![0xffu8; sq.payload.len()] }
            _ => {
                // large non-trivial square count: 33 x 33 shares
                if ctx.coin("eds.big", 100) { note.push_str(" | 1089 shares"); (0..1089).flat_map(|i| share(i % n)).collect() } else { note.push_str(" | one byte"); vec![0u8; 1] }
            }
        };
        let app = match ctx.choose("eds.app", 3) { 0 => sq.app, 1 => celestia_types::consts::appconsts::AppVersion::V1, _ => celestia_types::consts::appconsts::AppVersion::latest() };
        let Ok(id) = EdsId::new(sq.height) else { return };
        let call = Call { ctx, note };
        call.sync("shrex::decode_eds", &input, || shrex::decode_eds(&input, &id, &sq.dah, app));
    }

    async fn status(&self) {
        let ctx = self.ctx;
        let status = *ctx.pick("st.status", &[1i32, 0, 2, 3, 4, -1, i32::MAX, i32::MIN]);
        let mut frame = ProtoResponse { status }.encode_length_delimited_to_vec();
        let mut note = format!("status frame for {status}");
        match ctx.choose("st.shape", 7) {
            0 => {}
            1 => { frame = tamper_varint(ctx, &frame, 0); note.push_str(" | length rewritten"); }
            2 => { frame = vec![16]; frame.extend_from_slice(&[0x08, 0x01]); frame.extend_from_slice(&[0x10, 0x00].repeat(7)); note.push_str(" | 16-byte body with unknown fields"); }
            3 => { frame = vec![17]; frame.extend_from_slice(&[0u8; 17]); note.push_str(" | 17-byte body"); }
            4 => { frame = vec![2, 0x0a, 0x05]; note.push_str(" | wrong wire type, inner length beyond body"); }
            5 => { frame = vec![11, 0x08]; frame.extend_from_slice(&[0xff; 9]); frame.push(0x01); note.push_str(" | 10-byte status varint"); }
            _ => { frame = vec![0xff; 12]; note.push_str(" | endless length varint"); }
        }
        let input = if ctx.coin("st.link", 400) { corrupt(ctx, frame, &[0, 1], &mut note).await } else { frame };
        let plan = self.reader_plan(input.len(), 10_000);
        let (r, _h) = preloaded(ctx, plan, input.clone());
        let call = Call { ctx, note };
        self.run_async(&call, "shrex::read_status", &input, async move {
            let mut r = r;
            // the client reads the status under its 10 s receive timeout
            match tokio::time::timeout(std::time::Duration::from_secs(10), shrex::read_status(&mut r)).await {
                Ok(r) => r.map_err(|e| e.to_string()),
                Err(_) => Err("timeout".into()),
            }
        })
        .await;
    }

    async fn notification(&self) {
        let ctx = self.ctx;
        let height = *ctx.pick("ntf.height", &[5u64, 0, 1, u64::MAX, 1 << 63]);
        let data_hash = match ctx.choose("ntf.hash", 7) {
            0 => self.sq.header.header.data_hash.map(|h| h.as_bytes().to_vec()).unwrap_or_default(),
            1 => vec![0u8; 32],
            2 => vec![],
            3 => vec![1u8; 31],
            4 => vec![1u8; 33],
            5 => crate::seams::chain::empty_dah().hash().as_bytes().to_vec(),
            _ => vec![0u8; 31],
        };
        let mut note = format!("RecentEdsNotification height {height} hash {} bytes", data_hash.len());
        let bytes = RecentEdsNotification { height, data_hash }.encode_to_vec();
        let input = if ctx.coin("ntf.link", 600) { corrupt(ctx, bytes, &[1, 2], &mut note).await } else { bytes };
        let call = Call { ctx, note };
        if call.sync("shrex::eds_notification", &input, || shrex::eds_notification(&input)).is_some() {
            ctx.probe("notification_accepted");
        }
    }

    // ---------------------------------------------------------------- fraud proof

    async fn befp(&self) {
        let ctx = self.ctx;
        let width = *ctx.pick("befp.width", &[4u16, 8, 2, 16]);
        let fx = Befp::cached(ctx.range("befp.class", 0, 3), width);
        let w = fx.width as usize;
        let ods = w / 2;
        let mut raw: RawBefp = fx.raw.clone();
        let mut note = format!("honest BadEncoding proof (row {}, width {w}, parity_garbage={})", fx.index, fx.parity_garbage);
        let source = ctx.choose("befp.source", 3);
        let absent = || RawBefpShare { data: vec![], proof: None, proof_axis: 0 };
        let mut input = Vec::new();
        if source != 0 {
            for _ in 0..1 + ctx.choose("befp.mutations", 3) {
                let what = match ctx.choose("befp.mut", 16) {
                    0 => { for s in raw.shares.iter_mut().take(ods) { *s = absent(); } "data half of the axis omitted".into() }
                    1 => { for s in raw.shares.iter_mut().skip(ods) { *s = absent(); } "parity half of the axis omitted".into() }
                    2 => {
                        let mut omitted = 0;
                        for i in 0..raw.shares.len() { if ctx.coin("befp.omit", 400) { raw.shares[i] = absent(); omitted += 1; } }
                        format!("{omitted} shares omitted")
                    }
                    3 => { raw.height = *ctx.pick("befp.height", &[0u64, u64::MAX, 1 << 63, 1]); format!("height={}", raw.height) }
                    4 => { raw.header_hash = vec![1u8; *ctx.pick("befp.hashlen", &[0usize, 31, 33, 32])]; "header_hash length".into() }
                    5 => { raw.index = *ctx.pick("befp.index", &[0u32, 1, 65535, 65536, u32::MAX]); format!("index={}", raw.index) }
                    6 => { raw.index = w as u32 + ctx.range("befp.index_over", 0, 1) as u32 - 0; format!("index={}", raw.index) }
                    7 => { raw.axis = *ctx.pick("befp.axis", ENUM_EXTREMES); format!("axis={}", raw.axis) }
                    8 => {
                        let n = *ctx.pick("befp.count", &[0usize, 1, 3, 300]);
                        let src = raw.shares.clone();
                        raw.shares = (0..n).map(|i| src.get(i % src.len().max(1)).cloned().unwrap_or_else(absent)).collect();
                        format!("shares x{n}")
                    }
                    9 => { raw.shares.pop(); "one share removed".into() }
                    10 => { let s = raw.shares.first().cloned().unwrap_or_else(absent); raw.shares.push(s); "one share added".into() }
                    11 => {
                        let i = ctx.choose("befp.share_idx", raw.shares.len().max(1) as u32) as usize;
                        if let Some(s) = raw.shares.get_mut(i) {
                            s.data.resize(*ctx.pick("befp.datalen", &[0usize, 29, 512, 540, 542, 1024]), 0);
                        }
                        format!("share {i} data resized")
                    }
                    12 => {
                        let i = ctx.choose("befp.share_idx", raw.shares.len().max(1) as u32) as usize;
                        match raw.shares.get_mut(i).and_then(|s| s.proof.as_mut()) {
                            Some(p) => format!("share {i}: {}", mutate_proof(ctx, p)),
                            None => "-".into(),
                        }
                    }
                    13 => {
                        for s in raw.shares.iter_mut() { s.proof_axis ^= 1; }
                        "proof_axis of every share flipped".into()
                    }
                    14 => {
                        let i = ctx.choose("befp.share_idx", raw.shares.len().max(1) as u32) as usize;
                        if let Some(s) = raw.shares.get_mut(i) { s.proof_axis = *ctx.pick("befp.paxis", ENUM_EXTREMES); }
                        format!("share {i} proof_axis extreme")
                    }
                    _ => { let n = raw.shares.len(); if n > 1 { raw.shares.swap(0, n - 1); } "first and last share exchanged".into() }
                };
                note.push_str(&format!(" | {what}"));
            }
            input = raw.encode_to_vec();
        }
        if source != 1 {
            input = corrupt(ctx, raw.encode_to_vec(), &[1, 2], &mut note).await;
        }
        let header = if ctx.coin("befp.other_header", 80) { self.sq.header.clone() } else { fx.header.clone() };
        let call = Call { ctx, note };
        let dec = call.sync("BadEncodingFraudProof::decode", &input, || BadEncodingFraudProof::decode(&input[..]).map_err(|e| e.to_string()));
        if let Some(p) = dec {
            if source != 0 {
                ctx.probe("structured_befp_mutant_reached_validate");
            }
            if call.sync("BadEncodingFraudProof::validate", &input, || p.validate(&header).map_err(|e| e.to_string())).is_some() {
                ctx.probe(if source == 0 { "befp_validated" } else { "structured_befp_mutant_validated" });
            }
        }
    }

    // ---------------------------------------------------------------- bitswap block wrapper

    async fn block_container(&self) {
        let ctx = self.ctx;
        let sq = &self.sq;
        let Ok(expected) = verif::sample_cid(0, 0, sq.height) else { return };
        let cid = match ctx.choose("blk.cid", 5) {
            0 => expected.to_bytes(),
            1 => vec![],
            2 => vec![0x01, 0x90, 0xf0, 0x01, 0x91, 0xf0, 0x01, 0xff, 0xff, 0x03], // huge digest size
            3 => { let mut c = expected.to_bytes(); c.truncate(c.len() / 2); c }
            _ => vec![0xff; 80],
        };
        let mut note = format!("bitswap Block with a {}-byte cid", cid.len());
        let bytes = Block { cid, container: vec![1, 2, 3] }.encode_to_vec();
        let input = if ctx.coin("blk.link", 500) { corrupt(ctx, bytes, &[1, 2], &mut note).await } else { bytes };
        let call = Call { ctx, note };
        call.sync("get_block_container", &input, || verif::get_block_container(&expected, &input).map_err(|e| e.to_string()));
        // the multihasher parses the same wrapper before anything else
        let code = *ctx.pick("blk.code", &[SAMPLE_ID_MULTIHASH_CODE, ROW_ID_MULTIHASH_CODE, ROW_NAMESPACE_DATA_ID_MULTIHASH_CODE, 0x12]);
        let store = self.store().await;
        let b2 = input.clone();
        self.run_async(&call, "shwap_hash(block wrapper)", &input, async move { verif::shwap_hash(store, code, &b2).await }).await;
    }
}
