//! W-SYNC: the real `Syncer` (with its `BroadcastingStore`, `HeaderSession` and
//! `P2p::get_unverified_header_range`) over a recording store, against simulated header-ex peers.
//!
//! Peers: honest, stale, Byzantine (forged / forked / shuffled / gapped / truncated / foreign
//! answers), slow and dead ones; connection churn; lost, late and forged header-sub gossip;
//! scripted pruning; wall-clock jumps. Every peer answer goes through the real client-side
//! validation (`decode_and_verify_responses`) and the client's retry rule is mirrored (3 tries),
//! so the stub never skips a validation step the real path performs.
//!
//! Decides C24 (batch selection), C25 (no re-request behind a pruned window edge), C37 (header
//! subscriptions, through the syncer) and C38 (stays on the honest chain; converges).

use std::collections::{BTreeMap, BTreeSet};
use std::sync::{Arc, Mutex};
use std::time::Duration;

use celestia_proto::p2p::pb::header_request::Data;
use celestia_proto::p2p::pb::{HeaderRequest, HeaderResponse, StatusCode};
use celestia_types::ExtendedHeader;
use libp2p::request_response::OutboundFailure;
use lumina_node::events::{EventSubscriber, NodeEvent, TryRecvError};
use lumina_node::node::{HeaderExError, P2pError, PeerTrackerInfo};
use lumina_node::store::{InMemoryStore, Store};
use lumina_node::verif::{self, Events, MockedP2p, P2pCommand, hx};
use tendermint_proto::Protobuf;
use tokio::sync::{broadcast, mpsc, oneshot};

use crate::kernel::ctx::{RunCtx, Tier, time_to_ns};
use crate::kernel::rng::Xoshiro;
use crate::kernel::runner::{World, WorldFut};
use crate::seams::chain::{Chain, ChainParams, KeyedSet, build_header, HeaderSpec, empty_dah};
use crate::seams::rec_store::{Call, RecStore, Ret, StoreObserver};
use crate::seams::store_model::ranges_to_set;

pub struct SyncWorld {
    /// aggressive scripted pruning of any stored header (C25 focus; liveness not judged)
    pub prune_any: bool,
}

impl World for SyncWorld {
    fn name(&self) -> &'static str {
        if self.prune_any { "sync.prune_any" } else { "sync.net" }
    }
    fn run<'a>(&'a self, ctx: &'a Arc<RunCtx>) -> WorldFut<'a> {
        Box::pin(run_sync(ctx, self.prune_any))
    }
    fn vtime_cap(&self) -> Duration {
        Duration::from_secs(3600 * 24 * 2)
    }
}

const EPS_NS: i64 = 1_000_000_000;

// ------------------------------------------------------------------------------------ observer

struct ObsState {
    /// syncer's most recent reads
    last_stored: Option<BTreeSet<u64>>,
    last_pruned: Option<BTreeSet<u64>>,
    /// highest head the syncer was told (head request answer / header-sub delivery)
    max_told: u64,
    /// highest head the syncer has certainly taken notice of (head-request answers, the head
    /// of a header-sub initialisation, gossip delivered after the last fault, and whatever its
    /// own batches and header-sub insertions show); a gossip message handed over just before a
    /// disconnection may be dropped unread, so `max_told` is only an upper bound
    sure_head: u64,
    /// current batch announced by FetchingHeadersStarted
    batch: Option<(u64, u64)>,
    /// every batch announced so far (a request of a cancelled session may still be in flight)
    announced: Vec<(u64, u64)>,
    batches: u64,
    inserted_ok: u64,
}

struct Obs {
    ctx: Arc<RunCtx>,
    chain: Arc<Chain>,
    /// ground truth (read synchronously: InMemoryStore never suspends when uncontended)
    inner: Arc<InMemoryStore>,
    batch_size: u64,
    sampling_window_ns: i64,
    events: Mutex<EventSubscriber>,
    st: Mutex<ObsState>,
}

impl Obs {
    fn told(&self, h: u64) {
        let mut st = self.st.lock().unwrap();
        st.max_told = st.max_told.max(h);
    }

    fn sure(&self, h: u64) {
        let mut st = self.st.lock().unwrap();
        st.max_told = st.max_told.max(h);
        st.sure_head = st.sure_head.max(h);
    }

    /// Drain node events; called before every store call and by the harness loop, so that an
    /// event is always judged against the reads that preceded its emission.
    fn drain_events(&self) {
        let mut sub = self.events.lock().unwrap();
        loop {
            match sub.try_recv() {
                Ok(info) => {
                    // judged at the instant the event was generated (the clock may jump before it is drained)
                    let at_ns = info.time.duration_since(std::time::UNIX_EPOCH).map(|d| d.as_nanos() as i64).unwrap_or_else(|_| self.ctx.wall_now_ns());
                    self.on_event(info.event, at_ns)
                }
                Err(TryRecvError::Empty) | Err(TryRecvError::Closed) => break,
            }
        }
    }

    fn on_event(&self, ev: NodeEvent, at_ns: i64) {
        match ev {
            NodeEvent::FetchingHeadersStarted { from_height, to_height } => {
                self.ctx.ev("ev.fetch_started", from_height, to_height);
                {
                    let mut st = self.st.lock().unwrap();
                    st.sure_head = st.sure_head.max(to_height);
                }
                self.check_batch(from_height, to_height, at_ns);
            }
            NodeEvent::FetchingHeadersFinished { from_height, to_height, .. } => {
                self.ctx.ev("ev.fetch_finished", from_height, to_height);
                self.st.lock().unwrap().batch = None;
            }
            NodeEvent::FetchingHeadersFailed { from_height, to_height, .. } => {
                self.ctx.ev("ev.fetch_failed", from_height, to_height);
                self.ctx.probe("fetching_headers_failed");
            }
            NodeEvent::FatalSyncerError { error } => {
                self.ctx.ev("ev.fatal_syncer", 0, 0);
                self.ctx.note("fatal_syncer_error", error);
                self.ctx.probe("fatal_syncer_error");
            }
            NodeEvent::AddedHeaderFromHeaderSub { height } => {
                self.ctx.ev("ev.added_from_header_sub", height, 0);
                {
                    let mut st = self.st.lock().unwrap();
                    st.sure_head = st.sure_head.max(height);
                }
                self.ctx.probe("header_added_from_header_sub");
            }
            _ => {}
        }
    }

    fn check_batch(&self, from: u64, to: u64, at_ns: i64) {
        let ctx = &self.ctx;
        let mut st = self.st.lock().unwrap();
        st.batch = Some((from, to));
        st.announced.push((from, to));
        st.batches += 1;
        let (Some(stored), Some(pruned)) = (st.last_stored.clone(), st.last_pruned.clone()) else {
            return;
        };
        let synced: BTreeSet<u64> = stored.union(&pruned).copied().collect();
        ctx.oracle("C24.batch_shape");
        let desc = || format!("batch {from}..={to}, batch_size {}, head told {}, stored {:?}, pruned {:?}",
            self.batch_size, st.max_told, compact(&stored), compact(&pruned));
        if from == 0 || from > to {
            ctx.violation("C24", "batch_shape", "empty", format!("empty or invalid batch: {}", desc()));
            return;
        }
        if to - from + 1 > self.batch_size {
            ctx.violation("C24", "batch_shape", "too_long", format!("longer than the batch size: {}", desc()));
        }
        if to > st.max_told {
            ctx.violation("C24", "batch_shape", "above_head", format!("above the network head: {}", desc()));
        }
        if let Some(h) = synced.range(from..=to).next() {
            ctx.violation("C24", "batch_shape", "overlaps_synced",
                format!("height {h} is already stored or pruned: {}", desc()));
        }
        // ... and against the store itself. Only the syncer inserts and pruning only moves a
        // height from stored to pruned, so whatever order the removals and the syncer's two reads
        // took, a height that is pruned (or stored) now was stored or pruned in one of the reads
        // — unless the reads were not taken as a consistent pair.
        {
            use futures::FutureExt;
            let truly_pruned = self.inner.get_pruned_ranges().now_or_never().and_then(|r| r.ok()).map(|r| ranges_to_set(&r));
            let truly_stored = self.inner.get_stored_header_ranges().now_or_never().and_then(|r| r.ok()).map(|r| ranges_to_set(&r));
            if let (Some(tp), Some(ts)) = (truly_pruned, truly_stored) {
                ctx.oracle("C24.batch_vs_store");
                if let Some(h) = tp.range(from..=to).next() {
                    ctx.violation("C24", "batch_vs_store", "requests_pruned_height",
                        format!("height {h} of the announced batch is pruned in the store (pruned {:?}): {}", compact(&tp), desc()));
                } else if let Some(h) = ts.range(from..=to).next() {
                    ctx.violation("C24", "batch_vs_store", "requests_stored_height",
                        format!("height {h} of the announced batch is stored (stored {:?}): {}", compact(&ts), desc()));
                }
            }
        }
        // placement
        ctx.oracle("C24.placement");
        let max_synced = synced.iter().next_back().copied();
        let below_highest_range = |synced: &BTreeSet<u64>| {
            let mut start = *synced.iter().next_back().unwrap();
            while start > 1 && synced.contains(&(start - 1)) {
                start -= 1;
            }
            to + 1 == start
        };
        let ok = match max_synced {
            None => true, // nothing synced: any sub-range is acceptable (the syncer inserts the head first)
            // A head may have been announced that the syncer has not processed yet, so when the
            // highest synced height is below the highest head told, both placements are legal.
            Some(m) if m < st.max_told => from == m + 1 || below_highest_range(&synced),
            Some(_) => below_highest_range(&synced),
        };
        if !ok {
            ctx.violation("C24", "placement", "not_adjacent",
                format!("batch is neither directly above the highest synced height nor directly below the highest synced range: {}", desc()));
        }
        // C25: never below a synced header that is older than the sampling window
        if let Some(m) = max_synced {
            if to < m {
                ctx.oracle("C25.window_edge");
                let edge = to + 1;
                if synced.contains(&edge) && edge <= self.chain.len() {
                    let t = time_to_ns(self.chain.time_of(edge));
                    let now = at_ns;
                    if t < now - self.sampling_window_ns - EPS_NS {
                        let key = if stored.contains(&edge) { "bounding_header_stored" } else { "bounding_header_pruned" };
                        ctx.violation("C25", "window_edge", key,
                            format!("batch {from}..={to} lies below synced header {edge} ({}) whose time is {} s older than the sampling window edge",
                                if stored.contains(&edge) { "stored" } else { "pruned" },
                                (now - self.sampling_window_ns - t) / 1_000_000_000));
                    }
                }
            }
        }
    }
}

impl StoreObserver for Obs {
    fn before(&self, _tag: &'static str, _call: &Call) {
        self.drain_events();
    }

    fn after(&self, tag: &'static str, call: &Call, ret: &Ret) {
        if tag != "syncer" {
            return;
        }
        match (call, ret) {
            (Call::GetStored, Ret::Ranges(r)) => {
                self.st.lock().unwrap().last_stored = Some(ranges_to_set(r));
            }
            (Call::GetPruned, Ret::Ranges(r)) => {
                self.st.lock().unwrap().last_pruned = Some(ranges_to_set(r));
            }
            (Call::Insert(batch), Ret::Unit) => {
                // C38 safety: everything the store accepted is the honest block of its height
                self.st.lock().unwrap().inserted_ok += batch.len() as u64;
                for h in batch {
                    self.ctx.oracle("C38.only_honest_headers");
                    let honest = h.height() <= self.chain.len() && {
                        let g = self.chain.get(h.height());
                        // consensus content only: the block hash, every hashed header field,
                        // the DAH and the (key, power) list of the validator set. Commit
                        // signatures above quorum and un-hashed validator metadata (proposer
                        // priority, proposer field) are legitimately malleable.
                        g.hash() == h.hash()
                            && g.header == h.header
                            && g.dah == h.dah
                            && g.validator_set.validators().len() == h.validator_set.validators().len()
                            && g.validator_set.validators().iter().zip(h.validator_set.validators()).all(|(a, b)| a.pub_key == b.pub_key && a.power == b.power)
                    };
                    if !honest {
                        self.ctx.violation("C38", "only_honest_headers", "store_insert",
                            format!("the store accepted a header at height {} (hash {}) that is not the honest block of that height", h.height(), h.hash()));
                    }
                }
            }
            _ => {}
        }
    }
}

fn compact(s: &BTreeSet<u64>) -> Vec<(u64, u64)> {
    let mut out: Vec<(u64, u64)> = Vec::new();
    for h in s {
        match out.last_mut() {
            Some((_, e)) if *e + 1 == *h => *e = *h,
            _ => out.push((*h, *h)),
        }
    }
    out
}

// ------------------------------------------------------------------------------------ peers

#[derive(Clone, Copy, Debug, PartialEq, Eq)]
enum Behaviour {
    Honest,
    /// serves honest data but believes an older head
    Stale(u64),
    Byzantine,
    /// answers after the protocol timeout
    Slow,
    Dead,
}

#[derive(Clone, Debug)]
struct SimPeer {
    trusted: bool,
    archival: bool,
    behaviour: Behaviour,
    connected: bool,
}

struct Net {
    ctx: Arc<RunCtx>,
    chain: Arc<Chain>,
    peers: Mutex<Vec<SimPeer>>,
    /// faults enabled?
    faults_on: Mutex<bool>,
    byz_set: KeyedSet,
    /// how far in the past the "old" forks are dated
    old_fork_shift_ns: i64,
    frng: Mutex<Xoshiro>,
    max_delay_ms: u32,
    obs: Arc<Obs>,
}

fn to_resp(h: &ExtendedHeader) -> HeaderResponse {
    HeaderResponse {
        body: h.clone().encode_vec(),
        status_code: StatusCode::Ok.into(),
    }
}

fn status(code: StatusCode) -> HeaderResponse {
    HeaderResponse { body: vec![], status_code: code.into() }
}

impl Net {
    /// network head height at the current virtual time (highest block whose time has passed)
    fn network_head(&self) -> u64 {
        let now = self.ctx.wall_now_ns();
        let c = &self.chain;
        let h = (now - c.base_time_ns) / (c.block_time_ms as i64 * 1_000_000);
        (h.max(1) as u64).min(c.len())
    }

    fn info(&self) -> PeerTrackerInfo {
        let peers = self.peers.lock().unwrap();
        let mut i = PeerTrackerInfo::default();
        for p in peers.iter().filter(|p| p.connected) {
            i.num_connected_peers += 1;
            if p.trusted {
                i.num_connected_trusted_peers += 1;
            }
            if p.archival {
                i.num_connected_archival_nodes += 1;
            }
        }
        i
    }

    fn pick_peer(&self, archival_only: bool, trusted_only: bool) -> Option<SimPeer> {
        let peers = self.peers.lock().unwrap();
        let c: Vec<&SimPeer> = peers
            .iter()
            .filter(|p| p.connected && (!archival_only || p.archival) && (!trusted_only || p.trusted))
            .collect();
        if c.is_empty() {
            return None;
        }
        Some(c[self.ctx.choose("net.pick_peer", c.len() as u32) as usize].clone())
    }

    /// What `peer` answers to a height request.
    fn answer(&self, peer: &SimPeer, origin: u64, amount: u64) -> Option<Vec<HeaderResponse>> {
        let ctx = &self.ctx;
        let head = match peer.behaviour {
            Behaviour::Stale(k) => self.network_head().saturating_sub(k).max(1),
            _ => self.network_head(),
        };
        let honest = |lo: u64, n: u64| -> Vec<HeaderResponse> {
            let hi = (lo + n - 1).min(head);
            if lo > head || lo == 0 {
                return vec![status(StatusCode::NotFound)];
            }
            (lo..=hi).map(|h| to_resp(self.chain.get(h))).collect()
        };
        let n = amount.min(512);
        match peer.behaviour {
            Behaviour::Honest | Behaviour::Stale(_) => Some(honest(origin, n)),
            Behaviour::Dead | Behaviour::Slow => None,
            Behaviour::Byzantine => {
                ctx.fault("byzantine_answer");
                let mut frng = self.frng.lock().unwrap();
                let mut v = honest(origin, n);
                let kind = ctx.choose("byz.kind", 12);
                ctx.ev("byz", kind as u64, origin);
                match kind {
                    0 | 11 => {
                        // a self-consistent fork signed by the attacker's own validator set
                        // (11: dated long before the pruning window, which must not influence
                        // how the syncer treats the honest headers of these heights)
                        let back_ns: i64 = if kind == 11 { self.old_fork_shift_ns } else { 0 };
                        let hi = (origin + n - 1).min(head.max(origin));
                        let mut out: Vec<ExtendedHeader> = Vec::new();
                        for h in origin..=hi.min(origin + 63) {
                            let hdr = {
                                let prev = out.last().or_else(|| {
                                    if h > 1 && h - 1 <= self.chain.len() { Some(self.chain.get(h - 1)) } else { None }
                                });
                                build_header(&mut frng, HeaderSpec {
                                    chain_id: &self.chain.chain_id,
                                    height: h,
                                    time: crate::kernel::ctx::time_from_ns(time_to_ns(self.chain.time_of(h)) - back_ns),
                                    prev,
                                    set: &self.byz_set,
                                    next_set: &self.byz_set,
                                    dah: empty_dah(),
                                    app_version: 1,
                                    votes: None,
                                })
                            };
                            out.push(hdr);
                        }
                        v = out.iter().map(to_resp).collect();
                    }
                    1 => {
                        // honest validator set, forged header field, attacker signatures
                        if let Some(i) = pick_ok(ctx, &v) {
                            let mut h = ExtendedHeader::decode(&v[i].body[..]).unwrap();
                            h.header.app_hash = vec![7u8; 32].try_into().unwrap();
                            crate::seams::chain::rehash_and_resign(&mut h, &self.byz_set);
                            v[i] = to_resp(&h);
                        }
                    }
                    2 => {
                        // corrupt one body byte
                        if let Some(i) = pick_ok(ctx, &v) {
                            let n = v[i].body.len();
                            let at = ctx.choose("byz.byte", n as u32) as usize;
                            v[i].body[at] ^= 1 << ctx.choose("byz.bit", 8);
                        }
                    }
                    3 => v.reverse(),
                    4 => {
                        if v.len() > 2 {
                            let i = 1 + ctx.choose("byz.gap", (v.len() - 2) as u32) as usize;
                            v.remove(i);
                        }
                    }
                    5 => {
                        if v.len() > 1 {
                            let k = ctx.choose("byz.trunc", v.len() as u32) as usize;
                            v.truncate(k);
                        }
                    }
                    6 => v = vec![status(StatusCode::NotFound)],
                    7 => v = honest(origin + 1 + ctx.range("byz.shift", 0, 5), n),
                    8 => {
                        if let Some(f) = v.first().cloned() {
                            v.insert(0, f);
                        }
                    }
                    9 => {
                        // foreign chain id, honest keys unavailable => attacker keys
                        if let Some(i) = pick_ok(ctx, &v) {
                            let mut h = ExtendedHeader::decode(&v[i].body[..]).unwrap();
                            h.header.chain_id = "other-chain".try_into().unwrap();
                            crate::seams::chain::rehash_and_resign(&mut h, &self.byz_set);
                            v[i] = to_resp(&h);
                        }
                    }
                    _ => v = vec![status(StatusCode::Invalid)],
                }
                Some(v)
            }
        }
    }

    /// Serve one non-head header-ex request the way the real client would: up to 3 tries, each
    /// answer validated by the real `decode_and_verify_responses`.
    async fn serve_request(
        self: Arc<Self>,
        request: HeaderRequest,
        respond_to: oneshot::Sender<Result<Vec<ExtendedHeader>, P2pError>>,
    ) {
        let ctx = self.ctx.clone();
        let (origin, amount) = match &request.data {
            Some(Data::Origin(o)) => (*o, request.amount),
            _ => (0, request.amount),
        };
        if amount == 0 || request.data.is_none() {
            let _ = respond_to.send(Err(P2pError::HeaderEx(HeaderExError::InvalidRequest)));
            return;
        }
        let mut last_err = HeaderExError::HeaderNotFound;
        for attempt in 0..3 {
            // wait for a suitable connected peer (the real client keeps the request pending)
            let peer = loop {
                if respond_to.is_closed() {
                    return;
                }
                let want_archival = attempt == 2 && self.peers.lock().unwrap().iter().any(|p| p.connected && p.archival);
                if let Some(p) = self.pick_peer(want_archival, false) {
                    break p;
                }
                tokio::time::sleep(Duration::from_millis(100)).await;
            };
            let d = ctx.delay("net.latency", self.max_delay_ms);
            tokio::time::sleep(d).await;
            let drop_it = *self.faults_on.lock().unwrap() && ctx.coin("net.drop", 30);
            if drop_it {
                ctx.fault("message_dropped");
            }
            let answer = if drop_it { None } else { self.answer(&peer, origin, amount) };
            let res = match answer {
                None => {
                    // libp2p request timeout
                    tokio::time::sleep(Duration::from_secs(10)).await;
                    ctx.fault("request_timeout");
                    Err(HeaderExError::OutboundFailure(OutboundFailure::Timeout))
                }
                Some(resps) => hx::decode_and_verify_responses(&request, &resps).await,
            };
            match res {
                Ok(headers) => {
                    ctx.ev("net.resp_ok", origin, headers.len() as u64);
                    let _ = respond_to.send(Ok(headers));
                    return;
                }
                Err(e) => {
                    ctx.ev("net.resp_err", origin, attempt);
                    last_err = e;
                }
            }
        }
        let _ = respond_to.send(Err(P2pError::HeaderEx(last_err)));
    }

    /// Head request: best-head rule over the connected trusted peers.
    async fn serve_head(
        self: Arc<Self>,
        respond_to: oneshot::Sender<Result<Vec<ExtendedHeader>, P2pError>>,
    ) {
        let ctx = self.ctx.clone();
        loop {
            if respond_to.is_closed() {
                return;
            }
            let trusted: Vec<SimPeer> = self
                .peers
                .lock()
                .unwrap()
                .iter()
                .filter(|p| p.connected && p.trusted)
                .cloned()
                .collect();
            if trusted.is_empty() {
                tokio::time::sleep(Duration::from_millis(100)).await;
                continue;
            }
            tokio::time::sleep(ctx.delay("net.latency", self.max_delay_ms)).await;
            let nh = self.network_head();
            let mut reports: Vec<u64> = Vec::new();
            for p in &trusted {
                match p.behaviour {
                    Behaviour::Honest | Behaviour::Byzantine => reports.push(nh),
                    Behaviour::Stale(k) => reports.push(nh.saturating_sub(k).max(1)),
                    Behaviour::Slow | Behaviour::Dead => {}
                }
            }
            if reports.is_empty() {
                tokio::time::sleep(Duration::from_secs(10)).await;
                continue;
            }
            let mut counts: BTreeMap<u64, usize> = BTreeMap::new();
            for r in &reports {
                *counts.entry(*r).or_default() += 1;
            }
            let best = counts
                .iter()
                .rev()
                .find(|(_, c)| **c >= 2)
                .map(|(h, _)| *h)
                .unwrap_or_else(|| *counts.keys().next_back().unwrap());
            ctx.ev("net.head", best, nh);
            if respond_to.send(Ok(vec![self.chain.get(best).clone()])).is_ok() {
                self.obs.sure(best);
            }
            return;
        }
    }
}

fn pick_ok(ctx: &RunCtx, v: &[HeaderResponse]) -> Option<usize> {
    let oks: Vec<usize> = v
        .iter()
        .enumerate()
        .filter(|(_, r)| r.status_code == i32::from(StatusCode::Ok))
        .map(|(i, _)| i)
        .collect();
    if oks.is_empty() {
        None
    } else {
        Some(oks[ctx.choose("byz.which", oks.len() as u32) as usize])
    }
}

// ------------------------------------------------------------------------------------ the run

struct SubState {
    rx: broadcast::Receiver<ExtendedHeader>,
    got: Vec<u64>,
    lagged: u64,
    prompt: bool,
    subscribed_at_head: u64,
}

async fn run_sync(ctx: &Arc<RunCtx>, prune_any: bool) {
    let thorough = ctx.tier == Tier::Thorough;
    // ---- configuration (swarm style)
    let block_time_ms = *ctx.pick("cfg.block_time", &[6000u64, 3000, 12000, 30000]);
    let chain_len = ctx.range("cfg.chain_len", 40, if thorough { 600 } else { 220 });
    // how many blocks lie in the future at t=0 (they become network heads as time advances)
    // one long suspension (laptop lid closed): the wall clock jumps past the whole pruning window
    // while the process keeps its state; everything stored is outside both windows afterwards.
    // Such runs get short windows and many future blocks so that the chain outlasts the jump.
    let suspend = ctx.coin("cfg.suspend", 200);
    let future_blocks = if suspend { (chain_len / 2).max(6) } else { ctx.range("cfg.future_blocks", 5, (chain_len / 3).max(6)) };
    let chain = Chain::cached(ChainParams {
        class: ctx.range("cfg.chain_class", 0, 3),
        len: chain_len,
        validators: 1,
        block_time_ms,
        head_offset_ms: (future_blocks * block_time_ms) as i64,
    });
    let span_s = chain_len * block_time_ms / 1000;
    let sampling_window = Duration::from_secs(if suspend {
        ctx.range("cfg.sampling_window_s", span_s / 16 + 10, span_s / 6 + 10)
    } else {
        ctx.range("cfg.sampling_window_s", span_s / 8 + 10, span_s * 2 + 60)
    });
    // pruning window never smaller than the sampling window here (the slow-sync throttle would
    // otherwise need a real daser); it may be smaller than the chain's age
    let pruning_window = sampling_window + Duration::from_secs(ctx.range("cfg.pruning_extra_s", 0, if suspend { 30 } else { 3600 }));
    let batch_size = *ctx.pick("cfg.batch_size", &[16u64, 1, 7, 64, 100, 512, 600]);
    // delay before each store call of the syncer: mostly none or a few ms, sometimes long enough
    // for the pruner / header-sub to act between two consecutive calls
    let store_delay = *ctx.pick("cfg.store_delay", &[0u32, 1, 2, 3, 30, 600]);
    let n_peers = ctx.range("cfg.peers", 1, 8) as usize;
    let byz_permille = if ctx.coin("cfg.byz_on", 600) { ctx.range("cfg.byz_permille", 50, 600) as u32 } else { 0 };
    // faults stop at least four block times before the pre-generated chain runs out of new heads
    let fault_phase_s = ctx.range("cfg.fault_phase_s", 10, (future_blocks.saturating_sub(4) * block_time_ms / 1000).max(10));
    let churn = ctx.coin("cfg.churn", 500);
    let gossip_loss = if ctx.coin("cfg.gossip_loss_on", 400) { ctx.range("cfg.gossip_loss", 50, 700) as u32 } else { 0 };
    let clock_jumps = ctx.coin("cfg.clock_jumps", 150);
    let mut suspend_left = if suspend { 1u32 } else { 0 };
    let prune_on = prune_any || suspend || ctx.coin("cfg.prune_on", 500);
    let prefill = ctx.coin("cfg.prefill", 400);
    // the scripted sampler normally marks everything stored as sampled at once; a lazy one never
    // does (data sampling stalled): with pruning window >= sampling window the syncer must still
    // fill the sampling window (the slow-sync throttle only concerns older heights)
    let sampler_lazy = ctx.coin("cfg.sampler_lazy", 250);
    ctx.note("config", format!("len={chain_len} bt={block_time_ms} sw={}s pw={}s batch={batch_size} peers={n_peers} byz={byz_permille} faults={fault_phase_s}s churn={churn} prune={prune_on}",
        sampling_window.as_secs(), pruning_window.as_secs()));

    // ---- components
    let events = Events::new();
    let inner = Arc::new(InMemoryStore::new());
    let obs = Arc::new(Obs {
        ctx: ctx.clone(),
        chain: chain.clone(),
        inner: inner.clone(),
        batch_size,
        sampling_window_ns: sampling_window.as_nanos() as i64,
        events: Mutex::new(events.subscribe()),
        st: Mutex::new(ObsState {
            last_stored: None,
            last_pruned: None,
            max_told: 0,
            sure_head: 0,
            batch: None,
            announced: Vec::new(),
            batches: 0,
            inserted_ok: 0,
        }),
    });
    let store_syncer = RecStore::new(inner.clone(), "syncer", ctx, obs.clone(), store_delay);
    let store_env = RecStore::new(inner.clone(), "env", ctx, obs.clone(), 0);

    // optional pre-filled store (an earlier session): some honest ranges, some pruned
    let net_head0 = chain_len - future_blocks;
    if prefill && net_head0 > 30 {
        let hi = ctx.range("prefill.hi", 10, net_head0 - 5);
        let lo = ctx.range("prefill.lo", 1, hi);
        let hs: Vec<ExtendedHeader> = (lo..=hi).map(|h| chain.get(h).clone()).collect();
        let _ = inner.insert(hs).await;
        // an earlier session's pruner only removed what was outside the sampling window
        let n_pruned = ctx.range("prefill.pruned", 0, (hi - lo).min(20));
        let now_ns = ctx.wall_now_ns();
        for i in 0..n_pruned {
            if time_to_ns(chain.time_of(lo + i)) < now_ns - sampling_window.as_nanos() as i64 - EPS_NS {
                let _ = inner.remove_height(lo + i).await;
            }
        }
        ctx.ev("prefill", lo, hi);
    }

    let (p2p, mut mock): (_, MockedP2p) = verif::mocked_p2p();
    let mut peers: Vec<SimPeer> = Vec::new();
    for i in 0..n_peers {
        let behaviour = if i == 0 {
            Behaviour::Honest
        } else if ctx.coin("peer.byz", byz_permille) {
            Behaviour::Byzantine
        } else {
            match ctx.choose("peer.kind", 6) {
                0 | 1 | 2 => Behaviour::Honest,
                3 => Behaviour::Stale(ctx.range("peer.stale_by", 1, 20)),
                4 => Behaviour::Slow,
                _ => Behaviour::Dead,
            }
        };
        // trusted peers serve only honest (possibly stale) data: the trust assumption of bootnodes
        let trusted = i == 0 || (matches!(behaviour, Behaviour::Honest | Behaviour::Stale(_)) && ctx.coin("peer.trusted", 400));
        peers.push(SimPeer {
            trusted,
            archival: i == 0 || ctx.coin("peer.archival", 300),
            behaviour,
            connected: ctx.coin("peer.connected_at_start", 700),
        });
    }
    let mut fr = ctx.fixture_rng(7);
    let net = Arc::new(Net {
        ctx: ctx.clone(),
        chain: chain.clone(),
        peers: Mutex::new(peers),
        faults_on: Mutex::new(true),
        byz_set: KeyedSet::generate(&mut fr, 1 + (ctx.choose("byz.set_size", 3) as usize), 1000),
        old_fork_shift_ns: (pruning_window.as_nanos() as i64) + (span_s as i64 + 3600) * 1_000_000_000,
        frng: Mutex::new(ctx.fixture_rng(8)),
        max_delay_ms: ctx.range("cfg.net_delay_ms", 0, 3000) as u32,
        obs: obs.clone(),
    });
    mock.set_peer_info(net.info());

    let syncer = match verif::start_syncer(&p2p, store_syncer.clone(), &events, batch_size, sampling_window, pruning_window) {
        Ok(s) => s,
        Err(e) => {
            ctx.note("syncer_start_error", e.to_string());
            return;
        }
    };

    // ---- subscribers (C37 through the syncer)
    let mut subs: Vec<SubState> = Vec::new();
    let mut header_sub: Option<(ExtendedHeader, mpsc::Sender<ExtendedHeader>)> = None;
    let mut next_gossip_height = 0u64;
    let mut initial_head: Option<u64> = None;

    let start_ms = ctx.now_ms();
    let faults_end_ms = start_ms + fault_phase_s * 1000;
    let mut faults_on = true;
    // liveness deadline is fixed once faults stop
    let mut deadline_ms = u64::MAX;
    let mut tick = tokio::time::interval(Duration::from_millis(500));
    tick.set_missed_tick_behavior(tokio::time::MissedTickBehavior::Delay);
    let mut serve_tasks = tokio::task::JoinSet::new();

    loop {
        obs.drain_events();
        if ctx.over_step_cap() || !ctx.findings.lock().unwrap().is_empty() {
            break;
        }
        let now_ms = ctx.now_ms();
        if faults_on && now_ms >= faults_end_ms {
            // ---- faults stop: one honest trusted archival peer stays connected, Byzantine,
            // slow and dead peers leave
            faults_on = false;
            *net.faults_on.lock().unwrap() = false;
            {
                let mut ps = net.peers.lock().unwrap();
                for (i, p) in ps.iter_mut().enumerate() {
                    if i == 0 {
                        p.connected = true;
                    } else if !matches!(p.behaviour, Behaviour::Honest) {
                        p.connected = false;
                    }
                }
            }
            mock.set_peer_info(net.info());
            ctx.ev("faults_stop", now_ms, 0);
            let outstanding = chain_len.div_ceil(batch_size.max(1));
            deadline_ms = now_ms + 400_000 + 30_000 * outstanding.min(200) + 12 * block_time_ms;
        }
        if now_ms >= deadline_ms {
            break;
        }

        tokio::select! {
            biased;
            cmd = mock.recv() => {
                let Some(cmd) = cmd else { break; };
                match cmd {
                    P2pCommand::HeaderEx { request, respond_to } => {
                        let is_head = matches!((&request.data, request.amount), (Some(Data::Origin(0)), 1));
                        ctx.ev("cmd.header_ex", match &request.data { Some(Data::Origin(o)) => *o, _ => u64::MAX }, request.amount);
                        // C24: every request of the session lies inside the announced batch
                        if !is_head {
                            // judged against every batch announced so far: a request of a
                            // session that was cancelled on disconnection may still be in flight
                            obs.drain_events();
                            let announced = obs.st.lock().unwrap().announced.clone();
                            if let (Some(Data::Origin(o)), false) = (&request.data, announced.is_empty()) {
                                ctx.oracle("C24.request_inside_batch");
                                let end = o.saturating_add(request.amount.saturating_sub(1));
                                if !announced.iter().any(|(bf, bt)| *o >= *bf && end <= *bt) {
                                    ctx.violation("C24", "request_inside_batch", "session",
                                        format!("header-ex request origin={o} amount={} lies inside none of the announced batches (latest {:?})", request.amount, announced.last()));
                                }
                            }
                        }
                        if is_head {
                            serve_tasks.spawn(net.clone().serve_head(respond_to));
                        } else {
                            serve_tasks.spawn(net.clone().serve_request(request, respond_to));
                        }
                    }
                    P2pCommand::InitHeaderSub { head, channel } => {
                        ctx.ev("cmd.init_header_sub", head.height(), 0);
                        obs.sure(head.height());
                        if initial_head.is_none() {
                            initial_head = Some(head.height());
                        } else {
                            ctx.probe("header_sub_reinitialised");
                        }
                        next_gossip_height = next_gossip_height.max(head.height() + 1);
                        header_sub = Some((*head, channel));
                    }
                    P2pCommand::GetNetworkHead { respond_to } => {
                        if let Some((h, _)) = header_sub.as_ref() {
                            obs.told(h.height());
                        }
                        let _ = respond_to.send(header_sub.as_ref().map(|(h, _)| h.clone()));
                    }
                    P2pCommand::GetNetworkCompromisedToken { respond_to } => {
                        let _ = respond_to.send(lumina_utils::token::Token::new());
                    }
                    _ => {}
                }
            }
            Some(_) = serve_tasks.join_next(), if !serve_tasks.is_empty() => {}
            _ = tick.tick() => {
                // ---- gossip: announce blocks whose time has come
                let nh = net.network_head();
                if let Some((known, ch)) = header_sub.as_mut() {
                    while next_gossip_height <= nh {
                        let h = next_gossip_height;
                        next_gossip_height += 1;
                        // no connected peer, no gossip: the heads announced meanwhile are simply
                        // missed (the syncer learns the new head when it re-initialises)
                        if net.info().num_connected_peers == 0 {
                            ctx.fault("gossip_missed_while_disconnected");
                            continue;
                        }
                        if faults_on && ctx.coin("gossip.lost", gossip_loss) {
                            ctx.fault("gossip_lost");
                            continue;
                        }
                        let mut hdr = chain.get(h).clone();
                        if faults_on && ctx.coin("gossip.forged", 60) {
                            ctx.fault("gossip_forged");
                            hdr.header.app_hash = vec![9u8; 32].try_into().unwrap();
                            crate::seams::chain::rehash_and_resign(&mut hdr, &net.byz_set);
                        }
                        // mirror of P2p::Worker::on_header_sub_message
                        let bytes = hdr.encode_vec();
                        let Ok(decoded) = ExtendedHeader::decode_and_validate(&bytes) else { continue };
                        if known.verify(&decoded).is_err() {
                            ctx.probe("gossip_header_failed_verify");
                            continue;
                        }
                        if decoded.hash() != chain.get(h).hash() {
                            ctx.oracle("C38.only_honest_headers");
                            ctx.violation("C38", "only_honest_headers", "header_sub",
                                format!("a forged header at height {h} passed header-sub verification"));
                        }
                        *known = decoded.clone();
                        ctx.ev("gossip", h, 0);
                        // like the real worker: never block on the syncer; a full channel
                        // loses the announcement
                        if ch.try_send(decoded).is_ok() {
                            // after the last fault nothing can make the syncer drop it unread
                            if faults_on { obs.told(h) } else { obs.sure(h) }
                        } else {
                            ctx.probe("header_sub_channel_full");
                        }
                    }
                }
                // ---- faults
                if faults_on {
                    if churn && ctx.coin("churn.event", 120) {
                        let mut ps = net.peers.lock().unwrap();
                        match ctx.choose("churn.kind", 3) {
                            0 => {
                                for p in ps.iter_mut() { p.connected = false; }
                                ctx.fault("all_peers_disconnected");
                            }
                            1 => {
                                let i = ctx.choose("churn.peer", ps.len() as u32) as usize;
                                ps[i].connected = !ps[i].connected;
                                ctx.fault("peer_connection_flipped");
                            }
                            _ => {
                                for p in ps.iter_mut() { if !p.connected && ctx.coin("churn.reconnect", 600) { p.connected = true; } }
                                ctx.fault("peers_reconnected");
                            }
                        }
                        drop(ps);
                        mock.set_peer_info(net.info());
                    }
                    if suspend_left > 0 && ctx.coin("clock.suspend", 25) {
                        let jump_ms = pruning_window.as_millis() as u64 + ctx.range("clock.suspend_extra_ms", 0, 60_000);
                        let blocks = jump_ms / block_time_ms + 1;
                        // only while the pre-generated chain still has heads to announce afterwards
                        if net.network_head() + blocks + 8 < chain.len() {
                            suspend_left -= 1;
                            ctx.fault("suspended_longer_than_pruning_window");
                            ctx.ev("clock.suspend", jump_ms, 0);
                            ctx.jump_wall_clock(jump_ms as i64 * 1_000_000);
                            // what was announced meanwhile is gone; gossip resumes at the head
                            next_gossip_height = next_gossip_height.max(net.network_head());
                        }
                    }
                    if clock_jumps && ctx.coin("clock.jump", 20) {
                        ctx.jump_wall_clock(ctx.range("clock.jump_ms", 1, 120_000) as i64 * 1_000_000);
                    }
                }
                // ---- scripted sampler + pruner
                if let (Ok(stored), Ok(sampled)) = (inner.get_stored_header_ranges().await, inner.get_sampled_ranges().await) {
                    let stored = ranges_to_set(&stored);
                    let sampled = ranges_to_set(&sampled);
                    if !sampler_lazy {
                        for h in stored.difference(&sampled) {
                            let _ = inner.mark_as_sampled(*h).await;
                        }
                    }
                    if prune_on && (faults_on || prune_any) && ctx.coin("prune.event", if prune_any { 250 } else { 100 }) && !stored.is_empty() {
                        let now_ns = ctx.wall_now_ns();
                        let cands: Vec<u64> = stored.iter().copied().filter(|h| {
                            prune_any || time_to_ns(chain.time_of(*h)) < now_ns - pruning_window.as_nanos() as i64
                        }).collect();
                        if !cands.is_empty() {
                            // prune a run of headers from the tail, or any single header; now
                            // and then everything that is out of the window (the real pruner
                            // works in batches of 512)
                            let k = if ctx.coin("prune.sweep", 200) { cands.len() as u64 } else { ctx.range("prune.count", 1, 6).min(cands.len() as u64) };
                            for j in 0..k {
                                let h = if prune_any && ctx.coin("prune.random", 300) {
                                    cands[ctx.choose("prune.idx", cands.len() as u32) as usize]
                                } else {
                                    cands[j as usize]
                                };
                                if store_env.remove_height(h).await.is_ok() {
                                    ctx.fault("scripted_prune");
                                }
                            }
                        }
                    }
                }
                // ---- subscribers
                if subs.len() < 3 && initial_head.is_some() && ctx.coin("sub.new", 60) {
                    if let Ok(rx) = syncer.subscribe_headers().await {
                        subs.push(SubState { rx, got: vec![], lagged: 0, prompt: ctx.coin("sub.prompt", 700), subscribed_at_head: obs.st.lock().unwrap().max_told });
                        ctx.ev("sub.new", subs.len() as u64, 0);
                    }
                }
            }
        }
        // drain subscribers (prompt ones always; slow ones sometimes)
        for (i, s) in subs.iter_mut().enumerate() {
            if !s.prompt && !ctx.coin("sub.slow_poll", 30) {
                continue;
            }
            loop {
                match s.rx.try_recv() {
                    Ok(h) => {
                        check_sub_delivery(ctx, i, s, &h, &inner).await;
                    }
                    Err(broadcast::error::TryRecvError::Lagged(n)) => {
                        ctx.probe("subscriber_lagged");
                        s.lagged += n;
                        s.got.clear();
                    }
                    Err(_) => break,
                }
            }
        }
    }

    obs.drain_events();
    // ---- C38 liveness: after faults stopped and an honest trusted archival peer stayed
    // connected, every height in the sampling window up to the network head is stored
    let st_batches = obs.st.lock().unwrap().batches;
    ctx.note("batches", st_batches.to_string());
    if !faults_on && ctx.now_ms() >= deadline_ms && !prune_any && ctx.findings.lock().unwrap().is_empty() {
        let fatal = ctx.probes.lock().unwrap().contains_key("fatal_syncer_error");
        let now_ns = ctx.wall_now_ns();
        let nh = net.network_head();
        // heads younger than two block times may still be in flight
        // ... and the node can only know about heads it was told about
        let settled_head = nh.saturating_sub(2).min(obs.st.lock().unwrap().sure_head);
        let stored = inner.get_stored_header_ranges().await.map(|r| ranges_to_set(&r)).unwrap_or_default();
        let pruned = inner.get_pruned_ranges().await.map(|r| ranges_to_set(&r)).unwrap_or_default();
        ctx.oracle("C38.converges");
        let missing: Vec<u64> = (1..=settled_head)
            .filter(|h| time_to_ns(chain.time_of(*h)) > now_ns - sampling_window.as_nanos() as i64 + EPS_NS)
            .filter(|h| !stored.contains(h) && !pruned.contains(h))
            .collect();
        if !missing.is_empty() {
            ctx.violation("C38", "converges", if fatal { "syncer_died" } else { "missing_heights" },
                format!("{} virtual s after the last fault (honest trusted archival peer connected), {} heights inside the sampling window are not stored, e.g. {:?}; network head {nh}, stored {:?}, pruned {:?}; fatal syncer error: {:?}",
                    (ctx.now_ms() - faults_end_ms) / 1000, missing.len(), &missing[..missing.len().min(6)], compact(&stored), compact(&pruned),
                    ctx.notes.lock().unwrap().get("fatal_syncer_error")));
        } else {
            ctx.probe("converged");
        }
        // C37 liveness through the syncer: a prompt subscriber that never lagged has every
        // height after its first one up to the settled head
        for (i, s) in subs.iter().enumerate() {
            if s.prompt && s.lagged == 0 {
                if let (Some(first), Some(last)) = (s.got.first(), s.got.last()) {
                    ctx.oracle("C37.complete_at_quiescence");
                    if *last < settled_head.min(stored.iter().next_back().copied().unwrap_or(0)) && *first <= settled_head {
                        // only a violation if all heights up to settled_head above the initial head are stored
                        let all_stored = (*last + 1..=settled_head).all(|h| stored.contains(&h));
                        if all_stored {
                            ctx.violation("C37", "complete_at_quiescence", "through_syncer",
                                format!("prompt subscriber {i} stopped at height {last} although every height up to {settled_head} is stored"));
                        }
                    }
                }
            }
        }
    }
    syncer.stop();
    serve_tasks.abort_all();
    syncer.join().await;
}

async fn check_sub_delivery(ctx: &RunCtx, i: usize, s: &mut SubState, h: &ExtendedHeader, store: &InMemoryStore) {
    let height = h.height();
    ctx.ev("sub.recv", i as u64, height);
    ctx.oracle("C37.increasing_consecutive");
    if let Some(prev) = s.got.last() {
        if height != prev + 1 {
            ctx.violation("C37", "increasing_consecutive", "through_syncer",
                format!("subscriber {i} received height {height} after {prev}"));
        }
    }
    ctx.oracle("C37.only_stored");
    if !store.has_at(height).await {
        // it may have been pruned by the scripted pruner in the meantime
        let pruned = store.get_pruned_ranges().await.map(|r| r.contains(height)).unwrap_or(false);
        if !pruned {
            ctx.violation("C37", "only_stored", "through_syncer",
                format!("subscriber {i} received height {height} which is not in the store"));
        }
    }
    let _ = s.subscribed_at_head;
    s.got.push(height);
}
