//! W-SESSION: the real `HeaderSession` (C26) and `P2p::get_verified_headers_range` (C27) on a
//! mocked `P2p` whose header-ex answers are decided by the simulator: any prefix of the request
//! (possibly empty), header-ex errors, any order, any delay.

use std::collections::{BTreeMap, BTreeSet};
use std::sync::Arc;
use std::time::Duration;

use celestia_proto::p2p::pb::header_request::Data;
use celestia_types::ExtendedHeader;
use libp2p::request_response::OutboundFailure;
use lumina_node::node::{HeaderExError, P2pError};
use lumina_node::verif::{MockedP2p, P2pCommand, P2pHandle, mocked_p2p};
use tokio::sync::oneshot;

use crate::kernel::ctx::{RunCtx, Tier};
use crate::kernel::runner::{World, WorldFut};
use crate::seams::chain::{Chain, ChainParams};

pub struct SessionWorld {
    pub verified: bool,
}

impl World for SessionWorld {
    fn name(&self) -> &'static str {
        if self.verified { "session.verified" } else { "session.plain" }
    }
    fn run<'a>(&'a self, ctx: &'a Arc<RunCtx>) -> WorldFut<'a> {
        Box::pin(async move {
            if self.verified {
                run_verified(ctx).await
            } else {
                run_plain(ctx).await
            }
        })
    }
}

/// A header that only carries a height (the session never looks at anything else).
fn fake_header(template: &ExtendedHeader, height: u64) -> ExtendedHeader {
    let mut h = template.clone();
    h.header.height = height.try_into().unwrap();
    h.commit.height = h.header.height;
    h
}

fn hx_error(ctx: &RunCtx) -> P2pError {
    let e = match ctx.choose("err.kind", 5) {
        0 => HeaderExError::HeaderNotFound,
        1 => HeaderExError::InvalidResponse,
        2 => HeaderExError::OutboundFailure(OutboundFailure::Timeout),
        3 => HeaderExError::OutboundFailure(OutboundFailure::ConnectionClosed),
        _ => HeaderExError::OutboundFailure(OutboundFailure::DialFailure),
    };
    P2pError::HeaderEx(e)
}

struct Queued {
    origin: u64,
    amount: u64,
    respond_to: oneshot::Sender<Result<Vec<ExtendedHeader>, P2pError>>,
    due_ms: u64,
    seq: u64,
}

// ------------------------------------------------------------------------------------ C26

async fn run_plain(ctx: &Arc<RunCtx>) {
    let thorough = ctx.tier == Tier::Thorough;
    let template = Chain::cached(ChainParams {
        class: 0,
        len: 2,
        validators: 1,
        block_time_ms: 6000,
        head_offset_ms: -3_600_000,
    })
    .get(1)
    .clone();
    let len = match ctx.choose("range.len_class", 4) {
        0 => ctx.range("range.len", 1, 8),
        1 => ctx.range("range.len", 1, 70),
        2 => ctx.range("range.len", 1, 520),
        _ => ctx.range("range.len", 1, if thorough { 2000 } else { 700 }),
    };
    let base = match ctx.choose("range.base_class", 3) {
        0 => 1,
        1 => ctx.range("range.base", 1, 5000),
        _ => 1_000_000 + ctx.range("range.base", 0, 1_000_000),
    };
    let (lo, hi) = (base, base + len - 1);
    let (_p2p, mut mock) = mocked_p2p();
    let mut fault_budget = ctx.range("fault.budget", 0, 40);
    let p_trunc = ctx.range("fault.p_trunc", 0, 600) as u32;
    let p_err = ctx.range("fault.p_err", 0, 300) as u32;
    let max_delay = ctx.range("delay.max_ms", 0, 200) as u32;
    let fatal_enabled = ctx.coin("fault.fatal_enabled", 50);

    let (done_tx, mut done_rx) = oneshot::channel();
    let fut = mock.header_session(lo..=hi);
    let task = tokio::spawn(async move {
        let r = fut.await;
        let _ = done_tx.send(r);
    });

    let mut received: BTreeSet<u64> = BTreeSet::new();
    let mut pending: Vec<Queued> = Vec::new();
    let mut requests = 0u64;
    let mut requests_after_last_fault = 0u64;
    let mut seq = 0u64;
    let mut fatal_sent = false;
    let cap = 200 + (len / 8 + 8) * 6 + 60;
    let result;

    loop {
        // deliver what is due
        let now = ctx.now_ms();
        let mut due: Vec<Queued> = Vec::new();
        let mut rest = Vec::new();
        for p in pending.drain(..) {
            if p.due_ms <= now { due.push(p) } else { rest.push(p) }
        }
        pending = rest;
        // chooser-chosen delivery order among the due ones
        while !due.is_empty() {
            let i = ctx.choose("deliver.pick", due.len() as u32) as usize;
            let p = due.swap_remove(i);
            let fault_allowed = fault_budget > 0;
            let kind = if !fault_allowed {
                0
            } else if ctx.coin("resp.err", p_err) {
                2
            } else if ctx.coin("resp.trunc", p_trunc) {
                1
            } else {
                0
            };
            match kind {
                2 => {
                    fault_budget -= 1;
                    requests_after_last_fault = 0;
                    let e = if fatal_enabled && ctx.coin("resp.fatal", 100) {
                        fatal_sent = true;
                        ctx.fault("fatal_p2p_error");
                        P2pError::WorkerDied
                    } else {
                        ctx.fault("header_ex_error");
                        hx_error(ctx)
                    };
                    ctx.ev("resp.err", p.origin, p.amount);
                    let _ = p.respond_to.send(Err(e));
                }
                1 => {
                    fault_budget -= 1;
                    requests_after_last_fault = 0;
                    let k = ctx.range("resp.prefix", 0, p.amount.saturating_sub(1));
                    ctx.fault(if k == 0 { "empty_response" } else { "truncated_response" });
                    ctx.ev("resp.prefix", p.origin, k);
                    let hs: Vec<_> = (p.origin..p.origin + k).map(|h| fake_header(&template, h)).collect();
                    for h in p.origin..p.origin + k {
                        received.insert(h);
                    }
                    let _ = p.respond_to.send(Ok(hs));
                }
                _ => {
                    ctx.ev("resp.full", p.origin, p.amount);
                    let hs: Vec<_> = (p.origin..p.origin + p.amount)
                        .map(|h| fake_header(&template, h))
                        .collect();
                    for h in p.origin..p.origin + p.amount {
                        received.insert(h);
                    }
                    let _ = p.respond_to.send(Ok(hs));
                }
            }
        }

        let next_due = pending.iter().map(|p| p.due_ms).min();
        let sleep_for = next_due.map(|d| Duration::from_millis(d.saturating_sub(ctx.now_ms()).max(1)));
        tokio::select! {
            biased;
            r = &mut done_rx => { result = r.ok(); break; }
            cmd = mock.recv() => {
                let Some(cmd) = cmd else { result = None; break; };
                if let P2pCommand::HeaderEx { request, respond_to } = cmd {
                    requests += 1;
                    requests_after_last_fault += 1;
                    seq += 1;
                    let (origin, amount) = match request.data {
                        Some(Data::Origin(o)) => (o, request.amount),
                        _ => (0, request.amount),
                    };
                    ctx.ev("req", origin, amount);
                    ctx.oracle("C26.request_shape");
                    let end = origin.checked_add(amount.max(1) - 1);
                    let ok_shape = amount >= 1
                        && amount <= 64
                        && origin >= lo
                        && end.is_some_and(|e| e <= hi);
                    if !ok_shape {
                        ctx.violation("C26", "request_shape", "session",
                            format!("request origin={origin} amount={amount} for range {lo}..={hi} is not a non-empty sub-range of at most 64 headers"));
                    } else if let Some(h) = (origin..origin + amount).find(|h| received.contains(h)) {
                        ctx.violation("C26", "request_shape", "rerequest_received",
                            format!("request origin={origin} amount={amount} covers height {h} which was already returned to the session"));
                    }
                    let d = ctx.delay("resp.delay", max_delay).as_millis() as u64;
                    pending.push(Queued { origin, amount, respond_to, due_ms: ctx.now_ms() + d, seq });
                    if requests > cap + 40 * 64 {
                        ctx.violation("C26", "completes", "request_budget",
                            format!("{requests} requests for a range of {len} headers (fault budget exhausted long ago)"));
                        result = None;
                        break;
                    }
                }
            }
            _ = async { match sleep_for { Some(d) => tokio::time::sleep(d).await, None => std::future::pending().await } } => {}
        }
        if fault_budget == 0 && requests_after_last_fault > len.div_ceil(8) + 8 + 64 {
            ctx.oracle("C26.completes");
            ctx.violation("C26", "completes", "after_faults_stop",
                format!("{requests_after_last_fault} requests after the last fault for a range of {len} headers and the session has not completed"));
            result = None;
            break;
        }
    }
    task.abort();
    let _ = pending.iter().map(|p| p.seq).max();

    match result {
        Some(Ok(headers)) => {
            ctx.oracle("C26.result_exact");
            ctx.probe("session_completed_ok");
            let got: Vec<u64> = headers.iter().map(|h| h.height()).collect();
            let want: Vec<u64> = (lo..=hi).collect();
            if got != want {
                let missing: Vec<u64> = want.iter().copied().filter(|h| !got.contains(h)).take(5).collect();
                let mut seen = BTreeSet::new();
                let dup: Vec<u64> = got.iter().copied().filter(|h| !seen.insert(*h)).take(5).collect();
                ctx.violation("C26", "result_exact", "session",
                    format!("session for {lo}..={hi} returned {} headers; missing (first 5) {missing:?}, duplicated {dup:?}, sorted={}",
                        got.len(), got.windows(2).all(|w| w[0] < w[1])));
            }
        }
        Some(Err(e)) => {
            ctx.oracle("C26.error_only_if_fatal");
            if !fatal_sent {
                ctx.violation("C26", "error_only_if_fatal", "session",
                    format!("session failed with `{e}` although only prefixes and header-ex errors were served"));
            } else {
                ctx.probe("session_failed_on_fatal_error");
            }
        }
        None => {}
    }
}

// ------------------------------------------------------------------------------------ C27

async fn run_verified(ctx: &Arc<RunCtx>) {
    let chain_len = ctx.range("chain.len", 8, if ctx.tier == Tier::Thorough { 700 } else { 200 });
    let chain = Chain::cached(ChainParams {
        class: ctx.range("chain.class", 0, 3),
        len: chain_len,
        validators: 1,
        block_time_ms: 6000,
        head_offset_ms: -3_600_000,
    });
    let from_h = ctx.range("from", 1, chain_len);
    let from = chain.get(from_h).clone();
    let avail = chain_len - from_h;
    // 0: zero, 1: fully served amount, 2: beyond the chain, 3: huge
    let class = ctx.weighted("amount.class", &[2, 6, 1, 2]);
    let amount = match class {
        0 => 0,
        1 => {
            if avail == 0 {
                0
            } else {
                ctx.range("amount", 1, avail.min(600))
            }
        }
        2 => avail + ctx.range("amount.beyond", 1, 50),
        _ => u64::MAX - ctx.range("amount.k", 0, 3),
    };
    let fully_served = amount >= 1 && amount <= avail;
    ctx.ev("call", from_h, amount);
    let (p2p, mut mock): (P2pHandle, MockedP2p) = mocked_p2p();
    let max_delay = ctx.range("delay.max_ms", 0, 50) as u32;
    let p_trunc = if ctx.coin("faults.on", 500) { ctx.range("fault.p_trunc", 0, 400) as u32 } else { 0 };
    let mut fault_budget = ctx.range("fault.budget", 0, 20);

    let (done_tx, mut done_rx) = oneshot::channel();
    let from2 = from.clone();
    let task = tokio::spawn(async move {
        let r = p2p.get_verified_headers_range(&from2, amount).await;
        let _ = done_tx.send(r);
    });
    let started_ms = ctx.now_ms();
    let mut requests = 0u64;
    let mut by_due: BTreeMap<(u64, u64), (u64, u64, oneshot::Sender<Result<Vec<ExtendedHeader>, P2pError>>)> = BTreeMap::new();
    let mut seq = 0u64;
    let request_cap: u64 = if amount == 0 { 16 } else { 4000 };
    let mut result: Option<Result<Vec<ExtendedHeader>, P2pError>> = None;
    let mut gave_up = false;
    let mut done_seen = false;

    loop {
        // deliver due responses
        let now = ctx.now_ms();
        let due_keys: Vec<(u64, u64)> = by_due.range(..=(now, u64::MAX)).map(|(k, _)| *k).collect();
        for k in due_keys {
            let (origin, amt, tx) = by_due.remove(&k).unwrap();
            // behave like the real client
            let resp: Result<Vec<ExtendedHeader>, P2pError> = if amt == 0 || origin == 0 && amt > 1 {
                Err(P2pError::HeaderEx(HeaderExError::InvalidRequest))
            } else if origin > chain_len || origin == 0 {
                Err(P2pError::HeaderEx(HeaderExError::HeaderNotFound))
            } else {
                let end = origin.saturating_add(amt - 1).min(chain_len);
                let mut n = end - origin + 1;
                if fault_budget > 0 && ctx.coin("resp.trunc", p_trunc) {
                    fault_budget -= 1;
                    n = ctx.range("resp.prefix", 1, n);
                    ctx.fault("truncated_response");
                }
                Ok((origin..origin + n).map(|h| chain.get(h).clone()).collect())
            };
            ctx.ev("resp", origin, resp.as_ref().map(|v| v.len() as u64).unwrap_or(u64::MAX));
            let _ = tx.send(resp);
        }
        let next_due = by_due.keys().next().map(|k| k.0);
        let sleep_for = next_due.map(|d| Duration::from_millis(d.saturating_sub(ctx.now_ms()).max(1)));
        tokio::select! {
            biased;
            r = &mut done_rx => { done_seen = true; result = r.ok(); break; }
            cmd = mock.recv() => {
                let Some(cmd) = cmd else { break; };
                if let P2pCommand::HeaderEx { request, respond_to } = cmd {
                    requests += 1;
                    seq += 1;
                    let origin = match request.data { Some(Data::Origin(o)) => o, _ => 0 };
                    ctx.ev("req", origin, request.amount);
                    let d = ctx.delay("resp.delay", max_delay).as_millis() as u64;
                    by_due.insert((ctx.now_ms() + d, seq), (origin, request.amount, respond_to));
                    if requests > request_cap {
                        gave_up = true;
                        break;
                    }
                }
            }
            _ = async { match sleep_for { Some(d) => tokio::time::sleep(d).await, None => std::future::pending().await } } => {}
        }
    }
    // wait for the task to settle so that a panic inside it is recorded
    if !done_seen && !gave_up {
        let _ = (&mut done_rx).await;
    }
    task.abort();
    let _ = task.await;
    let elapsed = ctx.now_ms() - started_ms;

    // ---- no panic, for any amount
    ctx.oracle("C27.no_panic");
    let panics = ctx.panics.lock().unwrap().clone();
    if let Some(p) = panics.iter().find(|p| !crate::kernel::runner::is_harness_location(&p.location)) {
        let key = if amount == 0 { "amount_zero" } else if class == 3 { "huge_amount" } else { "other" };
        ctx.violation("C27", "no_panic", key,
            format!("get_verified_headers_range(from height {from_h}, amount {amount}) panicked at {}: {}", p.location, p.message));
        return;
    }
    // ---- amount zero returns promptly
    if amount == 0 {
        ctx.oracle("C27.zero_returns_promptly");
        if result.is_none() || elapsed > 1000 || requests > 16 {
            ctx.violation("C27", "zero_returns_promptly", "amount_zero",
                format!("amount 0: returned={} after {elapsed} virtual ms and {requests} header-ex requests (each answered InvalidRequest, as the real client does)", result.is_some()));
        }
        return;
    }
    // ---- fully served => exactly those headers
    if fully_served {
        ctx.oracle("C27.served_exact");
        match &result {
            Some(Ok(v)) => {
                let want: Vec<&ExtendedHeader> = (from_h + 1..=from_h + amount).map(|h| chain.get(h)).collect();
                if v.len() != want.len() || v.iter().zip(&want).any(|(a, b)| a != *b) {
                    ctx.violation("C27", "served_exact", "result",
                        format!("amount {amount} after height {from_h}: got {} headers, first heights {:?}", v.len(), v.iter().take(4).map(|h| h.height()).collect::<Vec<_>>()));
                }
            }
            Some(Err(e)) => ctx.violation("C27", "served_exact", "error",
                format!("amount {amount} after height {from_h} fully served but failed: {e}")),
            None => ctx.violation("C27", "served_exact", "hang",
                format!("amount {amount} after height {from_h} fully served but did not return after {requests} requests")),
        }
    } else if gave_up {
        ctx.probe("unserved_request_cut_at_request_cap");
    }
}
