//! W-NODE: the real `Syncer`, `Daser` and `Pruner` composed the way `Node::new` composes them,
//! sharing one real `RedbStore` on `SimDisk` and one blockstore, against an honest simulated
//! network (header-ex, header-sub gossip, bitswap samples) with delays, lost answers, connection
//! loss and clock jumps — and with the whole process killed by power loss at seeded instants
//! (between store calls, or inside whichever redb transaction happens to be running) and
//! restarted from the durable disk image after a seeded downtime.
//!
//! `RedbStore` transactions run inline (`set_inline_blocking`), so the interleaving of the three
//! components over the store is decided by the simulator's schedule alone, and an exact shadow
//! model of the acknowledged store state can be kept.
//!
//! Oracles:
//!  * C22 — after every power loss the store reopens and equals the acknowledged state, or that
//!    state plus the one mutation that was in flight; all indexes consistent (full query battery);
//!  * C24/C25 — every batch the syncer announces, in every epoch (in particular right after a
//!    restart with pruned ranges on disk);
//!  * C33 — marked sampled only after full success in this epoch, CIDs recorded before requests;
//!  * C35 — the real pruner asking the real daser: never removes what is inside the pruning
//!    window, unsampled/edge inside the sampling window, being sampled, or with CIDs still in the
//!    blockstore;
//!  * C38 — only honest headers are stored, and after the last fault the node converges.

use std::collections::{BTreeMap, BTreeSet};
use std::sync::{Arc, Mutex};
use std::time::Duration;

use blockstore::Blockstore;
use bytes::BytesMut;
use celestia_proto::bitswap::Block;
use celestia_proto::p2p::pb::header_request::Data;
use celestia_proto::p2p::pb::{HeaderRequest, HeaderResponse, StatusCode};
use celestia_types::hash::Hash;
use celestia_types::sample::{SAMPLE_ID_MULTIHASH_CODE, Sample, SampleId};
use celestia_types::{AxisType, ExtendedHeader};
use cid::Cid;
use futures::FutureExt;
use libp2p::request_response::OutboundFailure;
use lumina_node::blockstore::InMemoryBlockstore;
use lumina_node::events::{EventSubscriber, NodeEvent, TryRecvError};
use lumina_node::node::{HeaderExError, P2pError, PeerTrackerInfo};

use lumina_node::verif::{self, Events, P2pCommand, hx};
use prost::Message;
use tendermint_proto::Protobuf;
use tokio::sync::{mpsc, oneshot};

use crate::kernel::ctx::{RunCtx, Tier, time_to_ns};
use crate::kernel::runner::{World, WorldFut};
use crate::seams::disk::{Image, SimDisk};
use crate::seams::rec_store::{Call, RecStore, Ret, StoreObserver};
use crate::seams::squares::{DataChain, DataChainParams};
use crate::seams::store_model::{Model, ranges_to_set};
use crate::worlds::store::{battery, open_redb};

pub struct NodeWorld;

impl World for NodeWorld {
    fn name(&self) -> &'static str {
        "node.crash"
    }
    fn run<'a>(&'a self, ctx: &'a Arc<RunCtx>) -> WorldFut<'a> {
        Box::pin(run_node(ctx))
    }
    fn vtime_cap(&self) -> Duration {
        Duration::from_secs(3600 * 24)
    }
}

const EPS_NS: i64 = 1_000_000_000;

// ------------------------------------------------------------------------------------ observer

#[derive(Default)]
struct Attempt {
    ids: BTreeSet<(u16, u16)>,
    delivered: BTreeSet<(u16, u16)>,
    any_timeout: bool,
}

struct ObsState {
    /// the process is dead (power lost, components being torn down): nothing is judged
    dead: bool,
    /// acknowledged store state (every mutation that returned success, in order)
    model: Model,
    /// mutations that have started and not returned (inline transactions: at most one)
    inflight: Vec<(&'static str, Call)>,
    /// the mutation during which the power was lost, if any
    crash_op: Option<Call>,
    disk: Option<SimDisk>,
    // ---- syncer's view (this epoch)
    last_stored: Option<BTreeSet<u64>>,
    last_pruned: Option<BTreeSet<u64>>,
    max_told: u64,
    /// highest head the syncer has certainly taken notice of (head-request answers, the head
    /// of a header-sub initialisation, gossip delivered after the last fault, and whatever its
    /// own batches and header-sub insertions show); a gossip message handed over just before a
    /// disconnection may be dropped unread, so `max_told` is only an upper bound
    sure_head: u64,
    announced: Vec<(u64, u64)>,
    batches: u64,
    // ---- daser's view (this epoch)
    attempts: BTreeMap<u64, Attempt>,
    /// wall clock when the daser read a height's header (its window check follows at once)
    header_read_at: BTreeMap<u64, i64>,
    ongoing: BTreeSet<u64>,
    /// peers are connected as far as the node has been told (peer-tracker info published)
    connected: bool,
    events: Option<EventSubscriber>,
    blockstore: Option<Arc<InMemoryBlockstore>>,
    removed: u64,
    marked: u64,
    fatal: Vec<String>,
}

struct Obs {
    ctx: Arc<RunCtx>,
    chain: Arc<DataChain>,
    batch_size: u64,
    sampling_window_ns: i64,
    pruning_window_ns: i64,
    st: Mutex<ObsState>,
}

fn compact(s: &BTreeSet<u64>) -> Vec<(u64, u64)> {
    let mut out: Vec<(u64, u64)> = Vec::new();
    for h in s {
        match out.last_mut() {
            Some((_, e)) if *e + 1 == *h => *e = *h,
            _ => out.push((*h, *h)),
        }
    }
    out
}

fn edges(synced: &BTreeSet<u64>) -> BTreeSet<u64> {
    synced
        .iter()
        .copied()
        .filter(|h| !synced.contains(&(h + 1)) || *h == 0 || !synced.contains(&(h.wrapping_sub(1))))
        .collect()
}

impl Obs {
    fn told(&self, h: u64) {
        let mut st = self.st.lock().unwrap();
        st.max_told = st.max_told.max(h);
    }

    fn sure(&self, h: u64) {
        let mut st = self.st.lock().unwrap();
        st.max_told = st.max_told.max(h);
        st.sure_head = st.sure_head.max(h);
    }

    fn drain_events(&self) {
        let mut st = self.st.lock().unwrap();
        // once the power is lost nothing the dying process still says is judged
        if st.dead || st.disk.as_ref().is_some_and(|d| d.crashed()) {
            return;
        }
        loop {
            let (ev, at_ns) = match st.events.as_mut().map(|s| s.try_recv()) {
                Some(Ok(info)) => {
                    let at = info.time.duration_since(std::time::UNIX_EPOCH).map(|d| d.as_nanos() as i64).unwrap_or_else(|_| self.ctx.wall_now_ns());
                    (info.event, at)
                }
                Some(Err(TryRecvError::Empty)) | Some(Err(TryRecvError::Closed)) | None => break,
            };
            self.on_event(&mut st, ev, at_ns);
        }
    }

    fn on_event(&self, st: &mut ObsState, ev: NodeEvent, at_ns: i64) {
        let ctx = &self.ctx;
        match ev {
            NodeEvent::FetchingHeadersStarted { from_height, to_height } => {
                ctx.ev("ev.fetch_started", from_height, to_height);
                st.sure_head = st.sure_head.max(to_height);
                self.check_batch(st, from_height, to_height, at_ns);
            }
            NodeEvent::FetchingHeadersFinished { from_height, to_height, .. } => {
                ctx.ev("ev.fetch_finished", from_height, to_height);
            }
            NodeEvent::FetchingHeadersFailed { from_height, to_height, .. } => {
                ctx.ev("ev.fetch_failed", from_height, to_height);
                ctx.probe("fetching_headers_failed");
            }
            NodeEvent::FatalSyncerError { error } => {
                ctx.ev("ev.fatal_syncer", 0, 0);
                st.fatal.push(format!("syncer: {error}"));
                ctx.probe("fatal_syncer_error");
            }
            NodeEvent::FatalDaserError { error } => {
                ctx.ev("ev.fatal_daser", 0, 0);
                st.fatal.push(format!("daser: {error}"));
                ctx.probe("fatal_daser_error");
            }
            NodeEvent::FatalPrunerError { error } => {
                ctx.ev("ev.fatal_pruner", 0, 0);
                st.fatal.push(format!("pruner: {error}"));
                ctx.probe("fatal_pruner_error");
            }
            NodeEvent::AddedHeaderFromHeaderSub { height } => {
                ctx.ev("ev.added_from_header_sub", height, 0);
                st.sure_head = st.sure_head.max(height);
            }
            NodeEvent::SamplingStarted { height, shares, .. } => {
                ctx.ev("ev.sampling_started", height, shares.len() as u64);
                if let Some(a) = st.attempts.get(&height) {
                    ctx.oracle("C33.event_matches_metadata");
                    let evset: BTreeSet<(u16, u16)> = shares.iter().copied().collect();
                    if evset != a.ids {
                        ctx.violation("C33", "event_matches_metadata", "daser",
                            format!("SamplingStarted for {height} lists {} shares that differ from the {} CIDs recorded in the sampling metadata", evset.len(), a.ids.len()));
                    }
                }
            }
            NodeEvent::ShareSamplingResult { height, timed_out, .. } => {
                if timed_out {
                    if let Some(a) = st.attempts.get_mut(&height) {
                        a.any_timeout = true;
                    }
                    ctx.probe("share_sampling_timed_out");
                }
            }
            NodeEvent::SamplingResult { height, timed_out, .. } => {
                ctx.ev("ev.sampling_result", height, timed_out as u64);
                if timed_out {
                    // the daser keeps it in `ongoing` a little longer; releasing it here is the
                    // lenient side for the pruner
                    st.ongoing.remove(&height);
                    ctx.probe("block_sampling_timed_out");
                }
            }
            _ => {}
        }
    }

    /// C24 / C25 on an announced batch, judged against the syncer's own latest reads.
    fn check_batch(&self, st: &mut ObsState, from: u64, to: u64, at_ns: i64) {
        let ctx = &self.ctx;
        st.announced.push((from, to));
        st.batches += 1;
        let (Some(stored), Some(pruned)) = (st.last_stored.clone(), st.last_pruned.clone()) else {
            return;
        };
        let synced: BTreeSet<u64> = stored.union(&pruned).copied().collect();
        ctx.oracle("C24.batch_shape");
        let desc = || format!("batch {from}..={to}, batch_size {}, head told {}, stored {:?}, pruned {:?}",
            self.batch_size, st.max_told, compact(&stored), compact(&pruned));
        if from == 0 || from > to {
            ctx.violation("C24", "batch_shape", "empty", format!("empty or invalid batch: {}", desc()));
            return;
        }
        if to - from + 1 > self.batch_size {
            ctx.violation("C24", "batch_shape", "too_long", format!("longer than the batch size: {}", desc()));
        }
        if to > st.max_told {
            ctx.violation("C24", "batch_shape", "above_head", format!("above the network head: {}", desc()));
        }
        if let Some(h) = synced.range(from..=to).next() {
            ctx.violation("C24", "batch_shape", "overlaps_synced", format!("height {h} is already stored or pruned: {}", desc()));
        }
        // ... and against the store itself (shadow model = exact acknowledged state): only the
        // syncer inserts, and pruning only moves a height from stored to pruned, so a height that
        // is pruned or stored now was in one of the syncer's two reads if they were a consistent pair
        ctx.oracle("C24.batch_vs_store");
        if let Some(h) = st.model.pruned.range(from..=to).next() {
            ctx.violation("C24", "batch_vs_store", "requests_pruned_height",
                format!("height {h} of the announced batch is pruned in the store (pruned {:?}): {}", compact(&st.model.pruned), desc()));
        } else if let Some(h) = st.model.stored().range(from..=to).next() {
            ctx.violation("C24", "batch_vs_store", "requests_stored_height",
                format!("height {h} of the announced batch is stored (stored {:?}): {}", compact(&st.model.stored()), desc()));
        }
        ctx.oracle("C24.placement");
        let max_synced = synced.iter().next_back().copied();
        let below_highest_range = |synced: &BTreeSet<u64>| {
            let mut start = *synced.iter().next_back().unwrap();
            while start > 1 && synced.contains(&(start - 1)) {
                start -= 1;
            }
            to + 1 == start
        };
        let ok = match max_synced {
            None => true,
            Some(m) if m < st.max_told => from == m + 1 || below_highest_range(&synced),
            Some(_) => below_highest_range(&synced),
        };
        if !ok {
            ctx.violation("C24", "placement", "not_adjacent",
                format!("batch is neither directly above the highest synced height nor directly below the highest synced range: {}", desc()));
        }
        if let Some(m) = max_synced {
            if to < m {
                ctx.oracle("C25.window_edge");
                let edge = to + 1;
                if synced.contains(&edge) && edge <= self.chain.len() {
                    let t = time_to_ns(self.chain.time_of(edge));
                    let now = at_ns;
                    if t < now - self.sampling_window_ns - EPS_NS {
                        let key = if stored.contains(&edge) { "bounding_header_stored" } else { "bounding_header_pruned" };
                        ctx.violation("C25", "window_edge", key,
                            format!("batch {from}..={to} lies below synced header {edge} ({}) whose time is {} s older than the sampling window edge",
                                if stored.contains(&edge) { "stored" } else { "pruned" },
                                (now - self.sampling_window_ns - t) / 1_000_000_000));
                    }
                    if !stored.contains(&edge) {
                        ctx.probe("batch_below_pruned_header");
                    }
                }
            }
        }
    }

    fn on_attempt(&self, st: &mut ObsState, height: u64, cids: &[Cid]) {
        let ctx = &self.ctx;
        let width = if height <= self.chain.len() { self.chain.square(height).width() } else { 0 };
        ctx.oracle("C33.chosen_shares");
        let mut ids = BTreeSet::new();
        let mut bad = None;
        for cid in cids {
            match SampleId::try_from(cid) {
                Ok(id) if id.block_height() == height && id.row_index() < width && id.column_index() < width => {
                    if !ids.insert((id.row_index(), id.column_index())) {
                        bad = Some(format!("share ({},{}) chosen twice", id.row_index(), id.column_index()));
                    }
                }
                Ok(id) => bad = Some(format!("share ({},{}) of height {} is outside the {width}x{width} square of height {height}", id.row_index(), id.column_index(), id.block_height())),
                Err(e) => bad = Some(format!("recorded CID does not decode to a sample id: {e}")),
            }
        }
        let want = (width as usize * width as usize).min(16);
        if bad.is_none() && ids.len() != want {
            bad = Some(format!("{} shares chosen for a {width}x{width} square, expected {want}", ids.len()));
        }
        if let Some(b) = bad {
            ctx.violation("C33", "chosen_shares", "daser", format!("height {height}: {b}"));
        }
        st.attempts.insert(height, Attempt { ids, ..Default::default() });
        // An attempt that starts while a disconnection is published is dropped as soon as the
        // daser notices it (it leaves its connected loop and forgets everything in progress);
        // when it notices is not observable, so such an attempt does not count as "in progress".
        if st.connected {
            st.ongoing.insert(height);
        }
        // ---- C34: never older than the sampling window
        ctx.oracle("C34.inside_window");
        if height <= self.chain.len() {
            let t = time_to_ns(self.chain.time_of(height));
            let now = st.header_read_at.get(&height).copied().unwrap_or_else(|| ctx.wall_now_ns());
            if t < now - self.sampling_window_ns - EPS_NS {
                ctx.violation("C34", "inside_window", "daser",
                    format!("sampling of height {height} started although its block is {} s older than the sampling window", (now - self.sampling_window_ns - t) / 1_000_000_000));
            }
        }
        // ---- a block durably marked sampled is never sampled again (also across restarts)
        ctx.oracle("C34.not_already_sampled");
        if st.model.sampled.contains(&height) {
            ctx.violation("C34", "not_already_sampled", "daser",
                format!("sampling of height {height} started although the store has it marked as sampled"));
        }
    }

    fn on_pruner_remove(&self, st: &mut ObsState, h: u64) {
        let ctx = &self.ctx;
        if !st.model.headers.contains_key(&h) || h > self.chain.len() {
            return;
        }
        let now = ctx.wall_now_ns();
        let t = time_to_ns(self.chain.time_of(h));
        st.removed += 1;
        ctx.probe("pruner_removed_a_header");
        ctx.oracle("C35.outside_pruning_window");
        if t > now - self.pruning_window_ns + EPS_NS {
            ctx.violation("C35", "outside_pruning_window", "pruner",
                format!("header {h} removed although it is {} s inside the pruning window", (t - (now - self.pruning_window_ns)) / 1_000_000_000));
        }
        if t > now - self.sampling_window_ns + EPS_NS {
            ctx.probe("removed_inside_sampling_window");
            ctx.oracle("C35.sampled_and_not_edge_inside_sampling_window");
            if !st.model.sampled.contains(&h) {
                ctx.violation("C35", "sampled_and_not_edge_inside_sampling_window", "unsampled",
                    format!("unsampled header {h} removed although it is inside the sampling window"));
            }
            let synced: BTreeSet<u64> = st.model.stored().union(&st.model.pruned).copied().collect();
            if edges(&synced).contains(&h) {
                ctx.violation("C35", "sampled_and_not_edge_inside_sampling_window", "edge",
                    format!("header {h} removed although it is inside the sampling window and borders an unsynced gap (synced ranges {:?})", compact(&synced)));
            }
        }
        ctx.oracle("C35.not_being_sampled");
        if st.ongoing.contains(&h) {
            ctx.violation("C35", "not_being_sampled", "pruner",
                format!("header {h} removed while the daser is sampling it (attempt started, no result yet)"));
        }
        ctx.oracle("C35.cids_removed_first");
        if let (Some(cids), Some(bs)) = (st.model.meta.get(&h), st.blockstore.as_ref()) {
            for c in cids {
                let Ok(cid) = Cid::try_from(&c[..]) else { continue };
                let present = bs.has(&cid).now_or_never().and_then(|r| r.ok()).unwrap_or(false);
                if present {
                    ctx.violation("C35", "cids_removed_first", "pruner",
                        format!("header {h} removed while CID {cid} of its sampling metadata is still in the blockstore"));
                    break;
                }
            }
            if !cids.is_empty() {
                ctx.probe("removed_header_had_cids");
            }
        }
    }
}

impl StoreObserver for Obs {
    fn before(&self, tag: &'static str, call: &Call) {
        self.drain_events();
        let mut st = self.st.lock().unwrap();
        if st.dead {
            return;
        }
        if st.disk.as_ref().is_some_and(|d| d.crashed()) {
            // power is already lost: nothing after this instant belongs to the process
            return;
        }
        if call.is_mutation() {
            st.inflight.push((tag, call.clone()));
        }
        if let (true, Call::Remove(h)) = (tag == "pruner", call) {
            self.on_pruner_remove(&mut st, *h);
        }
    }

    fn after(&self, tag: &'static str, call: &Call, ret: &Ret) {
        let mut st = self.st.lock().unwrap();
        if st.dead {
            return;
        }
        let ctx = &self.ctx;
        if call.is_mutation() {
            let Some(pos) = st.inflight.iter().rposition(|(t, _)| *t == tag) else {
                // started after the power loss
                return;
            };
            let (_, c) = st.inflight.remove(pos);
            let crashed = st.disk.as_ref().is_some_and(|d| d.crashed());
            match ret {
                Ret::Unit => {
                    // acknowledged
                    match &c {
                        Call::Insert(b) => st.model.apply_insert(b),
                        Call::Remove(h) => {
                            st.model.remove(*h);
                        }
                        Call::MarkSampled(h) => {
                            st.model.mark_sampled(*h);
                        }
                        Call::UpdateMeta(h, cids) => {
                            st.model.update_meta(*h, cids);
                        }
                        _ => {}
                    }
                    if crashed {
                        ctx.probe("mutation_acknowledged_at_the_power_loss");
                    }
                }
                _ if crashed && st.crash_op.is_none() => {
                    st.crash_op = Some(c);
                    ctx.probe("power_lost_inside_a_mutation");
                }
                _ => {}
            }
        }
        if st.disk.as_ref().is_some_and(|d| d.crashed()) {
            return;
        }
        match (tag, call, ret) {
            ("syncer", Call::GetStored, Ret::Ranges(r)) => st.last_stored = Some(ranges_to_set(r)),
            ("syncer", Call::GetPruned, Ret::Ranges(r)) => st.last_pruned = Some(ranges_to_set(r)),
            ("syncer", Call::Insert(batch), Ret::Unit) => {
                for h in batch {
                    ctx.oracle("C38.only_honest_headers");
                    let honest = h.height() >= 1 && h.height() <= self.chain.len() && self.chain.get(h.height()).hash() == h.hash();
                    if !honest {
                        ctx.violation("C38", "only_honest_headers", "store_insert",
                            format!("the store accepted a header at height {} (hash {}) that is not the honest block of that height", h.height(), h.hash()));
                    }
                }
            }
            ("daser", Call::GetByHeight(h), Ret::Header(_)) => {
                let now = ctx.wall_now_ns();
                st.header_read_at.insert(*h, now);
            }
            ("daser", Call::UpdateMeta(h, cids), Ret::Unit) => self.on_attempt(&mut st, *h, cids),
            ("daser", Call::MarkSampled(h), Ret::Unit) => {
                st.marked += 1;
                st.ongoing.remove(h);
                ctx.oracle("C33.marked_only_after_full_success");
                match st.attempts.get(h) {
                    None => ctx.violation("C33", "marked_only_after_full_success", "no_attempt",
                        format!("height {h} marked as sampled without any sampling attempt since the node started")),
                    Some(a) => {
                        let missing: Vec<(u16, u16)> = a.ids.difference(&a.delivered).copied().collect();
                        if !missing.is_empty() || a.any_timeout {
                            ctx.violation("C33", "marked_only_after_full_success",
                                if a.any_timeout { "after_timeout" } else { "missing_shares" },
                                format!("height {h} marked as sampled although {} of its {} chosen shares were never delivered (e.g. {:?}); a share timed out: {}",
                                    missing.len(), a.ids.len(), missing.first(), a.any_timeout));
                        } else {
                            ctx.probe("block_marked_sampled");
                        }
                    }
                }
            }
            _ => {}
        }
    }
}

// ------------------------------------------------------------------------------------ network

fn to_resp(h: &ExtendedHeader) -> HeaderResponse {
    HeaderResponse { body: h.clone().encode_vec(), status_code: StatusCode::Ok.into() }
}

fn block_bytes(cid: &Cid, sample: &Sample) -> Vec<u8> {
    let mut c = BytesMut::new();
    sample.encode(&mut c);
    Block { cid: cid.to_bytes(), container: c.to_vec() }.encode_to_vec()
}

struct Net {
    ctx: Arc<RunCtx>,
    chain: Arc<DataChain>,
    connected: Mutex<bool>,
    faults_on: Mutex<bool>,
    max_delay_ms: u32,
    p_drop: u32,
    obs: Arc<Obs>,
}

impl Net {
    fn network_head(&self) -> u64 {
        let now = self.ctx.wall_now_ns();
        let c = &self.chain;
        let h = (now - c.base_time_ns) / (c.block_time_ms as i64 * 1_000_000);
        (h.max(1) as u64).min(c.len())
    }

    fn info(&self) -> PeerTrackerInfo {
        let c = *self.connected.lock().unwrap() as u64;
        PeerTrackerInfo { num_connected_peers: c, num_connected_trusted_peers: c, num_connected_archival_nodes: c, ..Default::default() }
    }

    /// One honest header-ex exchange, the way the real client runs it (3 tries, real validation).
    async fn serve_request(self: Arc<Self>, request: HeaderRequest, respond_to: oneshot::Sender<Result<Vec<ExtendedHeader>, P2pError>>) {
        let ctx = self.ctx.clone();
        let is_head = matches!((&request.data, request.amount), (Some(Data::Origin(0)), 1));
        let (origin, amount) = match &request.data {
            Some(Data::Origin(o)) => (*o, request.amount),
            _ => (0, request.amount),
        };
        if amount == 0 || request.data.is_none() {
            let _ = respond_to.send(Err(P2pError::HeaderEx(HeaderExError::InvalidRequest)));
            return;
        }
        let mut last_err = HeaderExError::HeaderNotFound;
        for attempt in 0..3 {
            loop {
                if respond_to.is_closed() {
                    return;
                }
                if *self.connected.lock().unwrap() {
                    break;
                }
                tokio::time::sleep(Duration::from_millis(100)).await;
            }
            tokio::time::sleep(ctx.delay("net.latency", self.max_delay_ms)).await;
            let drop_it = *self.faults_on.lock().unwrap() && ctx.coin("net.drop", self.p_drop);
            let res = if drop_it || !*self.connected.lock().unwrap() {
                ctx.fault("message_dropped");
                tokio::time::sleep(Duration::from_secs(10)).await;
                Err(HeaderExError::OutboundFailure(OutboundFailure::Timeout))
            } else {
                let head = self.network_head();
                let resps: Vec<HeaderResponse> = if is_head {
                    vec![to_resp(self.chain.get(head))]
                } else if origin == 0 || origin > head {
                    vec![HeaderResponse { body: vec![], status_code: StatusCode::NotFound.into() }]
                } else {
                    let hi = (origin + amount.min(512) - 1).min(head);
                    (origin..=hi).map(|h| to_resp(self.chain.get(h))).collect()
                };
                if is_head {
                    self.obs.sure(head);
                }
                hx::decode_and_verify_responses(&request, &resps).await
            };
            match res {
                Ok(headers) => {
                    ctx.ev("net.resp_ok", origin, headers.len() as u64);
                    let _ = respond_to.send(Ok(headers));
                    return;
                }
                Err(e) => {
                    ctx.ev("net.resp_err", origin, attempt);
                    last_err = e;
                }
            }
        }
        let _ = respond_to.send(Err(P2pError::HeaderEx(last_err)));
    }
}

struct PendingSample {
    cid: Cid,
    id: SampleId,
    respond_to: oneshot::Sender<Result<Vec<u8>, P2pError>>,
    due_ms: Option<u64>,
}

// ------------------------------------------------------------------------------------ the run

async fn run_node(ctx: &Arc<RunCtx>) {
    verif::set_inline_blocking(true);
    let thorough = ctx.tier == Tier::Thorough;
    // ---- configuration
    let block_time_ms = 12_000u64;
    let len = *ctx.pick("cfg.chain_len", if thorough { &[64u64, 48, 96][..] } else { &[64u64, 48][..] });
    let future_blocks = len / 2;
    let chain = DataChain::cached(DataChainParams {
        class: ctx.range("cfg.chain_class", 0, 1),
        len,
        block_time_ms,
        head_offset_ms: (future_blocks * block_time_ms) as i64,
        max_ods_log2: *ctx.pick("cfg.max_ods_log2", &[1u8, 0, 2]),
    });
    let span_s = len * block_time_ms / 1000;
    // one long suspension without a restart: the wall clock jumps past the pruning window while
    // the process keeps its state (short windows so that the chain outlasts the jump)
    let suspend = ctx.coin("cfg.suspend", 200);
    let sampling_window = Duration::from_secs(if suspend { ctx.range("cfg.sampling_window_s", 60, 60 + span_s / 6) } else { ctx.range("cfg.sampling_window_s", 60, span_s + 60) });
    let pruning_window = if ctx.coin("cfg.pruning_smaller", 300) {
        Duration::from_secs(ctx.range("cfg.pruning_window_s", 30, sampling_window.as_secs()))
    } else {
        sampling_window + Duration::from_secs(ctx.range("cfg.pruning_extra_s", 0, if suspend { 30 } else { 300 }))
    };
    let batch_size = *ctx.pick("cfg.batch_size", &[8u64, 3, 16, 64]);
    let limit = ctx.range("cfg.limit", 1, 4) as usize;
    let extra = ctx.range("cfg.extra", 0, 3) as usize;
    let store_delay = *ctx.pick("cfg.store_delay", &[0u32, 1, 2, 3, 30, 600]);
    let max_delay = ctx.range("cfg.net_delay_ms", 0, 1500) as u32;
    let p_drop = if ctx.coin("cfg.drops_on", 500) { ctx.range("cfg.p_drop", 10, 150) as u32 } else { 0 };
    let p_never = if ctx.coin("cfg.sample_loss_on", 500) { ctx.range("cfg.p_never", 10, 150) as u32 } else { 0 };
    let churn = ctx.coin("cfg.churn", 400);
    let clock_jumps = ctx.coin("cfg.clock_jumps", 150);
    let mut suspend_left = suspend as u32;
    let n_crashes = ctx.choose("cfg.crashes", if thorough { 5 } else { 4 });
    let fault_phase_s = ctx.range("cfg.fault_phase_s", 30, (future_blocks.saturating_sub(6) * block_time_ms / 1000).max(40));
    ctx.note("config", format!("len={len} sw={}s pw={}s batch={batch_size} limit={limit}+{extra} delay={max_delay}ms drop={p_drop} never={p_never} churn={churn} crashes={n_crashes} faults={fault_phase_s}s",
        sampling_window.as_secs(), pruning_window.as_secs()));

    let hashes: Vec<Hash> = (1..=chain.len()).map(|h| chain.get(h).hash()).collect();
    let obs = Arc::new(Obs {
        ctx: ctx.clone(),
        chain: chain.clone(),
        batch_size,
        sampling_window_ns: sampling_window.as_nanos() as i64,
        pruning_window_ns: pruning_window.as_nanos() as i64,
        st: Mutex::new(ObsState {
            dead: true,
            model: Model::default(),
            inflight: Vec::new(),
            crash_op: None,
            disk: None,
            last_stored: None,
            last_pruned: None,
            max_told: 0,
            sure_head: 0,
            announced: Vec::new(),
            batches: 0,
            attempts: BTreeMap::new(),
            header_read_at: BTreeMap::new(),
            ongoing: BTreeSet::new(),
            connected: true,
            events: None,
            blockstore: None,
            removed: 0,
            marked: 0,
            fatal: Vec::new(),
        }),
    });
    let net = Arc::new(Net {
        ctx: ctx.clone(),
        chain: chain.clone(),
        connected: Mutex::new(true),
        faults_on: Mutex::new(true),
        max_delay_ms: max_delay,
        p_drop,
        obs: obs.clone(),
    });

    let start_ms = ctx.now_ms();
    let faults_end_ms = start_ms + fault_phase_s * 1000;
    let mut crashes_left = n_crashes;
    let mut image = Image::default();
    let mut epoch = 0u32;
    let mut deadline_ms = u64::MAX;
    let mut faults_on = true;
    let mut finished = false;

    while !finished {
        // ================================================================ (re)start the process
        let disk = SimDisk::from_image(ctx, image.clone());
        let (store, _db) = match open_redb(ctx, &disk).await {
            Ok((s, db)) => (Arc::new(s), db),
            Err(e) => {
                ctx.oracle("C22.reopen_succeeds");
                ctx.violation("C22", "reopen_succeeds", &e.key(if epoch == 0 { "first_open" } else { "after_crash" }),
                    format!("epoch {epoch}: the store does not open after a power loss: {e}"));
                return;
            }
        };
        if epoch > 0 {
            // ---- C22: acknowledged state, or that plus the mutation in flight at the power loss
            ctx.oracle("C22.reopen_succeeds");
            let (acked, crash_op) = {
                let st = obs.st.lock().unwrap();
                (st.model.clone(), st.crash_op.clone())
            };
            let mut cands: Vec<Model> = vec![acked.clone()];
            if let Some(op) = &crash_op {
                let mut m = acked.clone();
                match op {
                    Call::Insert(b) => m.apply_insert(b),
                    Call::Remove(h) => { m.remove(*h); }
                    Call::MarkSampled(h) => { m.mark_sampled(*h); }
                    Call::UpdateMeta(h, cids) => { m.update_meta(*h, cids); }
                    _ => {}
                }
                cands.push(m);
            }
            ctx.oracle("C22.acknowledged_state_survives");
            let mut matched = None;
            let mut errs = Vec::new();
            for (i, m) in cands.iter().enumerate() {
                match battery(&*store, m, None, &hashes, chain.len()).await {
                    Ok(()) => { matched = Some(i); break; }
                    Err(e) => errs.push(format!("candidate {i}: {e}")),
                }
            }
            match matched {
                Some(i) => {
                    if i == 1 { ctx.probe("in_flight_mutation_survived_power_loss"); }
                    obs.st.lock().unwrap().model = cands.swap_remove(i);
                }
                None => {
                    ctx.violation("C22", "acknowledged_state_survives", "node_workload",
                        format!("epoch {epoch}: after the power loss the reopened store equals neither the acknowledged state nor that state plus the in-flight mutation ({}): {}",
                            crash_op.as_ref().map(|c| format!("{}({})", c.name(), c.arg())).unwrap_or("none".into()), errs.join(" | ")));
                    return;
                }
            }
        }
        let events = Events::new();
        let blockstore = Arc::new(InMemoryBlockstore::new());
        {
            let mut st = obs.st.lock().unwrap();
            st.dead = false;
            st.inflight.clear();
            st.crash_op = None;
            st.disk = Some(disk.clone());
            st.last_stored = None;
            st.last_pruned = None;
            st.max_told = 0;
            st.sure_head = 0;
            st.announced.clear();
            st.attempts.clear();
            st.ongoing.clear();
            st.connected = *net.connected.lock().unwrap();
            st.events = Some(events.subscribe());
            st.blockstore = Some(blockstore.clone());
            st.fatal.clear();
        }
        let (p2p, mut mock) = verif::mocked_p2p();
        mock.set_peer_info(net.info());
        let st_syncer = RecStore::new(store.clone(), "syncer", ctx, obs.clone(), store_delay);
        let st_daser = RecStore::new(store.clone(), "daser", ctx, obs.clone(), store_delay);
        let st_pruner = RecStore::new(store.clone(), "pruner", ctx, obs.clone(), store_delay);
        let st_bitswap = RecStore::new(store.clone(), "bitswap", ctx, obs.clone(), 0);
        let syncer = match verif::start_syncer(&p2p, st_syncer, &events, batch_size, sampling_window, pruning_window) {
            Ok(s) => s,
            Err(e) => { ctx.note("syncer_start_error", e.to_string()); return; }
        };
        let daser = match verif::start_daser(&p2p, st_daser, &events, sampling_window, limit, extra) {
            Ok(d) => d,
            Err(e) => { ctx.note("daser_start_error", e.to_string()); return; }
        };
        let pruner = verif::start_pruner(&daser, st_pruner, blockstore.clone(), &events, Duration::from_millis(block_time_ms), pruning_window, sampling_window);
        ctx.ev("node.started", epoch as u64, 0);

        let mut header_sub: Option<(ExtendedHeader, mpsc::Sender<ExtendedHeader>)> = None;
        let mut next_gossip_height = 0u64;
        let mut pending: Vec<PendingSample> = Vec::new();
        let mut serve_tasks = tokio::task::JoinSet::new();
        let mut tick = tokio::time::interval(Duration::from_millis(500));
        tick.set_missed_tick_behavior(tokio::time::MissedTickBehavior::Delay);
        let mut next_crash_ms = ctx.now_ms() + ctx.range("crash.after_ms", 200, 90_000);

        // ================================================================ the epoch
        loop {
            obs.drain_events();
            if ctx.over_step_cap() || !ctx.findings.lock().unwrap().is_empty() {
                finished = true;
                break;
            }
            if disk.crashed() {
                break;
            }
            let now_ms = ctx.now_ms();
            if faults_on && now_ms >= faults_end_ms {
                faults_on = false;
                *net.faults_on.lock().unwrap() = false;
                *net.connected.lock().unwrap() = true;
                obs.st.lock().unwrap().connected = true;
                mock.set_peer_info(net.info());
                disk.disarm();
                ctx.ev("faults_stop", now_ms, 0);
                let outstanding = chain.len().div_ceil(batch_size.max(1));
                deadline_ms = now_ms + 400_000 + 30_000 * outstanding.min(200) + 12 * block_time_ms;
            }
            if now_ms >= deadline_ms {
                finished = true;
                break;
            }
            // ---- deliver due samples (the bitswap stand-in: real multihasher, then blockstore)
            let mut i = 0;
            while i < pending.len() {
                if pending[i].respond_to.is_closed() {
                    pending.swap_remove(i);
                    continue;
                }
                if !pending[i].due_ms.is_some_and(|d| d <= now_ms) || !*net.connected.lock().unwrap() {
                    i += 1;
                    continue;
                }
                let p = pending.swap_remove(i);
                let (r, c, h) = (p.id.row_index(), p.id.column_index(), p.id.block_height());
                if h == 0 || h > chain.len() {
                    continue;
                }
                let sq = chain.square(h);
                let axis = if ctx.coin("offer.col_axis", 500) { AxisType::Col } else { AxisType::Row };
                let Ok(sample) = Sample::new(r, c, axis, &sq.eds) else { continue };
                let bytes = block_bytes(&p.cid, &sample);
                let res = {
                    let s = st_bitswap.clone();
                    let b = bytes.clone();
                    tokio::spawn(async move { verif::shwap_hash(s, SAMPLE_ID_MULTIHASH_CODE, &b).await }).await
                };
                match res {
                    Ok(Ok(mh)) if mh == p.cid.hash().to_bytes() => {
                        let _ = blockstore.put_keyed(&p.cid, &bytes).await;
                        if let Some(a) = obs.st.lock().unwrap().attempts.get_mut(&h) {
                            a.delivered.insert((r, c));
                        }
                        ctx.ev("net.sample_delivered", h, ((r as u64) << 16) | c as u64);
                        let _ = p.respond_to.send(Ok(bytes));
                    }
                    Ok(_) => {
                        // header pruned meanwhile (or disk dead): bitswap drops the block
                        ctx.probe("sample_block_not_accepted");
                    }
                    Err(_) => {
                        ctx.note("shwap_hash_panicked", format!("height {h} ({r},{c})"));
                    }
                }
            }
            if disk.crashed() {
                break;
            }

            let next_due = pending.iter().filter_map(|p| p.due_ms).min();
            let sleep_for = next_due.map(|d| Duration::from_millis(d.saturating_sub(ctx.now_ms()).max(1)));
            tokio::select! {
                biased;
                cmd = mock.recv() => {
                    let Some(cmd) = cmd else { finished = true; break; };
                    match cmd {
                        P2pCommand::HeaderEx { request, respond_to } => {
                            ctx.ev("cmd.header_ex", match &request.data { Some(Data::Origin(o)) => *o, _ => u64::MAX }, request.amount);
                            serve_tasks.spawn(net.clone().serve_request(request, respond_to));
                        }
                        P2pCommand::InitHeaderSub { head, channel } => {
                            ctx.ev("cmd.init_header_sub", head.height(), 0);
                            obs.sure(head.height());
                            next_gossip_height = next_gossip_height.max(head.height() + 1);
                            header_sub = Some((*head, channel));
                        }
                        P2pCommand::GetNetworkHead { respond_to } => {
                            if let Some((h, _)) = header_sub.as_ref() {
                                obs.told(h.height());
                            }
                            let _ = respond_to.send(header_sub.as_ref().map(|(h, _)| h.clone()));
                        }
                        P2pCommand::GetNetworkCompromisedToken { respond_to } => {
                            let _ = respond_to.send(lumina_utils::token::Token::new());
                        }
                        P2pCommand::GetShwapCid { cid, respond_to } => {
                            let Ok(id) = SampleId::try_from(&cid) else {
                                ctx.violation("C33", "chosen_shares", "bad_cid", "the daser requested a CID that is not a sample id".into());
                                continue;
                            };
                            let h = id.block_height();
                            ctx.ev("cmd.get_shwap_cid", h, ((id.row_index() as u64) << 16) | id.column_index() as u64);
                            {
                                let st = obs.st.lock().unwrap();
                                if st.model.headers.contains_key(&h) {
                                    ctx.oracle("C33.cid_recorded_before_request");
                                    let recorded = st.model.meta.get(&h).is_some_and(|m| m.contains(&cid.to_bytes()));
                                    if !recorded {
                                        ctx.violation("C33", "cid_recorded_before_request", "daser",
                                            format!("share ({},{}) of height {h} was requested before its CID was recorded in the sampling metadata", id.row_index(), id.column_index()));
                                    }
                                }
                            }
                            let due_ms = if faults_on && ctx.coin("plan.never", p_never) {
                                ctx.fault("sample_never_answered");
                                None
                            } else {
                                Some(ctx.now_ms() + ctx.delay("plan.delay", max_delay.max(1)).as_millis() as u64)
                            };
                            pending.push(PendingSample { cid, id, respond_to, due_ms });
                        }
                        _ => {}
                    }
                }
                Some(_) = serve_tasks.join_next(), if !serve_tasks.is_empty() => {}
                _ = tick.tick() => {
                    // ---- gossip
                    let nh = net.network_head();
                    if let Some((known, ch)) = header_sub.as_mut() {
                        while next_gossip_height <= nh {
                            let h = next_gossip_height;
                            next_gossip_height += 1;
                            if !*net.connected.lock().unwrap() || (faults_on && ctx.coin("gossip.lost", 150)) {
                                ctx.fault("gossip_lost");
                                continue;
                            }
                            let bytes = chain.get(h).clone().encode_vec();
                            let Ok(decoded) = ExtendedHeader::decode_and_validate(&bytes) else { continue };
                            if known.verify(&decoded).is_err() {
                                continue;
                            }
                            *known = decoded.clone();
                            ctx.ev("gossip", h, 0);
                            if ch.try_send(decoded).is_ok() {
                                if faults_on { obs.told(h) } else { obs.sure(h) }
                            }
                        }
                    }
                    if faults_on {
                        // ---- connection loss
                        if churn && ctx.coin("churn.event", 40) {
                            let mut c = net.connected.lock().unwrap();
                            *c = !*c;
                            {
                                let mut st = obs.st.lock().unwrap();
                                st.connected = *c;
                                if !*c {
                                    st.ongoing.clear();
                                }
                            }
                            ctx.fault(if *c { "peers_reconnected" } else { "all_peers_disconnected" });
                            ctx.ev("churn", *c as u64, 0);
                            drop(c);
                            mock.set_peer_info(net.info());
                        }
                        if clock_jumps && ctx.coin("clock.jump", 15) {
                            ctx.jump_wall_clock(ctx.range("clock.jump_ms", 1, 60_000) as i64 * 1_000_000);
                        }
                        if suspend_left > 0 && ctx.coin("clock.suspend", 30) {
                            let jump_ms = pruning_window.as_millis() as u64 + ctx.range("clock.suspend_extra_ms", 0, 30_000);
                            if net.network_head() + jump_ms / block_time_ms + 8 < chain.len() {
                                suspend_left -= 1;
                                ctx.fault("suspended_longer_than_pruning_window");
                                ctx.ev("clock.suspend", jump_ms, 0);
                                ctx.jump_wall_clock(jump_ms as i64 * 1_000_000);
                                // what was announced meanwhile is gone; gossip resumes at the head
                                next_gossip_height = next_gossip_height.max(net.network_head());
                            }
                        }
                        // ---- power loss
                        if crashes_left > 0 && ctx.now_ms() >= next_crash_ms {
                            crashes_left -= 1;
                            next_crash_ms = u64::MAX;
                            if ctx.coin("crash.between_calls", 300) {
                                ctx.ev("crash.now", epoch as u64, 0);
                                disk.crash_now();
                            } else {
                                let n = ctx.range("crash.at_call", 1, 40);
                                ctx.ev("crash.armed", epoch as u64, n);
                                disk.arm_crash(n);
                            }
                        }
                    }
                }
                _ = async { match sleep_for { Some(d) => tokio::time::sleep(d).await, None => std::future::pending().await } } => {}
            }
        }

        // ================================================================ the process dies / stops
        let crashed = disk.crashed();
        {
            let mut st = obs.st.lock().unwrap();
            st.dead = true;
            st.events = None;
            if !st.fatal.is_empty() && !crashed {
                ctx.note("fatal_errors", st.fatal.join("; "));
            }
        }
        pruner.stop();
        daser.stop();
        syncer.stop();
        serve_tasks.abort_all();
        drop(pending);
        drop(header_sub);
        let _ = tokio::time::timeout(Duration::from_secs(30), async {
            pruner.join().await;
            daser.join().await;
            syncer.join().await;
        }).await;
        drop(mock);
        if finished || !crashed {
            // ---- end of the run: C38 liveness
            if !faults_on && ctx.now_ms() >= deadline_ms && ctx.findings.lock().unwrap().is_empty() && !crashed {
                let st = obs.st.lock().unwrap();
                let now_ns = ctx.wall_now_ns();
                let nh = net.network_head();
                let settled_head = nh.saturating_sub(2).min(st.sure_head);
                let stored = st.model.stored();
                let pruned = st.model.pruned.clone();
                ctx.oracle("C38.converges");
                let missing: Vec<u64> = (1..=settled_head)
                    .filter(|h| time_to_ns(chain.time_of(*h)) > now_ns - sampling_window.as_nanos() as i64 + EPS_NS)
                    .filter(|h| !stored.contains(h) && !pruned.contains(h))
                    .collect();
                if !missing.is_empty() {
                    ctx.violation("C38", "converges", if st.fatal.is_empty() { "missing_heights" } else { "component_died" },
                        format!("{} virtual s after the last fault (epoch {epoch}, honest peer connected), {} heights inside the sampling window are not stored, e.g. {:?}; network head {nh}, stored {:?}, pruned {:?}; fatal errors: {:?}",
                            (ctx.now_ms() - faults_end_ms) / 1000, missing.len(), &missing[..missing.len().min(6)], compact(&stored), compact(&pruned), st.fatal));
                } else {
                    ctx.probe("converged");
                    // how far did sampling get (observed, not judged: no listed property bounds it)
                    let unsampled = stored.iter().filter(|h| time_to_ns(chain.time_of(**h)) > now_ns - sampling_window.as_nanos() as i64 + EPS_NS && !st.model.sampled.contains(h)).count();
                    if unsampled == 0 { ctx.probe("everything_in_window_sampled"); }
                }
            }
            break;
        }
        // ---- downtime, then restart from what the disk kept
        ctx.probe("node_restarted_after_power_loss");
        image = disk.image_after_stop();
        let down_ms = if ctx.coin("down.long", 150) {
            ctx.range("down.long_ms", 60_000, sampling_window.as_millis() as u64 + 60_000)
        } else {
            ctx.range("down.ms", 0, 30_000)
        };
        tokio::time::sleep(Duration::from_millis(down_ms)).await;
        ctx.ev("node.down_for", down_ms, 0);
        epoch += 1;
    }
    let st = obs.st.lock().unwrap();
    ctx.note("summary", format!("epochs={} batches={} marked={} removed={}", epoch + 1, st.batches, st.marked, st.removed));
}
