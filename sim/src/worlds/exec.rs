//! W-EXEC: `lumina_utils::executor::{spawn, spawn_cancellable, JoinHandle}` and
//! `lumina_utils::token::Token` on the single-threaded paused runtime.
//!
//! Tasks have chooser-chosen virtual lifetimes (a list of sleeps, optionally followed by waiting
//! forever), may unwind at a chosen step, and cancellable ones have their `CancellationToken`
//! cancelled at a chosen instant (before the spawn, exactly at a step boundary, in the middle of
//! a step, after the end, never). Several joiners per handle arrive before, exactly at and after
//! the end. Tokens are also exercised directly (trigger / clone / drop guard / disarmed guard).
//!
//! Decides C42 (on the single-threaded runtime only; the statement's multi-threaded quantifier is
//! outside what the simulator controls, see DESIGN.md section 11).
//!
//! How the end of a task is observed: a drop guard *inside* the task's future records the virtual
//! instant at which the future completed, unwound or was dropped by the cancellation `select!`.

use std::sync::atomic::{AtomicBool, AtomicU64, Ordering};
use std::sync::{Arc, Mutex};
use std::time::Duration;

use lumina_utils::executor::{JoinHandle, spawn, spawn_cancellable};
use lumina_utils::token::Token;
use tokio_util::sync::CancellationToken;

use crate::kernel::ctx::{RunCtx, Tier};
use crate::kernel::runner::{World, WorldFut};

pub struct ExecWorld;

impl World for ExecWorld {
    fn name(&self) -> &'static str {
        "exec.join"
    }
    fn run<'a>(&'a self, ctx: &'a Arc<RunCtx>) -> WorldFut<'a> {
        Box::pin(run_exec(ctx))
    }
    fn vtime_cap(&self) -> Duration {
        Duration::from_secs(3600)
    }
}

const NEVER: u64 = u64::MAX;
const MS: u64 = 1_000_000;

/// Shared between a task, its joiners and the harness. Times are virtual ns since run start.
struct TaskState {
    progress: AtomicU64,
    last_progress_ns: AtomicU64,
    ended: AtomicBool,
    end_ns: AtomicU64,
    /// 0 = dropped without finishing (cancelled / never polled), 1 = returned, 2 = unwound
    cause: AtomicU64,
    /// the task's join handle, once the spawn call returned (read by the task's own drop guard)
    handle: Mutex<Option<Arc<JoinHandle>>>,
}

impl TaskState {
    fn new() -> Arc<Self> {
        Arc::new(TaskState {
            progress: AtomicU64::new(0),
            last_progress_ns: AtomicU64::new(0),
            ended: AtomicBool::new(false),
            end_ns: AtomicU64::new(NEVER),
            cause: AtomicU64::new(0),
            handle: Mutex::new(None),
        })
    }
}

/// Lives inside the task's future; its drop is the end of the task body however it ends.
struct EndGuard {
    ctx: Arc<RunCtx>,
    st: Arc<TaskState>,
    task: u64,
}

impl Drop for EndGuard {
    fn drop(&mut self) {
        if !self.st.ended.swap(true, Ordering::SeqCst) {
            self.st.end_ns.store(self.ctx.refresh_elapsed(), Ordering::SeqCst);
            // The task's state (this guard) is still alive right now. If the join handle already
            // resolves, a joiner on another thread can see the task "finished" while it is still
            // being torn down (on this single-threaded runtime the joiner itself cannot run in
            // between, so the order is observed from inside the drop).
            if self.ctx.clock_ready.load(Ordering::Acquire) {
                let h = self.st.handle.lock().unwrap().clone();
                if let Some(h) = h {
                    use futures::FutureExt;
                    self.ctx.oracle("C42.not_resolved_while_state_alive");
                    if h.join().now_or_never().is_some() {
                        self.ctx.violation("C42", "not_resolved_while_state_alive", "join_handle",
                            format!("task {}: its join handle already resolves while the task's future (and what it owns) has not been dropped yet", self.task));
                    }
                }
            }
            // run teardown (after the world returned) must not extend the history
            if self.ctx.clock_ready.load(Ordering::Acquire) {
                self.ctx.ev("task.end", self.task, self.st.cause.load(Ordering::SeqCst));
            }
        }
    }
}

#[derive(Clone, Debug)]
struct TaskPlan {
    /// 0 = `spawn`, 1 = `spawn_cancellable` with its own token, 2 = with the shared token
    kind: u32,
    steps: Vec<u64>,
    forever: bool,
    unwind_at: Option<usize>,
}

#[derive(Clone, Copy, Debug, PartialEq, Eq)]
enum Action {
    Spawn(usize),
    Cancel(usize),
    CancelShared,
    Join(usize, usize),
    TokenFire(usize),
    TokenWait(usize, usize),
}

struct JoinRecord {
    task: usize,
    joiner: usize,
    arrive_ns: u64,
    resolved_ns: AtomicU64,
}

struct TokenPlan {
    /// 0 trigger(), 1 trigger() on a clone, 2 drop of a drop guard, 3 drop of a disarmed guard
    mode: u32,
    fire_ms: u64,
    token: Token,
    fired_ns: AtomicU64,
}

fn body(ctx: Arc<RunCtx>, st: Arc<TaskState>, plan: TaskPlan, task: u64) -> impl Future<Output = ()> + Send + 'static {
    // created outside the async block: a future that is dropped without ever being polled
    // (token cancelled before the first poll) still reports its end
    let guard = EndGuard { ctx: ctx.clone(), st: st.clone(), task };
    async move {
        let _guard = guard;
        for (i, ms) in plan.steps.iter().enumerate() {
            if plan.unwind_at == Some(i) {
                st.cause.store(2, Ordering::SeqCst);
                ctx.ev("task.unwind", task, i as u64);
                // an unwind that bypasses the panic hook: the runner's hook would otherwise book
                // a panic raised from this file as a harness error
                std::panic::resume_unwind(Box::new("planned unwind of a simulated task"));
            }
            tokio::time::sleep(Duration::from_millis(*ms)).await;
            st.last_progress_ns.store(ctx.refresh_elapsed(), Ordering::SeqCst);
            let p = st.progress.fetch_add(1, Ordering::SeqCst) + 1;
            ctx.ev("task.step", task, p);
        }
        if plan.unwind_at == Some(plan.steps.len()) {
            st.cause.store(2, Ordering::SeqCst);
            ctx.ev("task.unwind", task, plan.steps.len() as u64);
            std::panic::resume_unwind(Box::new("planned unwind of a simulated task"));
        }
        if plan.forever {
            std::future::pending::<()>().await;
        }
        st.cause.store(1, Ordering::SeqCst);
    }
}

async fn run_exec(ctx: &Arc<RunCtx>) {
    let thorough = ctx.tier == Tier::Thorough;
    // ------------------------------------------------------------------ plan (all drawn up front)
    let n_tasks = ctx.range("cfg.tasks", 1, if thorough { 8 } else { 5 }) as usize;
    let n_tokens = ctx.range("cfg.tokens", 0, 2) as usize;
    let mut plans: Vec<TaskPlan> = Vec::new();
    let mut actions: Vec<(u64, Action)> = Vec::new();
    for t in 0..n_tasks {
        ctx.begin_span("task");
        let kind = ctx.choose("task.kind", 3);
        let start_ms = ctx.range("task.start_ms", 0, 30);
        let n_steps = ctx.range("task.steps", 0, 4) as usize;
        let steps: Vec<u64> = (0..n_steps).map(|_| ctx.range("task.step_ms", 0, 25)).collect();
        let forever = ctx.coin("task.forever", 150);
        let unwind_at = if ctx.coin("task.unwinds", 250) {
            Some(ctx.range("task.unwind_at", 0, n_steps as u64) as usize)
        } else {
            None
        };
        let total: u64 = steps.iter().sum();
        let boundary = |k: u64| -> u64 { start_ms + steps.iter().take(k as usize).sum::<u64>() };
        if kind == 1 {
            // 0 never, 1 before the spawn, 2 exactly at a step boundary, 3 anywhere, 4 after the end
            match ctx.choose("cancel.class", 5) {
                0 => {}
                1 => actions.push((start_ms, Action::Cancel(t))),
                2 => actions.push((boundary(ctx.range("cancel.boundary", 0, n_steps as u64)), Action::Cancel(t))),
                3 => actions.push((start_ms + ctx.range("cancel.ms", 0, total + 5), Action::Cancel(t))),
                _ => actions.push((start_ms + total + ctx.range("cancel.after_ms", 0, 20), Action::Cancel(t))),
            }
        }
        // class 1 above cancels before the spawn because the cancel action is queued first
        actions.push((start_ms, Action::Spawn(t)));
        let n_join = ctx.range("join.count", 1, 3) as usize;
        for j in 0..n_join {
            // 0 right at the spawn, 1 exactly at a step boundary / the end, 2 anywhere, 3 well after
            let at = match ctx.choose("join.class", 4) {
                0 => start_ms,
                1 => boundary(ctx.range("join.boundary", 0, n_steps as u64)),
                2 => start_ms + ctx.range("join.ms", 0, total + 5),
                _ => start_ms + total + ctx.range("join.after_ms", 1, 40),
            };
            actions.push((at, Action::Join(t, j)));
        }
        plans.push(TaskPlan { kind, steps, forever, unwind_at });
        ctx.end_span();
    }
    if plans.iter().any(|p| p.kind == 2) && ctx.coin("cancel.shared", 600) {
        actions.push((ctx.range("cancel.shared_ms", 0, 120), Action::CancelShared));
    }
    let mut tokens: Vec<Arc<TokenPlan>> = Vec::new();
    for k in 0..n_tokens {
        ctx.begin_span("token");
        let mode = ctx.choose("token.mode", 4);
        let fire_ms = ctx.range("token.fire_ms", 0, 60);
        actions.push((fire_ms, Action::TokenFire(k)));
        let n_wait = ctx.range("token.waiters", 1, 3) as usize;
        for w in 0..n_wait {
            let at = match ctx.choose("token.wait_class", 3) {
                0 => 0,
                1 => fire_ms,
                _ => ctx.range("token.wait_ms", 0, 100),
            };
            actions.push((at, Action::TokenWait(k, w)));
        }
        tokens.push(Arc::new(TokenPlan { mode, fire_ms, token: Token::new(), fired_ns: AtomicU64::new(NEVER) }));
        ctx.end_span();
    }
    // stable: actions due at the same instant keep their planning order
    actions.sort_by_key(|(t, _)| *t);

    // ------------------------------------------------------------------ state
    let states: Vec<Arc<TaskState>> = (0..n_tasks).map(|_| TaskState::new()).collect();
    let own_tokens: Vec<CancellationToken> = (0..n_tasks).map(|_| CancellationToken::new()).collect();
    let shared_token = CancellationToken::new();
    let mut handles: Vec<Option<Arc<JoinHandle>>> = (0..n_tasks).map(|_| None).collect();
    // (cancel instant ns, progress right after cancel()) of the first cancellation of each task
    let mut cancelled: Vec<Option<(u64, u64)>> = vec![None; n_tasks];
    let joins: Arc<Mutex<Vec<Arc<JoinRecord>>>> = Arc::new(Mutex::new(Vec::new()));
    let token_joins: Arc<Mutex<Vec<(usize, usize, u64, Arc<AtomicU64>)>>> = Arc::new(Mutex::new(Vec::new()));
    let mut helper_tasks = Vec::new();
    // drop guards of the token plans, kept until their fire time
    let mut token_guards: Vec<Option<lumina_utils::token::TokenTriggerDropGuard>> = tokens
        .iter()
        .map(|tp| match tp.mode {
            2 => Some(tp.token.trigger_drop_guard()),
            3 => {
                let mut g = tp.token.trigger_drop_guard();
                g.disarm();
                Some(g)
            }
            _ => None,
        })
        .collect();

    let t0 = tokio::time::Instant::now();
    // ------------------------------------------------------------------ run the schedule
    for (at_ms, action) in actions.iter().copied() {
        tokio::time::sleep_until(t0 + Duration::from_millis(at_ms)).await;
        let now_ns = ctx.refresh_elapsed();
        match action {
            Action::Spawn(t) => {
                ctx.ev("spawn", t as u64, plans[t].kind as u64);
                let fut = body(ctx.clone(), states[t].clone(), plans[t].clone(), t as u64);
                let h = match plans[t].kind {
                    0 => spawn(fut),
                    1 => spawn_cancellable(own_tokens[t].clone(), fut),
                    _ => spawn_cancellable(shared_token.clone(), fut),
                };
                let h = Arc::new(h);
                *states[t].handle.lock().unwrap() = Some(h.clone());
                handles[t] = Some(h);
                // spawned with an already cancelled token: the cancellation takes effect now
                let pre_cancelled = match plans[t].kind {
                    0 => false,
                    1 => own_tokens[t].is_cancelled(),
                    _ => shared_token.is_cancelled(),
                };
                if pre_cancelled {
                    cancelled[t] = Some((now_ns, 0));
                    ctx.probe("spawned_with_cancelled_token");
                }
            }
            Action::Cancel(t) => {
                ctx.ev("cancel", t as u64, 0);
                own_tokens[t].cancel();
                if cancelled[t].is_none() && handles[t].is_some() {
                    cancelled[t] = Some((now_ns, states[t].progress.load(Ordering::SeqCst)));
                }
                ctx.fault("token_cancelled");
            }
            Action::CancelShared => {
                ctx.ev("cancel.shared", 0, 0);
                shared_token.cancel();
                for t in 0..n_tasks {
                    if plans[t].kind == 2 && cancelled[t].is_none() && handles[t].is_some() {
                        cancelled[t] = Some((now_ns, states[t].progress.load(Ordering::SeqCst)));
                    }
                }
                ctx.fault("shared_token_cancelled");
            }
            Action::Join(t, j) => {
                // a joiner cannot exist before the handle does (its arrival was planned >= spawn)
                let Some(h) = handles[t].clone() else { continue };
                ctx.ev("join.arrive", t as u64, j as u64);
                let rec = Arc::new(JoinRecord { task: t, joiner: j, arrive_ns: now_ns, resolved_ns: AtomicU64::new(NEVER) });
                joins.lock().unwrap().push(rec.clone());
                let (ctx2, st) = (ctx.clone(), states[t].clone());
                helper_tasks.push(tokio::spawn(async move {
                    h.join().await;
                    let now = ctx2.refresh_elapsed();
                    rec.resolved_ns.store(now, Ordering::SeqCst);
                    ctx2.ev("join.resolved", rec.task as u64, rec.joiner as u64);
                    // ---- never before the task finished, unwound or was cancelled
                    ctx2.oracle("C42.not_before_end");
                    if !st.ended.load(Ordering::SeqCst) {
                        ctx2.violation("C42", "not_before_end", "join",
                            format!("join() of task {} (joiner {}) resolved at {} ms while the task body is still alive (progress {})",
                                rec.task, rec.joiner, now / MS, st.progress.load(Ordering::SeqCst)));
                    }
                    // second join on the same handle must return immediately
                    h.join().await;
                    ctx2.oracle("C42.rejoin_immediate");
                    if ctx2.refresh_elapsed() != now {
                        ctx2.violation("C42", "rejoin_immediate", "join",
                            format!("a second join() of task {} took {} ns of virtual time", rec.task, ctx2.refresh_elapsed() - now));
                    }
                }));
            }
            Action::TokenFire(k) => {
                let tp = &tokens[k];
                ctx.ev("token.fire", k as u64, tp.mode as u64);
                ctx.oracle("C42.token_not_triggered_early");
                if tp.token.is_triggered() {
                    ctx.violation("C42", "token_not_triggered_early", "is_triggered",
                        format!("token {k} (mode {}) reports triggered before anything triggered it", tp.mode));
                }
                match tp.mode {
                    0 => tp.token.trigger(),
                    1 => tp.token.clone().trigger(),
                    _ => drop(token_guards[k].take()),
                }
                if tp.mode != 3 {
                    tp.fired_ns.store(now_ns, Ordering::SeqCst);
                } else {
                    ctx.probe("disarmed_guard_dropped");
                }
                ctx.oracle("C42.token_triggered_after");
                if tp.token.is_triggered() != (tp.mode != 3) {
                    ctx.violation("C42", "token_triggered_after", "is_triggered",
                        format!("token {k} mode {}: is_triggered() = {} right after the trigger action", tp.mode, tp.token.is_triggered()));
                }
            }
            Action::TokenWait(k, w) => {
                ctx.ev("token.wait", k as u64, w as u64);
                let resolved = Arc::new(AtomicU64::new(NEVER));
                token_joins.lock().unwrap().push((k, w, now_ns, resolved.clone()));
                let (ctx2, tp) = (ctx.clone(), tokens[k].clone());
                // a clone must observe the same event
                let waiter = tp.token.clone();
                helper_tasks.push(tokio::spawn(async move {
                    waiter.triggered().await;
                    resolved.store(ctx2.refresh_elapsed(), Ordering::SeqCst);
                    ctx2.ev("token.resolved", k as u64, w as u64);
                    ctx2.oracle("C42.token_not_before_trigger");
                    if tp.fired_ns.load(Ordering::SeqCst) == NEVER {
                        ctx2.violation("C42", "token_not_before_trigger", "triggered",
                            format!("triggered() of token {k} (mode {}) resolved although nothing triggered it", tp.mode));
                    }
                }));
            }
        }
    }

    // ------------------------------------------------------------------ settle
    // every finite lifetime and every planned action lies within 1 s; nothing is runnable after
    tokio::time::sleep(Duration::from_secs(5)).await;

    for rec in joins.lock().unwrap().iter() {
        let st = &states[rec.task];
        let plan = &plans[rec.task];
        let end_ns = st.end_ns.load(Ordering::SeqCst);
        let resolved_ns = rec.resolved_ns.load(Ordering::SeqCst);
        if end_ns == NEVER {
            // lives forever and nobody cancelled it: join must still be pending (covered by
            // not_before_end at resolution time); nothing more to say
            ctx.probe("joiner_of_immortal_task");
            continue;
        }
        // ---- always resolves once the task ended, and at that very instant
        ctx.oracle("C42.resolves_at_end");
        let want = end_ns.max(rec.arrive_ns);
        if resolved_ns == NEVER {
            ctx.violation("C42", "resolves_at_end", "never",
                format!("task {} (kind {}, cause {}) ended at {} ms; joiner {} arrived at {} ms and is still pending {} ms later",
                    rec.task, plan.kind, st.cause.load(Ordering::SeqCst), end_ns / MS, rec.joiner, rec.arrive_ns / MS, (ctx.refresh_elapsed() - want) / MS));
        } else if resolved_ns != want {
            ctx.violation("C42", "resolves_at_end", if resolved_ns < want { "early" } else { "late" },
                format!("task {} (kind {}, cause {}) ended at {} ns; joiner {} arrived at {} ns; join() resolved at {} ns instead of {} ns",
                    rec.task, plan.kind, st.cause.load(Ordering::SeqCst), end_ns, rec.joiner, rec.arrive_ns, resolved_ns, want));
        }
        if rec.arrive_ns < end_ns {
            ctx.probe("joiner_waited_for_end");
        } else {
            ctx.probe("joiner_arrived_after_end");
        }
        match st.cause.load(Ordering::SeqCst) {
            2 => ctx.probe("joined_unwound_task"),
            1 => ctx.probe("joined_finished_task"),
            _ => ctx.probe("joined_cancelled_task"),
        }
    }

    for t in 0..n_tasks {
        let st = &states[t];
        let Some((cancel_ns, progress_at_cancel)) = cancelled[t] else { continue };
        if handles[t].is_none() {
            continue;
        }
        let end_ns = st.end_ns.load(Ordering::SeqCst);
        // ---- a cancellable task stops when its token is cancelled
        ctx.oracle("C42.cancel_stops_task");
        if end_ns == NEVER || end_ns > cancel_ns {
            // (a task spawned with an already cancelled token ends at its spawn instant, which is
            // the cancel instant here because both actions share one virtual instant)
            ctx.violation("C42", "cancel_stops_task", "still_alive",
                format!("task {t} (kind {}) was cancelled at {} ns but its body {}", plans[t].kind, cancel_ns,
                    if end_ns == NEVER { "never ended".to_string() } else { format!("ended at {end_ns} ns") }));
        }
        ctx.oracle("C42.cancel_stops_progress");
        let progress = st.progress.load(Ordering::SeqCst);
        if progress > progress_at_cancel {
            // Two keys: a step whose timer fired at the cancel instant itself, and a step at a
            // later instant. Both contradict the biased `select!` (the token is looked at first),
            // the first is the weaker form.
            let key = if st.last_progress_ns.load(Ordering::SeqCst) == cancel_ns { "same_instant_step" } else { "later_step" };
            ctx.violation("C42", "cancel_stops_progress", key,
                format!("task {t}: progress was {progress_at_cancel} right after cancel() at {} ns and is {progress} now (last step at {} ns)",
                    cancel_ns, st.last_progress_ns.load(Ordering::SeqCst)));
        }
        if end_ns != NEVER && end_ns == cancel_ns && st.cause.load(Ordering::SeqCst) == 0 {
            ctx.probe("task_stopped_by_cancellation");
            if progress_at_cancel < plans[t].steps.len() as u64 {
                ctx.probe("task_cancelled_mid_lifetime");
            }
        }
    }

    for (k, w, arrive_ns, resolved) in token_joins.lock().unwrap().iter() {
        let tp = &tokens[*k];
        let fired = tp.fired_ns.load(Ordering::SeqCst);
        let resolved = resolved.load(Ordering::SeqCst);
        ctx.oracle("C42.token_resolves_at_trigger");
        if fired == NEVER {
            if resolved != NEVER || tp.token.is_triggered() {
                ctx.violation("C42", "token_resolves_at_trigger", "disarmed",
                    format!("token {k}: only a disarmed guard was dropped, yet waiter {w} resolved / is_triggered() = {}", tp.token.is_triggered()));
            }
            continue;
        }
        let want = fired.max(*arrive_ns);
        if resolved != want {
            ctx.violation("C42", "token_resolves_at_trigger", "time",
                format!("token {k} mode {} fired at {fired} ns (planned {} ms); waiter {w} arrived at {arrive_ns} ns and resolved at {} instead of {want} ns",
                    tp.mode, tp.fire_ms, if resolved == NEVER { "never".to_string() } else { format!("{resolved} ns") }));
        }
    }

    for h in &helper_tasks {
        h.abort();
    }
    for h in helper_tasks {
        let _ = h.await;
    }
}
