//! W-SHWAP: row, row-namespace-data and namespace-data retrieval against Byzantine full nodes.
//!
//! The real `P2p::get_row` / `get_row_namespace_data` run on a mocked `P2p`; every block the
//! simulated peers send passes through the real `ShwapMultihasher` and reaches the caller only if
//! the multihash equals the wanted CID (beetswap's rule). Namespace data for whole blocks goes
//! through the real shrex response codec. Peers answer late, never, or with Byzantine content
//! first: other rows, swapped / altered / missing / extra shares, mixed halves, borrowed proofs,
//! dropped or reordered rows (omission = withholding part of a namespace).
//!
//! Decides C05 (row retrieval returns exactly the committed row) and C06 (namespace data is sound
//! and complete).

use std::sync::Arc;
use std::time::Duration;

use bytes::BytesMut;
use celestia_proto::bitswap::Block;
use celestia_proto::shwap::{Row as RawRow, RowNamespaceData as RawRnd, Share as RawShare, row::HalfSide};
use celestia_types::consts::appconsts::AppVersion;
use celestia_types::namespace_data::{NamespaceData, NamespaceDataId};
use celestia_types::nmt::Namespace;
use celestia_types::row::{ROW_ID_MULTIHASH_CODE, Row, RowId};
use celestia_types::row_namespace_data::{ROW_NAMESPACE_DATA_ID_MULTIHASH_CODE, RowNamespaceData, RowNamespaceDataId};
use celestia_types::Share;
use cid::{Cid, CidGeneric};
use lumina_node::store::{InMemoryStore, Store};
use lumina_node::verif::{self, P2pCommand, shrex};
use prost::Message;

use crate::kernel::ctx::{RunCtx, Tier};
use crate::kernel::runner::{World, WorldFut, is_harness_location, short_location};
use crate::seams::squares::{DataChain, DataChainParams, Square};

pub struct ShwapWorld;

impl World for ShwapWorld {
    fn name(&self) -> &'static str {
        "shwap.data"
    }
    fn run<'a>(&'a self, ctx: &'a Arc<RunCtx>) -> WorldFut<'a> {
        Box::pin(run_shwap(ctx))
    }
}

fn big_cid<const S: usize>(small: CidGeneric<S>) -> Cid {
    let mh = multihash::Multihash::<64>::wrap(small.hash().code(), small.hash().digest()).expect("fits");
    Cid::new_v1(small.codec(), mh)
}

fn raw_share(s: &Share) -> RawShare {
    RawShare { data: s.to_vec() }
}

/// Brute-force scan: the shares of `ns` in row `r`, in column order.
fn scan_row(sq: &Square, r: u16, ns: &Namespace) -> Vec<Share> {
    (0..sq.width())
        .filter_map(|c| sq.eds.share(r, c).ok())
        .filter(|s| s.namespace() == *ns)
        .cloned()
        .collect()
}

/// Does the root range of row `r` cover `ns` (min <= ns <= max of the committed root)?
fn row_covers(sq: &Square, r: u16, ns: &Namespace) -> bool {
    let Some(root) = sq.dah.row_root(r) else { return false };
    let (min, max) = (root.min_namespace().0, root.max_namespace().0);
    let n: &[u8] = ns.as_bytes();
    &min[..] <= n && n <= &max[..]
}

/// A namespace for a query: present, absent-in-range, out of range, reserved or parity.
fn pick_namespace(ctx: &RunCtx, sq: &Square) -> (Namespace, &'static str) {
    match ctx.choose("ns.kind", 6) {
        0 | 1 => (sq.namespaces[ctx.choose("ns.idx", sq.namespaces.len() as u32) as usize], "present"),
        2 => {
            // between two generated namespaces (their ids differ in the ordinal bytes)
            let base = sq.namespaces[ctx.choose("ns.idx", sq.namespaces.len() as u32) as usize];
            let mut id: [u8; 10] = base.id_v0().unwrap().try_into().unwrap();
            id[9] = id[9].wrapping_add(1);
            if id[9] == 0 { id[8] = id[8].wrapping_add(1); }
            (Namespace::new_v0(&id).unwrap_or(base), "absent_in_range")
        }
        3 => (Namespace::new_v0(&[0, 0, 0, 1, 0, 0, 0, 0, 0, 1]).unwrap(), "below_range"),
        4 => (Namespace::TAIL_PADDING, "reserved_tail_padding"),
        _ => (Namespace::PARITY_SHARE, "parity"),
    }
}

struct Offer {
    bytes: Vec<u8>,
    family: &'static str,
    honest: bool,
}

fn row_block(cid: &Cid, raw: &RawRow) -> Vec<u8> {
    Block { cid: cid.to_bytes(), container: raw.encode_to_vec() }.encode_to_vec()
}

fn row_offer(ctx: &RunCtx, sq: &Square, cid: &Cid, i: u16, byz: bool) -> Offer {
    let w = sq.width();
    let k = (w / 2) as usize;
    let row = sq.eds.row(i).expect("row");
    let left: Vec<RawShare> = row[..k].iter().map(raw_share).collect();
    let right: Vec<RawShare> = row[k..].iter().map(raw_share).collect();
    if !byz {
        return if ctx.coin("row.right_half", 500) {
            Offer { bytes: row_block(cid, &RawRow { shares_half: right, half_side: HalfSide::Right.into() }), family: "honest_right_half", honest: true }
        } else {
            Offer { bytes: row_block(cid, &RawRow { shares_half: left, half_side: HalfSide::Left.into() }), family: "honest_left_half", honest: true }
        };
    }
    let fam = ctx.choose("row.byz", 7);
    let (half, side, family): (Vec<RawShare>, HalfSide, &'static str) = match fam {
        0 => {
            let j = (i + 1 + ctx.choose("row.other", (w - 1) as u32) as u16) % w;
            let other = sq.eds.row(j).expect("row");
            (other[..k].iter().map(raw_share).collect(), HalfSide::Left, "other_row")
        }
        1 => {
            let mut l = left.clone();
            let at = ctx.choose("row.share", k as u32) as usize;
            let byte = 30 + ctx.choose("row.byte", 480) as usize;
            l[at].data[byte] ^= 0x01;
            (l, HalfSide::Left, "share_altered")
        }
        2 if k >= 2 => {
            let mut l = left.clone();
            l.swap(0, k - 1);
            (l, HalfSide::Left, "shares_reordered")
        }
        3 => (left.clone(), HalfSide::Right, "left_half_sent_as_right"),
        4 => (right.clone(), HalfSide::Left, "right_half_sent_as_left"),
        5 if k >= 2 => {
            let mut l = left.clone();
            l.pop();
            (l, HalfSide::Left, "half_truncated")
        }
        _ => {
            let mut l = left.clone();
            l.push(left[0].clone());
            (l, HalfSide::Left, "half_with_extra_share")
        }
    };
    Offer { bytes: row_block(cid, &RawRow { shares_half: half, half_side: side.into() }), family, honest: false }
}

fn rnd_block(cid: &Cid, raw: &RawRnd) -> Vec<u8> {
    Block { cid: cid.to_bytes(), container: raw.encode_to_vec() }.encode_to_vec()
}

/// Mutations shared by the bitswap (single row) and shrex (all rows) paths.
fn mutate_rnd(ctx: &RunCtx, sq: &Square, ns: &Namespace, r: u16, honest: &RowNamespaceData, all: &[(RowNamespaceDataId, RowNamespaceData)]) -> (RawRnd, &'static str) {
    let mut raw = RawRnd::from(honest.clone());
    let fam = ctx.choose("rnd.byz", 8);
    let family = match fam {
        0 if !raw.shares.is_empty() => {
            // omission: withhold one share of the namespace
            let at = match ctx.choose("rnd.drop_where", 3) { 0 => 0, 1 => raw.shares.len() - 1, _ => raw.shares.len() / 2 };
            raw.shares.remove(at);
            "share_dropped"
        }
        1 if !raw.shares.is_empty() => {
            let d = raw.shares[0].clone();
            raw.shares.push(d);
            "share_duplicated"
        }
        2 if raw.shares.len() >= 2 => {
            let n = raw.shares.len();
            raw.shares.swap(0, n - 1);
            "shares_reordered"
        }
        3 if !raw.shares.is_empty() => {
            let at = ctx.choose("rnd.share", raw.shares.len() as u32) as usize;
            raw.shares[at].data[40 + ctx.choose("rnd.byte", 400) as usize] ^= 0x01;
            "share_altered"
        }
        4 => {
            // proof borrowed from another row of the same namespace
            match all.iter().find(|(id, _)| id.row_index() != r) {
                Some((_, other)) => {
                    raw.proof = RawRnd::from(other.clone()).proof;
                    "proof_of_other_row"
                }
                None => {
                    raw.proof = None;
                    "proof_missing"
                }
            }
        }
        5 => {
            // a neighbouring namespace's share smuggled in (re-labelled)
            let foreign = (0..sq.width()).filter_map(|c| sq.eds.share(r, c).ok()).find(|s| s.namespace() != *ns && !s.is_parity());
            match foreign {
                Some(s) => {
                    let mut d = s.to_vec();
                    d[..29].copy_from_slice(ns.as_bytes());
                    raw.shares.push(RawShare { data: d });
                    "foreign_share_relabelled"
                }
                None => {
                    raw.shares.clear();
                    "all_shares_dropped"
                }
            }
        }
        6 => {
            raw.shares.clear();
            "all_shares_dropped"
        }
        _ => {
            if let Some(p) = raw.proof.as_mut() {
                p.start = p.start.wrapping_add(1);
            }
            "proof_range_shifted"
        }
    };
    (raw, family)
}

/// For a row whose committed root range does not cover the namespace there is nothing honest to
/// send; a lying peer can still fabricate shares of the namespace and attach a proof that is
/// *typed* as an absence proof (nmt-rs returns early for a namespace outside the root's range).
fn forged_rnd_for_uncovered_row(ctx: &RunCtx, sq: &Square, ns: &Namespace, r: u16) -> Option<(RawRnd, &'static str)> {
    let donor = (0..sq.width()).filter_map(|c| sq.eds.share(r % (sq.width() / 2).max(1), c).ok()).find(|s| !s.is_parity())?;
    let n = 1 + ctx.choose("rnd.forged_shares", 3) as usize;
    let shares: Vec<RawShare> = (0..n)
        .map(|_| {
            let mut d = donor.to_vec();
            d[..29].copy_from_slice(ns.as_bytes());
            RawShare { data: d }
        })
        .collect();
    let mut leaf_hash = Vec::with_capacity(90);
    leaf_hash.extend_from_slice(ns.as_bytes());
    leaf_hash.extend_from_slice(ns.as_bytes());
    leaf_hash.extend_from_slice(&[0x5a; 32]);
    let with_nodes = ctx.coin("rnd.forged_nodes", 400);
    let nodes = if with_nodes { vec![leaf_hash.clone()] } else { vec![] };
    let proof = celestia_proto::proof::pb::Proof {
        start: ctx.choose("rnd.forged_start", 3) as i64,
        end: 1 + ctx.choose("rnd.forged_end", 3) as i64,
        nodes,
        leaf_hash,
        is_max_namespace_ignored: true,
    };
    Some((RawRnd { shares, proof: Some(proof) }, "fabricated_shares_with_absence_typed_proof"))
}

async fn run_shwap(ctx: &Arc<RunCtx>) {
    let thorough = ctx.tier == Tier::Thorough;
    let chain = DataChain::cached(DataChainParams {
        class: ctx.range("cfg.chain_class", 0, 1),
        len: 12,
        block_time_ms: 12_000,
        head_offset_ms: -60_000,
        max_ods_log2: *ctx.pick("cfg.max_ods_log2", if thorough { &[2u8, 0, 1, 3, 4][..] } else { &[2u8, 0, 1, 3][..] }),
    });
    let store = Arc::new(InMemoryStore::new());
    let all: Vec<_> = (1..=chain.len()).map(|h| chain.get(h).clone()).collect();
    let _ = store.insert(unsafe { lumina_node::store::VerifiedExtendedHeaders::new_unchecked(all) }).await;
    let (p2p, mut mock) = verif::mocked_p2p();
    let n_ops = ctx.range("cfg.ops", 1, if thorough { 30 } else { 12 });
    let p_byz = ctx.range("cfg.p_byz", 100, 800) as u32;

    for op in 0..n_ops {
        if !ctx.findings.lock().unwrap().is_empty() {
            break;
        }
        ctx.begin_span("op");
        let h = ctx.range("op.height", 1, chain.len());
        let sq = chain.square(h).clone();
        let w = sq.width();
        let kind = ctx.choose("op.kind", 3);
        ctx.ev("op", op, ((kind as u64) << 32) | h);
        match kind {
            // ------------------------------------------------------------ C05: a row over bitswap
            0 => {
                let i = ctx.choose("row.index", w as u32) as u16;
                let id = RowId::new(i, h).expect("row id");
                let cid = big_cid(CidGeneric::<10>::from(id));
                let p = p2p.clone();
                let task = tokio::spawn(async move { p.get_row(i, h, Some(Duration::from_secs(30))).await });
                let Some(P2pCommand::GetShwapCid { cid: wanted, respond_to }) = mock.recv().await else { ctx.end_span(); break };
                let mut respond_to = Some(respond_to);
                // Byzantine answers first (maybe), then an honest one (maybe)
                let mut plan: Vec<bool> = Vec::new();
                while plan.len() < 3 && ctx.coin("row.byz_first", p_byz) { plan.push(true); }
                if !ctx.coin("row.never_honest", 100) { plan.push(false); }
                for byz in plan {
                    tokio::time::sleep(ctx.delay("net.delay", 500)).await;
                    let offer = row_offer(ctx, &sq, &cid, i, byz);
                    if byz { ctx.fault(offer.family); }
                    let (s, bytes) = (store.clone(), offer.bytes.clone());
                    let res = tokio::spawn(async move { verif::shwap_hash(s, ROW_ID_MULTIHASH_CODE, &bytes).await }).await;
                    let Ok(res) = res else {
                        report_panic(ctx, "C05", offer.family);
                        continue;
                    };
                    ctx.ev_with("bitswap.hash", h, res.is_ok() as u64, || format!("row {i} {} -> {:?}", offer.family, res.as_ref().map(|_| "ok")));
                    ctx.oracle("C05.honest_encodings_accepted");
                    if offer.honest && res.is_err() {
                        ctx.violation("C05", "honest_encodings_accepted", offer.family,
                            format!("the {} encoding of row {i} of height {h} (width {w}) was rejected: {:?}", offer.family, res.as_ref().err()));
                    }
                    if res.as_ref().is_ok_and(|mh| *mh == wanted.hash().to_bytes()) {
                        if let Some(tx) = respond_to.take() {
                            let _ = tx.send(Ok(offer.bytes));
                        }
                        break;
                    }
                }
                drop(respond_to);
                // ---- the same row through the shrex response codec (encode -> decode_and_verify)
                {
                    let truth = sq.eds.row(i).expect("row");
                    if let Ok(honest_row) = Row::new(i, &sq.eds) {
                        let bytes = shrex::encode_row(&honest_row);
                        let (dah, id2) = (sq.dah.clone(), id);
                        let res = tokio::spawn(async move { shrex::decode_row(&bytes, &id2, &dah, AppVersion::V2) }).await;
                        ctx.oracle("C05.honest_encodings_accepted");
                        match res {
                            Ok(Ok(row)) if row.shares == truth => ctx.probe("row_delivered_over_shrex"),
                            Ok(Ok(row)) => ctx.violation("C05", "delivered_row_is_committed_row", "shrex",
                                format!("the shrex codec decoded row {i} of height {h} (width {w}) to {} shares that are not the committed row", row.shares.len())),
                            Ok(Err(e)) => ctx.violation("C05", "honest_encodings_accepted", "shrex_codec",
                                format!("the shrex encoding of row {i} of height {h} (width {w}) was rejected: {e}")),
                            Err(_) => report_panic(ctx, "C05", "shrex_decode_row"),
                        }
                    }
                }
                match task.await {
                    Ok(Ok(row)) => {
                        ctx.oracle("C05.delivered_row_is_committed_row");
                        let truth = sq.eds.row(i).expect("row");
                        if row.shares != truth {
                            let first = row.shares.iter().zip(&truth).position(|(a, b)| a != b);
                            ctx.violation("C05", "delivered_row_is_committed_row", "bitswap",
                                format!("get_row({i}, {h}) returned {} shares that are not row {i} of the committed square (width {w}); first difference at column {first:?}", row.shares.len()));
                        } else {
                            ctx.probe("row_delivered");
                        }
                    }
                    Ok(Err(_)) => ctx.probe("row_request_failed_or_timed_out"),
                    Err(_) => report_panic(ctx, "C05", "get_row"),
                }
            }
            // ------------------------------------------------------------ C06: one row's namespace data over bitswap
            1 => {
                let (ns, ns_kind) = pick_namespace(ctx, &sq);
                let r = ctx.choose("rnd.row", w as u32) as u16;
                let all_rows = sq.eds.get_namespace_data(ns, &sq.dah, h).unwrap_or_default();
                let honest = all_rows.iter().find(|(id, _)| id.row_index() == r).map(|(_, d)| d.clone());
                let id = RowNamespaceDataId::new(ns, r, h).expect("id");
                let cid = big_cid(CidGeneric::<39>::from(id));
                let p = p2p.clone();
                let task = tokio::spawn(async move { p.get_row_namespace_data(ns, r, h, Some(Duration::from_secs(30))).await });
                let Some(P2pCommand::GetShwapCid { cid: wanted, respond_to }) = mock.recv().await else { ctx.end_span(); break };
                let mut respond_to = Some(respond_to);
                let mut plan: Vec<bool> = Vec::new();
                while plan.len() < 3 && ctx.coin("rnd.byz_first", p_byz) { plan.push(true); }
                plan.push(false);
                for byz in plan {
                    tokio::time::sleep(ctx.delay("net.delay", 500)).await;
                    let (raw, family) = match (&honest, byz) {
                        (Some(honest_d), true) => mutate_rnd(ctx, &sq, &ns, r, honest_d, &all_rows),
                        (Some(honest_d), false) => (RawRnd::from(honest_d.clone()), "honest"),
                        (None, true) => match forged_rnd_for_uncovered_row(ctx, &sq, &ns, r) {
                            Some(x) => x,
                            None => break,
                        },
                        (None, false) => break,
                    };
                    if byz { ctx.fault(family); }
                    let bytes = rnd_block(&cid, &raw);
                    let (s, b2) = (store.clone(), bytes.clone());
                    let res = tokio::spawn(async move { verif::shwap_hash(s, ROW_NAMESPACE_DATA_ID_MULTIHASH_CODE, &b2).await }).await;
                    let Ok(res) = res else {
                        report_panic(ctx, "C06", family);
                        continue;
                    };
                    ctx.ev_with("bitswap.hash", h, res.is_ok() as u64, || format!("rnd row {r} ns {ns_kind} {family} -> {:?}", res.as_ref().map(|_| "ok")));
                    // C10 on the namespace-data path: a block for a row whose root range does not
                    // cover the namespace can not verify against the DAH, whatever it carries
                    if honest.is_none() {
                        ctx.oracle("C10.label");
                        if res.is_ok() {
                            ctx.violation("C10", "label", family,
                                format!("the multihasher accepted a {family} block for row {r} ({ns_kind} namespace) of height {h}, whose committed root range does not cover the namespace"));
                        }
                    }
                    ctx.oracle("C06.own_data_verifies");
                    if !byz && res.is_err() {
                        ctx.violation("C06", "own_data_verifies", ns_kind,
                            format!("the namespace data the square produces for row {r} ({ns_kind} namespace) of height {h} was rejected: {:?}", res.as_ref().err()));
                    }
                    if res.as_ref().is_ok_and(|mh| *mh == wanted.hash().to_bytes()) {
                        if let Some(tx) = respond_to.take() {
                            let _ = tx.send(Ok(bytes));
                        }
                        break;
                    }
                }
                drop(respond_to);
                match task.await {
                    Ok(Ok(data)) => {
                        ctx.oracle("C06.row_data_sound_and_complete");
                        let truth = scan_row(&sq, r, &ns);
                        let covers = row_covers(&sq, r, &ns);
                        if data.shares != truth || !covers || (truth.is_empty() && !data.proof.is_of_absence()) {
                            ctx.violation("C06", "row_data_sound_and_complete", ns_kind,
                                format!("get_row_namespace_data(row {r}, height {h}, {ns_kind} namespace) returned {} shares; the row holds {} shares of it (root range covers it: {covers}; absence proof: {})", data.shares.len(), truth.len(), data.proof.is_of_absence()));
                        } else {
                            ctx.probe(if truth.is_empty() { "row_absence_delivered" } else { "row_namespace_data_delivered" });
                        }
                    }
                    Ok(Err(_)) => ctx.probe("rnd_request_failed_or_timed_out"),
                    Err(_) => report_panic(ctx, "C06", "get_row_namespace_data"),
                }
            }
            // ------------------------------------------------------------ C06: whole-block namespace data over shrex
            _ => {
                let (ns, ns_kind) = pick_namespace(ctx, &sq);
                let id = NamespaceDataId::new(ns, h).expect("id");
                let Ok(rows) = sq.eds.get_namespace_data(ns, &sq.dah, h) else { ctx.end_span(); continue };
                // brute force: rows whose committed root range covers the namespace, in order
                let truth: Vec<(u16, Vec<Share>)> = (0..w).filter(|r| row_covers(&sq, *r, &ns)).map(|r| (r, scan_row(&sq, r, &ns))).collect();
                ctx.oracle("C06.own_data_equals_scan");
                let own: Vec<(u16, Vec<Share>)> = rows.iter().map(|(id, d)| (id.row_index(), d.shares.clone())).collect();
                if own != truth {
                    ctx.violation("C06", "own_data_equals_scan", ns_kind,
                        format!("get_namespace_data({ns_kind}) of height {h} covers rows {:?}, a scan of the square gives rows {:?}", own.iter().map(|x| (x.0, x.1.len())).collect::<Vec<_>>(), truth.iter().map(|x| (x.0, x.1.len())).collect::<Vec<_>>()));
                }
                let mut raws: Vec<RawRnd> = rows.iter().map(|(_, d)| RawRnd::from(d.clone())).collect();
                let mut family = "honest";
                if ctx.coin("nd.byz", p_byz) && !raws.is_empty() {
                    family = match ctx.choose("nd.family", 5) {
                        0 => { raws.remove(ctx.choose("nd.drop", raws.len() as u32) as usize); "row_dropped" }
                        1 => { let d = raws[0].clone(); raws.push(d); "row_added" }
                        2 if raws.len() >= 2 => { let n = raws.len(); raws.swap(0, n - 1); "rows_reordered" }
                        3 if raws.len() >= 2 => { let p = raws[1].proof.clone(); raws[0].proof = p; "proof_substituted" }
                        _ => {
                            let j = ctx.choose("nd.row", raws.len() as u32) as usize;
                            let (rid, honest_d) = &rows[j];
                            let (m, f) = mutate_rnd(ctx, &sq, &ns, rid.row_index(), honest_d, &rows);
                            raws[j] = m;
                            f
                        }
                    };
                    ctx.fault(family);
                }
                let mut buf = BytesMut::new();
                for r in &raws {
                    r.encode_length_delimited(&mut buf).expect("encode");
                }
                // the link may truncate the stream
                let mut bytes = buf.to_vec();
                let truncated = family == "honest" && !bytes.is_empty() && ctx.coin("nd.truncate", 150);
                if truncated {
                    let at = ctx.choose("nd.cut", bytes.len() as u32) as usize;
                    bytes.truncate(at);
                    ctx.fault("stream_truncated");
                }
                let dah = sq.dah.clone();
                let res = tokio::spawn(async move { shrex::decode_namespace_data(&bytes, &id, &dah, AppVersion::V2) }).await;
                let Ok(res) = res else {
                    report_panic(ctx, "C06", family);
                    ctx.end_span();
                    continue;
                };
                ctx.ev_with("shrex.nd", h, res.is_ok() as u64, || format!("{ns_kind} {family} truncated={truncated}"));
                match res {
                    Ok(data) => {
                        ctx.oracle("C06.block_data_sound_and_complete");
                        let got: Vec<Vec<Share>> = data.rows().iter().map(|r| r.shares.clone()).collect();
                        let want: Vec<Vec<Share>> = truth.iter().map(|x| x.1.clone()).collect();
                        let absence_ok = data.rows().iter().zip(&want).all(|(r, t)| !t.is_empty() || r.proof.is_of_absence());
                        if got != want || !absence_ok {
                            ctx.violation("C06", "block_data_sound_and_complete", if truncated { "stream_truncated" } else { family },
                                format!("namespace data ({ns_kind}, {family}, truncated={truncated}) for height {h} was accepted with rows {:?}; the square holds {:?}", got.iter().map(|r| r.len()).collect::<Vec<_>>(), want.iter().map(|r| r.len()).collect::<Vec<_>>()));
                        } else {
                            ctx.probe(if want.iter().all(|r| r.is_empty()) { "block_absence_accepted" } else { "block_namespace_data_accepted" });
                        }
                    }
                    Err(e) => {
                        ctx.oracle("C06.own_data_verifies");
                        if family == "honest" && !truncated {
                            ctx.violation("C06", "own_data_verifies", ns_kind,
                                format!("the namespace data the square produces ({ns_kind}) for height {h} was rejected: {e}"));
                        }
                    }
                }
            }
        }
        ctx.end_span();
    }
}

fn report_panic(ctx: &RunCtx, prop: &str, family: &str) {
    let p = ctx.panics.lock().unwrap().iter().rev().find(|p| !is_harness_location(&p.location)).cloned();
    let (loc, msg) = p.map(|p| (p.location, p.message)).unwrap_or_default();
    // a panic while verifying peer data is a C16 matter; it is recorded as a probe here and the
    // request simply stays unanswered
    ctx.note(&format!("panic_{prop}_{family}"), format!("{}: {msg}", short_location(&loc)));
    ctx.probe("decoder_panicked_on_byzantine_block");
}
