//! W-HDR: Byzantine header traffic against the node's header accept points.
//!
//! An honest multi-validator SimChain (1..8 validators, random powers, validator-set rotations,
//! validator outages = absent / nil votes, real squares behind the DAHs) is served by peers that
//! rewrite messages in flight, one mutation family per message. The node side is the real code at
//! its three accept points:
//!   (A) header-ex client validation: `decode_and_verify_responses` (decode_and_validate inside),
//!   (B) header-sub acceptance (mirror of `P2p::Worker::on_header_sub_message`:
//!       `ExtendedHeader::decode_and_validate` then `known_head.verify`),
//!   (C) range insertion: client validation of a response list, `VerifiedExtendedHeaders`
//!       construction (`verify_adjacent_range`) and `Store::insert` next to the stored head.
//! Every message carries a ground-truth label computed by construction and by independent integer
//! arithmetic on voting power. Faults also include node clock skew.
//!
//! Decides C01 (validation binds signatures, validator set, DAH), C02 (chain verification),
//! C03 (voting-power thresholds).

use std::collections::BTreeMap;
use std::sync::{Arc, Mutex};

use celestia_proto::p2p::pb::header_request::Data;
use celestia_proto::p2p::pb::{HeaderRequest, HeaderResponse, StatusCode};
use celestia_types::hash::Hash;
use celestia_types::{DataAvailabilityHeader, ExtendedHeader};
use lumina_node::store::{InMemoryStore, Store, VerifiedExtendedHeaders};
use lumina_node::verif::hx;
use tendermint::block::CommitSig;
use tendermint::chain;
use tendermint_proto::Protobuf;

use crate::kernel::ctx::{RunCtx, Tier, WALL_BASE_SECS, time_from_ns, time_to_ns};
use crate::kernel::rng::{Xoshiro, mix};
use crate::kernel::runner::{World, WorldFut};
use crate::seams::chain::{HeaderSpec, KeyedSet, ValKey, VoteKind, build_header, off_thread, rehash_and_resign, resign_entry, sign_commit};
use crate::seams::squares::{Square, SquareParams};

pub struct HdrWorld;

impl World for HdrWorld {
    fn name(&self) -> &'static str {
        "hdr.byz"
    }
    fn run<'a>(&'a self, ctx: &'a Arc<RunCtx>) -> WorldFut<'a> {
        Box::pin(run_hdr(ctx))
    }
}

const EPS_NS: i64 = 1_000_000_000;
const DRIFT_NS: i64 = 10_000_000_000;

// ------------------------------------------------------------------------------------ fixture

#[derive(Clone, Copy, Debug, PartialEq, Eq, PartialOrd, Ord)]
struct MvParams {
    class: u64,
    len: u64,
    max_vals: usize,
}

struct MvChain {
    chain_id: chain::Id,
    /// validator set of height h at index h-1 (index len = set after the last block)
    sets: Vec<KeyedSet>,
    headers: Vec<ExtendedHeader>,
    base_time_ns: i64,
    block_time_ms: u64,
}

impl MvChain {
    fn time_ns(&self, h: u64) -> i64 {
        self.base_time_ns + h as i64 * self.block_time_ms as i64 * 1_000_000
    }
    fn get(&self, h: u64) -> &ExtendedHeader {
        &self.headers[(h - 1) as usize]
    }
    fn set(&self, h: u64) -> &KeyedSet {
        &self.sets[(h - 1) as usize]
    }
    fn len(&self) -> u64 {
        self.headers.len() as u64
    }

    fn generate(p: MvParams) -> MvChain {
        let mut rng = Xoshiro::new(mix(&[0x3C01, p.class, p.len, p.max_vals as u64]));
        let chain_id: chain::Id = "private".try_into().unwrap();
        let block_time_ms = 6000;
        // chain head 60 s in the past
        let base_time_ns = WALL_BASE_SECS * 1_000_000_000 - 60_000_000_000 - p.len as i64 * block_time_ms as i64 * 1_000_000;
        // validator sets with rotations: keep most members, change some
        let mut sets: Vec<KeyedSet> = Vec::new();
        let n0 = 1 + rng.below(p.max_vals as u64) as usize;
        let max_power = *[1u64, 10, 1000, 1 << 40].get(rng.below(4) as usize).unwrap();
        let mut cur = KeyedSet::generate(&mut rng, n0, max_power);
        for _ in 0..=p.len {
            sets.push(cur.clone());
            if rng.below(4) == 0 {
                // rotate: replace / add / remove one validator, or change a power
                let mut next = cur.clone();
                match rng.below(4) {
                    0 if next.keys.len() < p.max_vals => {
                        next.keys.push(ValKey::generate(&mut rng));
                        next.powers.push(1 + rng.below(max_power));
                    }
                    1 if next.keys.len() > 1 => {
                        let i = rng.below(next.keys.len() as u64) as usize;
                        next.keys.remove(i);
                        next.powers.remove(i);
                    }
                    2 => {
                        let i = rng.below(next.keys.len() as u64) as usize;
                        next.keys[i] = ValKey::generate(&mut rng);
                    }
                    _ => {
                        let i = rng.below(next.keys.len() as u64) as usize;
                        next.powers[i] = 1 + rng.below(max_power);
                    }
                }
                cur = next;
            }
        }
        let mut c = MvChain { chain_id, sets, headers: Vec::new(), base_time_ns, block_time_ms };
        for h in 1..=p.len {
            let sq = Square::generate(SquareParams { class: rng.below(2), ods_width: 1 << rng.below(3), namespaces: 1 + rng.below(3) as u16 });
            let set = c.sets[(h - 1) as usize].clone();
            let next = c.sets[h as usize].clone();
            // honest outages that keep more than 2/3 committed
            let order = set.order();
            let total: u128 = set.total_power();
            let mut votes = vec![VoteKind::Commit; order.len()];
            let mut committed = total;
            for (pos, ki) in order.iter().enumerate() {
                if rng.below(4) == 0 {
                    let p = set.powers[*ki] as u128;
                    if 3 * (committed - p) > 2 * total {
                        committed -= p;
                        votes[pos] = if rng.below(2) == 0 { VoteKind::Absent } else { VoteKind::Nil };
                    }
                }
            }
            let app_version = 1 + rng.below(7);
            let hdr = {
                let prev = c.headers.last();
                build_header(&mut rng, HeaderSpec {
                    chain_id: &c.chain_id,
                    height: h,
                    time: time_from_ns(c.time_ns(h)),
                    prev,
                    set: &set,
                    next_set: &next,
                    dah: sq.dah.clone(),
                    app_version,
                    votes: Some(votes),
                })
            };
            c.headers.push(hdr);
        }
        c
    }

    fn cached(p: MvParams) -> Arc<MvChain> {
        static CACHE: Mutex<BTreeMap<MvParams, Arc<MvChain>>> = Mutex::new(BTreeMap::new());
        if let Some(c) = CACHE.lock().unwrap().get(&p) {
            return c.clone();
        }
        let c = off_thread(move || Arc::new(MvChain::generate(p)));
        let mut g = CACHE.lock().unwrap();
        if g.len() > 128 {
            g.clear();
        }
        g.entry(p).or_insert(c).clone()
    }
}

// ------------------------------------------------------------------------------------ labels

#[derive(Clone, Copy, Debug, PartialEq, Eq)]
enum Label {
    MustAccept,
    MustReject,
    Either,
}

/// Independent tally: power of distinct validators of `set` (sorted tendermint set) that have a
/// block-commit entry in `h.commit` carrying a signature that verifies under *their own* key for
/// entry index `i`; by index (light) or by address (trusting).
fn committed_power_by_index(h: &ExtendedHeader) -> (u128, u128) {
    use celestia_types::block::CommitExt;
    let vals = h.validator_set.validators();
    let mut signed: u128 = 0;
    let mut total: u128 = 0;
    for v in vals {
        total += v.power() as u128;
    }
    for (i, (v, sig)) in vals.iter().zip(h.commit.signatures.iter()).enumerate() {
        if let CommitSig::BlockIdFlagCommit { signature: Some(s), .. } = sig {
            if let Ok(bytes) = h.commit.vote_sign_bytes(&h.header.chain_id, i) {
                if ed25519_ok(&v.pub_key, &bytes, s.as_bytes()) {
                    signed += v.power() as u128;
                }
            }
        }
    }
    (signed, total)
}

fn trusted_power_by_address(trusted: &ExtendedHeader, untrusted: &ExtendedHeader) -> (u128, u128) {
    use celestia_types::block::CommitExt;
    let tvals = trusted.validator_set.validators();
    let total: u128 = tvals.iter().map(|v| v.power() as u128).sum();
    let mut seen = std::collections::BTreeSet::new();
    let mut signed: u128 = 0;
    for (i, sig) in untrusted.commit.signatures.iter().enumerate() {
        if let CommitSig::BlockIdFlagCommit { validator_address, signature: Some(s), .. } = sig {
            if let Some((vi, v)) = tvals.iter().enumerate().find(|(_, v)| v.address == *validator_address) {
                if let Ok(bytes) = untrusted.commit.vote_sign_bytes(&trusted.header.chain_id, i) {
                    if ed25519_ok(&v.pub_key, &bytes, s.as_bytes()) && seen.insert(vi) {
                        signed += v.power() as u128;
                    }
                }
            }
        }
    }
    (signed, total)
}

fn ed25519_ok(pk: &tendermint::PublicKey, msg: &[u8], sig: &[u8]) -> bool {
    let Some(raw) = pk.ed25519() else { return false };
    let Ok(vk) = ed25519_consensus::VerificationKey::try_from(raw.as_bytes()) else { return false };
    let Ok(sig): Result<[u8; 64], _> = sig.try_into() else { return false };
    vk.verify(&ed25519_consensus::Signature::from(sig), msg).is_ok()
}

/// Last commit position examined by light verification of an honest header (the position at
/// which the running tally first exceeds 2/3), or None if never.
fn quorum_prefix_end(h: &ExtendedHeader) -> Option<usize> {
    let vals = h.validator_set.validators();
    let total: u128 = vals.iter().map(|v| v.power() as u128).sum();
    let mut tally: u128 = 0;
    for (i, (v, sig)) in vals.iter().zip(h.commit.signatures.iter()).enumerate() {
        if matches!(sig, CommitSig::BlockIdFlagCommit { .. }) {
            tally += v.power() as u128;
            if 3 * tally > 2 * total {
                return Some(i);
            }
        }
    }
    None
}

// ------------------------------------------------------------------------------------ mutations

struct Mutant {
    header: ExtendedHeader,
    family: &'static str,
    /// label for `validate`
    validate: Label,
    /// label for `trusted.verify(header)` given validate passed, None = computed by caller
    verify: Option<Label>,
}

fn flip_hash(h: &Hash) -> Hash {
    match h {
        Hash::Sha256(b) => {
            let mut b = *b;
            b[7] ^= 0x20;
            Hash::Sha256(b)
        }
        Hash::None => Hash::Sha256([3u8; 32]),
    }
}

/// Apply one mutation family to an honest header.
fn mutate(ctx: &RunCtx, chain: &MvChain, honest: &ExtendedHeader, byz: &KeyedSet, frng: &mut Xoshiro) -> Mutant {
    let mut h = honest.clone();
    let height = honest.height();
    let set = chain.set(height);
    let fam = ctx.choose("mut.family", 19);
    let rej = |header: ExtendedHeader, family: &'static str| Mutant { header, family, validate: Label::MustReject, verify: Some(Label::MustReject) };
    // a hashed header field change (several fields)
    fn change_field(ctx: &RunCtx, h: &mut ExtendedHeader) {
        match ctx.choose("mut.field", 9) {
            0 => h.header.app_hash = vec![0xAB; 32].try_into().unwrap(),
            1 => h.header.consensus_hash = flip_hash(&h.header.consensus_hash),
            2 => h.header.time = (h.header.time + std::time::Duration::from_nanos(1)).unwrap(),
            3 => h.header.last_results_hash = Some(flip_hash(&h.header.last_results_hash.unwrap_or(Hash::None))),
            4 => h.header.evidence_hash = Some(flip_hash(&h.header.evidence_hash.unwrap_or(Hash::None))),
            5 => h.header.last_commit_hash = Some(flip_hash(&h.header.last_commit_hash.unwrap_or(Hash::None))),
            6 => h.header.next_validators_hash = flip_hash(&h.header.next_validators_hash),
            7 => h.header.proposer_address = tendermint::account::Id::new([9u8; 20]),
            _ => h.header.version.app = if h.header.version.app == 1 { 2 } else { 1 },
        }
    }
    match fam {
        0 | 1 => {
            change_field(ctx, &mut h);
            if fam == 1 {
                // block hash recomputed, signatures now stale
                h.commit.block_id.hash = h.header.hash();
                rej(h, "field_changed_rehashed_stale_signatures")
            } else {
                rej(h, "field_changed")
            }
        }
        2 => {
            // rehash and re-sign with attacker keys while keeping the honest validator set
            change_field(ctx, &mut h);
            h.commit.block_id.hash = h.header.hash();
            for pos in 0..h.commit.signatures.len() {
                let k = &byz.keys[pos % byz.keys.len()];
                resign_entry(&mut h, pos, &k.sk);
            }
            rej(h, "field_changed_resigned_by_attacker")
        }
        3 => {
            // a self-consistent fork: attacker validator set, attacker signatures
            change_field(ctx, &mut h);
            h.validator_set = byz.to_set();
            h.header.validators_hash = h.validator_set.hash();
            h.header.proposer_address = h.validator_set.validators()[0].address;
            h.commit.block_id.hash = h.header.hash();
            let order = byz.order();
            sign_commit(&mut h, byz, &order, &vec![VoteKind::Commit; order.len()]);
            Mutant { header: h, family: "self_consistent_fork", validate: Label::Either, verify: Some(Label::MustReject) }
        }
        4 | 5 => {
            // DAH row / column root altered
            let (mut rows, mut cols) = (h.dah.row_roots().to_vec(), h.dah.column_roots().to_vec());
            let on_rows = ctx.coin("mut.dah_rows", 500);
            let v = if on_rows { &mut rows } else { &mut cols };
            let i = ctx.choose("mut.dah_idx", v.len() as u32) as usize;
            let j = (i + 1) % v.len();
            if v[i] == v[j] {
                // identical roots: swap would be a no-op, overwrite with another square's root
                let other = Square::cached(SquareParams { class: 5, ods_width: 1, namespaces: 1 });
                v[i] = other.dah.row_roots()[0].clone();
            } else {
                v.swap(i, j);
            }
            h.dah = DataAvailabilityHeader::new_unchecked(rows, cols);
            if fam == 5 {
                h.header.data_hash = Some(h.dah.hash());
                h.commit.block_id.hash = h.header.hash();
                rej(h, "dah_root_changed_data_hash_recomputed")
            } else {
                rej(h, "dah_root_changed")
            }
        }
        6 => {
            h.header.data_hash = Some(flip_hash(&h.header.data_hash.unwrap_or(Hash::None)));
            rej(h, "data_hash_changed")
        }
        7 | 8 => {
            // validator key or power altered
            let mut ks = set.clone();
            let i = ctx.choose("mut.val_idx", ks.keys.len() as u32) as usize;
            if ctx.coin("mut.val_power", 500) {
                ks.powers[i] += 1;
            } else {
                ks.keys[i] = ValKey::generate(frng);
            }
            h.validator_set = ks.to_set();
            if fam == 8 {
                h.header.validators_hash = h.validator_set.hash();
                h.commit.block_id.hash = h.header.hash();
                rej(h, "validator_changed_hash_recomputed")
            } else {
                rej(h, "validator_changed")
            }
        }
        9 => {
            h.commit.block_id.hash = flip_hash(&h.commit.block_id.hash);
            rej(h, "commit_block_hash_changed")
        }
        10 => {
            h.commit.block_id.part_set_header = tendermint::block::parts::Header::new(2, Hash::Sha256([5u8; 32])).unwrap();
            rej(h, "commit_part_set_header_changed")
        }
        11 => {
            h.commit.height = (height + 1).try_into().unwrap();
            rej(h, "commit_height_changed")
        }
        12 => {
            h.commit.round = 1u16.into();
            rej(h, "commit_round_changed")
        }
        13 | 14 | 15 => {
            // one commit entry altered: signature, timestamp or validator address
            let n = h.commit.signatures.len();
            let i = ctx.choose("mut.sig_idx", n as u32) as usize;
            let end = quorum_prefix_end(honest);
            let examined = matches!(h.commit.signatures[i], CommitSig::BlockIdFlagCommit { .. }) && end.is_some_and(|e| i <= e);
            let other_addr = h.validator_set.validators()[(i + 1) % n].address;
            let mut changed = false;
            if let CommitSig::BlockIdFlagCommit { validator_address, timestamp, signature } = &mut h.commit.signatures[i] {
                match fam {
                    13 => {
                        if let Some(s) = signature {
                            let mut b: [u8; 64] = s.as_bytes().try_into().unwrap();
                            b[ctx.choose("mut.sig_byte", 64) as usize] ^= 0x01;
                            *signature = tendermint::Signature::new(b).unwrap();
                            changed = true;
                        }
                    }
                    14 => {
                        *timestamp = (*timestamp + std::time::Duration::from_nanos(1)).unwrap();
                        changed = true;
                    }
                    _ => {
                        let new = if n > 1 && ctx.coin("mut.addr_other_validator", 500) { other_addr } else { tendermint::account::Id::new([0x77; 20]) };
                        if *validator_address != new {
                            *validator_address = new;
                            changed = true;
                        }
                    }
                }
            }
            let family = match fam { 13 => "commit_signature_changed", 14 => "commit_timestamp_changed", _ => "commit_validator_address_changed" };
            let validate = if changed && examined { Label::MustReject } else { Label::Either };
            // a non-examined / unchanged entry leaves an honest header: verification label as honest
            Mutant { header: h, family, validate, verify: if validate == Label::MustReject { Some(Label::MustReject) } else { None } }
        }
        16 => {
            // C03: validator outage pattern chosen around the 2/3 boundary, all signatures valid
            let order = set.order();
            let total = set.total_power();
            let mut votes = vec![VoteKind::Commit; order.len()];
            // drop validators (absent or nil) at random
            for v in votes.iter_mut() {
                match ctx.choose("mut.vote", 4) {
                    0 | 1 => {}
                    2 => *v = VoteKind::Absent,
                    _ => *v = VoteKind::Nil,
                }
            }
            sign_commit(&mut h, set, &order, &votes);
            let signed: u128 = order.iter().zip(&votes).filter(|(_, v)| **v == VoteKind::Commit).map(|(ki, _)| set.powers[*ki] as u128).sum();
            let ok = 3 * signed > 2 * total;
            if 3 * signed == 2 * total { ctx.probe("exactly_two_thirds_signed"); }
            if ok && 3 * (signed.saturating_sub(1)) <= 2 * total { ctx.probe("just_above_two_thirds_signed"); }
            Mutant { header: h, family: "validator_outage", validate: if ok { Label::MustAccept } else { Label::MustReject }, verify: if ok { None } else { Some(Label::MustReject) } }
        }
        17 => {
            // forged signatures for some validators (attacker key), others honest
            let order = set.order();
            let total = set.total_power();
            let mut honest_power: u128 = 0;
            let mut first_forged: Option<usize> = None;
            for (pos, ki) in order.iter().enumerate() {
                if !matches!(h.commit.signatures[pos], CommitSig::BlockIdFlagCommit { .. }) {
                    continue;
                }
                if ctx.coin("mut.forge_sig", 350) {
                    resign_entry(&mut h, pos, &byz.keys[0].sk);
                    first_forged.get_or_insert(pos);
                } else {
                    honest_power += set.powers[*ki] as u128;
                }
            }
            let enough = 3 * honest_power > 2 * total;
            // light verification bails at the first invalid signature it examines: accepted only
            // if quorum is reached before the first forged entry
            let validate = if !enough { Label::MustReject } else { Label::Either };
            Mutant { header: h, family: "forged_signatures", validate, verify: if enough { None } else { Some(Label::MustReject) } }
        }
        _ => {
            // commit lists one validator twice (entry j copied from entry i)
            let n = h.commit.signatures.len();
            if n >= 2 {
                let i = ctx.choose("mut.dup_src", n as u32) as usize;
                let j = (i + 1 + ctx.choose("mut.dup_dst", (n - 1) as u32) as usize) % n;
                h.commit.signatures[j] = h.commit.signatures[i].clone();
            }
            // label by the independent tally (an entry copied to another index does not verify
            // under that index's key, so it must not add power)
            let (signed, total) = committed_power_by_index(&h);
            let validate = if 3 * signed > 2 * total { Label::Either } else { Label::MustReject };
            Mutant { header: h, family: "duplicated_commit_entry", validate, verify: if validate == Label::MustReject { Some(Label::MustReject) } else { None } }
        }
    }
}

/// Headers signed with the *honest* keys that break exactly one rule of chain verification
/// (equivocating validators / replays): the verify rule must hold regardless of who signs.
fn honest_key_variant(ctx: &RunCtx, chain: &MvChain, trusted: &ExtendedHeader, target: u64, frng: &mut Xoshiro) -> (ExtendedHeader, &'static str) {
    let honest = chain.get(target);
    let set = chain.set(target);
    let mut h = honest.clone();
    let kind = ctx.choose("hk.kind", 6);
    let name = match kind {
        5 => {
            // a fork signed by ONE validator of the trusted set, listed several times both in
            // the fork's own validator set and in its commit (the canonical vote bytes do not
            // cover the validator index, so one signature fits every slot): self-consistent, but
            // behind it stands only that validator's share of the trusted power
            let tset = chain.set(trusted.height());
            let who = ctx.choose("hk.minority_who", tset.keys.len() as u32) as usize;
            let copies = 2 + ctx.choose("hk.minority_copies", 3) as usize;
            let dup = KeyedSet { keys: vec![tset.keys[who].clone(); copies], powers: vec![tset.powers[who]; copies] };
            let forged = build_header(frng, HeaderSpec {
                chain_id: &honest.header.chain_id,
                height: target,
                time: honest.time(),
                prev: None,
                set: &dup,
                next_set: &dup,
                dah: honest.dah.clone(),
                app_version: honest.header.version.app,
                votes: None,
            });
            return (forged, "fork_signed_by_one_trusted_validator_repeated");
        }
        0 => {
            // replay of an older or equal height
            let older = ctx.range("hk.older", 1, trusted.height());
            return (chain.get(older).clone(), "replayed_old_height");
        }
        1 => {
            h.header.chain_id = "other-chain".try_into().unwrap();
            "foreign_chain_id"
        }
        2 => {
            // time not after the trusted header's time
            let back = ctx.range("hk.back_ns", 0, 3_000_000_000) as i64;
            h.header.time = time_from_ns(time_to_ns(trusted.time()) - back);
            "time_not_after_trusted"
        }
        3 => {
            // wrong parent (only meaningful when adjacent; still a different block otherwise)
            let mut b = [0u8; 32];
            frng.fill(&mut b);
            h.header.last_block_id = Some(tendermint::block::Id { hash: Hash::Sha256(b), part_set_header: tendermint::block::parts::Header::new(1, Hash::Sha256(b)).unwrap() });
            "wrong_parent_hash"
        }
        _ => {
            // far in the future
            h.header.time = time_from_ns(ctx.wall_now_ns() + DRIFT_NS + EPS_NS + ctx.range("hk.future_ns", 0, 60_000_000_000) as i64);
            "time_from_the_future"
        }
    };
    // re-hash and re-sign everything with the honest keys: the header validates
    rehash_and_resign(&mut h, set);
    (h, name)
}

fn to_resp(h: &ExtendedHeader) -> HeaderResponse {
    HeaderResponse { body: h.clone().encode_vec(), status_code: StatusCode::Ok.into() }
}

// ------------------------------------------------------------------------------------ the run

async fn run_hdr(ctx: &Arc<RunCtx>) {
    let thorough = ctx.tier == Tier::Thorough;
    let chain = MvChain::cached(MvParams {
        class: ctx.range("cfg.class", 0, if thorough { 23 } else { 7 }),
        len: 24,
        max_vals: *ctx.pick("cfg.max_vals", &[4usize, 1, 2, 3, 8]),
    });
    let mut frng = ctx.fixture_rng(3);
    let byz = KeyedSet::generate(&mut frng, 1 + ctx.choose("cfg.byz_vals", 3) as usize, 1000);
    // clock skew fault: the node's wall clock may be behind chain time
    let mut k = ctx.range("cfg.trusted", 2, chain.len() - 6);
    if ctx.coin("cfg.clock_behind", 250) {
        // set the node clock somewhere around the time of the blocks that will be offered
        let target_ns = chain.time_ns(k + ctx.range("cfg.skew_block", 1, 5)) - DRIFT_NS + (ctx.range("cfg.skew_ms", 0, 8000) as i64 - 4000) * 1_000_000;
        ctx.jump_wall_clock(target_ns - ctx.wall_now_ns());
    }
    let store = InMemoryStore::new();
    let init: Vec<ExtendedHeader> = (1..=k).map(|h| chain.get(h).clone()).collect();
    let _ = store.insert(unsafe { VerifiedExtendedHeaders::new_unchecked(init) }).await;
    let mut known_head = chain.get(k).clone();
    let n_msgs = ctx.range("cfg.messages", 1, if thorough { 60 } else { 25 });

    for m in 0..n_msgs {
        if !ctx.findings.lock().unwrap().is_empty() || k + 5 >= chain.len() {
            break;
        }
        ctx.begin_span("msg");
        let now = ctx.wall_now_ns();
        let adjacent = ctx.coin("msg.adjacent", 600);
        let target = if adjacent { k + 1 } else { k + ctx.range("msg.distance", 2, 4) };
        let path = ctx.choose("msg.path", 3);
        let honest = chain.get(target).clone();
        // what the Byzantine link makes of it
        let (hdr, family, vlabel, verify_override): (ExtendedHeader, &'static str, Label, Option<Label>) = match ctx.weighted("msg.kind", &[2, 6, 3]) {
            0 => (honest.clone(), "honest", Label::MustAccept, None),
            1 => {
                let mu = mutate(ctx, &chain, &honest, &byz, &mut frng);
                (mu.header, mu.family, mu.validate, mu.verify)
            }
            _ => {
                let (h, name) = honest_key_variant(ctx, &chain, &known_head, target, &mut frng);
                // a non-adjacent header cannot be checked against its parent: only the adjacent
                // case of a wrong parent hash is promised to fail
                let v = if name == "wrong_parent_hash" && !adjacent { Label::Either } else { Label::MustReject };
                // the repeated-validator fork, non-adjacent: labelled by the distinct trusted
                // power behind it (computed below)
                let v = if name == "fork_signed_by_one_trusted_validator_repeated" && !adjacent { None } else { Some(v) };
                (h, name, Label::Either, v)
            }
        };
        if family != "honest" {
            ctx.fault(family);
        }
        ctx.ev_with("msg", m, target, || format!("{family} path={path} adjacent={adjacent} trusted={k}"));
        let is_honest_block = hdr.hash() == honest.hash() && hdr.header == honest.header;

        // ---- verification label for (known_head, hdr), assuming it validates
        let verify_label = verify_override.unwrap_or_else(|| {
            let t = time_to_ns(hdr.time());
            if t >= now + DRIFT_NS + EPS_NS {
                ctx.probe("honest_header_from_the_future");
                return Label::MustReject;
            }
            if t > now + DRIFT_NS - EPS_NS {
                return Label::Either;
            }
            if hdr.height() == known_head.height() + 1 {
                Label::MustAccept
            } else {
                let (signed, total) = trusted_power_by_address(&known_head, &hdr);
                if 3 * signed == total { ctx.probe("exactly_one_third_trusted_power"); }
                let sig_tampered = matches!(family, "commit_signature_changed" | "commit_timestamp_changed" | "commit_validator_address_changed" | "forged_signatures" | "duplicated_commit_entry");
                if 3 * signed > total {
                    // completeness is only promised when every block-commit signature is valid
                    // (trusting verification fails on the first invalid signature it meets)
                    if sig_tampered { Label::Either } else { Label::MustAccept }
                } else {
                    ctx.probe("non_adjacent_below_one_third");
                    Label::MustReject
                }
            }
        });

        // ---- (A) client validation
        let bytes = to_resp(&hdr);
        let req = HeaderRequest { data: Some(Data::Origin(hdr.height())), amount: 1 };
        let validated = {
            let r = req.clone();
            let b = vec![bytes.clone()];
            tokio::spawn(async move { hx::decode_and_verify_responses(&r, &b).await }).await
        };
        let Ok(validated) = validated else {
            ctx.violation("C01", "no_panic", family, format!("header validation panicked on a {family} header"));
            ctx.end_span();
            break;
        };
        let validate_ok = validated.is_ok();
        let is_c03 = matches!(family, "validator_outage" | "forged_signatures" | "duplicated_commit_entry");
        let (prop, clause) = if is_c03 { ("C03", "two_thirds") } else { ("C01", "validate") };
        ctx.oracle(if is_c03 { "C03.two_thirds" } else { "C01.validate" });
        match (vlabel, validate_ok) {
            (Label::MustReject, true) => ctx.violation(prop, clause, family,
                format!("a {family} header at height {} passed validation (validators {}, commit entries {})", hdr.height(), hdr.validator_set.validators().len(), hdr.commit.signatures.len())),
            (Label::MustAccept, false) => ctx.violation(prop, clause, if family == "honest" { "honest_rejected" } else { family },
                format!("a {family} header at height {} that must validate was rejected: {:?}", hdr.height(), validated.as_ref().err())),
            _ => {}
        }
        if validate_ok {
            // C03 soundness, independent of labels: whatever validates has > 2/3 of distinct
            // validators with valid signatures
            ctx.oracle("C03.accepted_implies_quorum");
            let (signed, total) = committed_power_by_index(&hdr);
            if 3 * signed <= 2 * total {
                ctx.violation("C03", "accepted_implies_quorum", family,
                    format!("a header validated with only {signed} of {total} voting power behind valid signatures"));
            }
        }

        // ---- (B) header-sub acceptance, (C) range insertion
        // C02 is judged only on messages a correct node would hand to verification: a header that
        // must fail validation but passed is C01's finding, not C02's
        if validate_ok && path >= 1 && vlabel != Label::MustReject {
            let hdr2 = hdr.clone();
            let kh = known_head.clone();
            let verified = tokio::spawn(async move { kh.verify(&hdr2) }).await;
            let Ok(verified) = verified else {
                ctx.violation("C02", "no_panic", family, format!("ExtendedHeader::verify panicked on a {family} header"));
                ctx.end_span();
                break;
            };
            let is_c03v = !adjacent && matches!(family, "honest");
            ctx.oracle(if is_c03v { "C03.one_third" } else { "C02.verify" });
            let (prop, clause) = if is_c03v { ("C03", "one_third") } else { ("C02", "verify") };
            match (verify_label, verified.is_ok()) {
                (Label::MustReject, true) => ctx.violation(prop, clause, family,
                    format!("trusted height {} accepted a {family} header at height {} (adjacent={adjacent})", known_head.height(), hdr.height())),
                (Label::MustAccept, false) => ctx.violation(prop, clause, if family == "honest" { "honest_rejected" } else { family },
                    format!("trusted height {} rejected a {family} header at height {} that must verify: {:?}", known_head.height(), hdr.height(), verified.as_ref().err())),
                _ => {}
            }
            if verified.is_ok() && !adjacent {
                // C03 soundness for the trusting path
                ctx.oracle("C03.accepted_implies_one_third");
                let (signed, total) = trusted_power_by_address(&known_head, &hdr);
                if 3 * signed <= total {
                    ctx.violation("C03", "accepted_implies_one_third", family,
                        format!("non-adjacent header accepted with only {signed} of {total} trusted voting power"));
                }
            }
            if verified.is_ok() && is_honest_block {
                ctx.probe("honest_header_accepted_by_verify");
            }
        }
        if path == 2 && adjacent {
            // (C) a batch k+1..k+n in which position j is the (possibly mutated) header
            let n = ctx.range("batch.len", 1, 4);
            let j = ctx.range("batch.pos", 0, n - 1);
            let mut batch: Vec<ExtendedHeader> = (0..n).map(|i| chain.get(k + 1 + i).clone()).collect();
            // the mutant sits at its own height's slot when that is inside the batch
            let slot = (hdr.height() as i64 - (k as i64 + 1)) as i64;
            let mut all_honest;
            if slot >= 0 && (slot as u64) < n {
                batch[slot as usize] = hdr.clone();
                all_honest = is_honest_block;
            } else {
                batch[j as usize] = hdr.clone();
                all_honest = false;
            }
            // structural faults on the list
            let structural = ctx.choose("batch.structural", 5);
            match structural {
                1 if n >= 2 => { batch.swap(0, (n - 1) as usize); }
                2 if n >= 2 => { let d = batch[0].clone(); batch[1] = d; all_honest = false; }
                3 if n >= 3 => { batch.remove(1); all_honest = false; }
                _ => {}
            }
            let resps: Vec<HeaderResponse> = batch.iter().map(to_resp).collect();
            let req = HeaderRequest { data: Some(Data::Origin(k + 1)), amount: n };
            let r = tokio::spawn(async move { hx::decode_and_verify_responses(&req, &resps).await }).await;
            if let Ok(Ok(list)) = r {
                let listed_honest = list.iter().all(|x| x.height() <= chain.len() && x.hash() == chain.get(x.height()).hash() && x.header == chain.get(x.height()).header);
                let future = list.iter().any(|x| time_to_ns(x.time()) > now + DRIFT_NS - EPS_NS);
                let res = match VerifiedExtendedHeaders::try_from(list.clone()) {
                    Ok(v) => store.insert(v).await.map_err(|e| e.to_string()),
                    Err(e) => Err(e.to_string()),
                };
                ctx.oracle("C02.range_insert");
                if res.is_ok() && !listed_honest {
                    ctx.violation("C02", "range_insert", family,
                        format!("the store accepted a batch above trusted height {k} containing a {family} header (structural fault {structural})"));
                } else if res.is_err() && listed_honest && all_honest && !future && list.first().is_some_and(|x| x.height() == k + 1) {
                    ctx.violation("C02", "range_insert", "honest_rejected",
                        format!("an honest batch {}..={} above trusted height {k} was rejected: {:?}", k + 1, k + list.len() as u64, res.as_ref().err()));
                }
                if res.is_ok() {
                    k += list.len() as u64;
                    if known_head.height() < k {
                        known_head = chain.get(k).clone();
                    }
                    ctx.probe("store_advanced_by_batch");
                }
            }
        }
        ctx.end_span();
    }
}
