//! Command-line driver: checks, replay, determinism self-test, evidence.

use std::collections::{BTreeMap, BTreeSet};
use std::path::{Path, PathBuf};
use std::sync::Arc;
use std::time::{Duration, Instant};

use serde::Deserialize;
use serde_json::json;

use crate::kernel::ctx::Tier;
use crate::kernel::runner::{
    self, BatchCfg, BatchReport, Outcome, ReplayFile, World, outcome_matches, replay_file,
    run_once, run_seed, shrink,
};
use crate::registry::{self, CheckSpec};

const VERIF_DIR: &str = "/verif";

fn verif_dir() -> PathBuf {
    std::env::var_os("VERIF_DIR")
        .map(PathBuf::from)
        .unwrap_or_else(|| PathBuf::from(VERIF_DIR))
}

fn env_u64(name: &str) -> Option<u64> {
    std::env::var(name).ok().and_then(|v| v.trim().parse().ok())
}

/// Force every process-wide lazily initialised static of the code under test and its
/// dependencies on this (non-simulation) thread, before any run starts: whichever simulation
/// thread touched them first would otherwise execute their initialisers (which build hash maps,
/// i.e. advance that thread's `RandomState` counter) and diverge from its replay.
fn warm_process_statics() {
    lumina_node::verif::warm_statics();
    // leopard tables, nmt-rs, ed25519 tables, protobuf codecs
    let sq = crate::seams::squares::Square::generate(crate::seams::squares::SquareParams {
        class: 0,
        ods_width: 2,
        namespaces: 2,
    });
    let _ = celestia_types::sample::Sample::new(0, 1, celestia_types::AxisType::Row, &sq.eds);
    let c = crate::seams::chain::Chain::generate(crate::seams::chain::ChainParams {
        class: 0,
        len: 2,
        validators: 2,
        block_time_ms: 1000,
        head_offset_ms: -10_000,
    });
    let _ = c.get(1).validate();
    let _ = c.get(1).verify(c.get(2));
    let _ = crate::seams::chain::empty_dah();
}

pub fn main(args: &[String]) -> i32 {
    warm_process_statics();
    match args.first().map(|s| s.as_str()) {
        Some("check") => {
            let Some(id) = args.get(1) else {
                eprintln!("usage: verif check <ID> <quick|thorough>");
                return 2;
            };
            let tier = match args.get(2).map(|s| s.as_str()) {
                Some("thorough") => Tier::Thorough,
                Some("quick") | None => match std::env::var("VERIF_TIER").as_deref() {
                    Ok("thorough") => Tier::Thorough,
                    _ => Tier::Quick,
                },
                Some(other) => {
                    eprintln!("unknown tier {other}");
                    return 2;
                }
            };
            check(id, tier)
        }
        Some("replay") => {
            let Some(path) = args.get(1) else {
                eprintln!("usage: verif replay <file>");
                return 2;
            };
            replay(Path::new(path), !args.iter().any(|a| a == "--quiet"))
        }
        Some("selftest") => selftest(args.get(2).map(|s| s.as_str())),
        Some("run") => {
            let (Some(world), Some(seed)) = (args.get(1), args.get(2)) else {
                eprintln!("usage: verif run <world> <seed> [quick|thorough]");
                return 2;
            };
            let tier = if args.get(3).map(|s| s.as_str()) == Some("thorough") {
                Tier::Thorough
            } else {
                Tier::Quick
            };
            let Some(w) = registry::world_by_name(world) else {
                eprintln!("unknown world {world}");
                return 2;
            };
            let out = run_once(&w, seed.parse().unwrap_or(1), tier, None, true);
            for l in &out.lines {
                println!("{l}");
            }
            println!(
                "{}",
                serde_json::to_string_pretty(&out).unwrap_or_default()
            );
            if out.harness_error.is_some() { 2 } else { 0 }
        }
        Some("hashes") => {
            // verif hashes <world> <base_seed> <n> <workers> : print "<i> <hash>" lines
            let world = args.get(1).cloned().unwrap_or_default();
            let base: u64 = args.get(2).and_then(|s| s.parse().ok()).unwrap_or(1);
            let n: u64 = args.get(3).and_then(|s| s.parse().ok()).unwrap_or(50);
            let workers: usize = args.get(4).and_then(|s| s.parse().ok()).unwrap_or(1);
            let tier = if args.get(5).map(|s| s.as_str()) == Some("thorough") {
                Tier::Thorough
            } else {
                Tier::Quick
            };
            let Some(w) = registry::world_by_name(&world) else {
                eprintln!("unknown world {world}");
                return 2;
            };
            let hashes = hashes(&w, base, n, workers, tier);
            for (i, h) in hashes.iter().enumerate() {
                println!("{i} {h:016x}");
            }
            0
        }
        Some("manifest") => {
            let m = manifest();
            let path = verif_dir().join("MANIFEST.json");
            match std::fs::write(&path, serde_json::to_vec_pretty(&m).unwrap()) {
                Ok(()) => 0,
                Err(e) => {
                    eprintln!("cannot write {}: {e}", path.display());
                    2
                }
            }
        }
        Some("list") => {
            for spec in registry::all_specs() {
                let worlds: Vec<String> = spec
                    .entries
                    .iter()
                    .map(|e| e.world.name().to_string())
                    .collect();
                println!("{} {}", spec.property, worlds.join(","));
            }
            0
        }
        _ => {
            eprintln!(
                "usage: verif check <ID> <tier> | replay <file> | selftest determinism [world] | run <world> <seed> | list"
            );
            2
        }
    }
}

fn hashes(w: &Arc<dyn World>, base: u64, n: u64, workers: usize, tier: Tier) -> Vec<u64> {
    let out = std::sync::Mutex::new(vec![0u64; n as usize]);
    let next = std::sync::atomic::AtomicU64::new(0);
    std::thread::scope(|s| {
        for _ in 0..workers.max(1) {
            s.spawn(|| {
                loop {
                    let i = next.fetch_add(1, std::sync::atomic::Ordering::Relaxed);
                    if i >= n {
                        break;
                    }
                    let dump = std::env::var("VERIF_DUMP").ok();
                    let o = run_once(w, run_seed(base, w.name(), i), tier, None, dump.is_some());
                    if let Some(d) = dump {
                        let _ = std::fs::create_dir_all(&d);
                        let _ = std::fs::write(
                            format!("{d}/{}-{i}-w{workers}.txt", w.name()),
                            o.lines.join("\n"),
                        );
                    }
                    let mut h = o.history_hash;
                    // fold findings + harness errors into the hash so that divergence there shows too
                    for f in &o.findings {
                        h ^= crate::kernel::rng::hash_str(&format!("{}{}{}", f.property, f.clause, f.key));
                    }
                    if o.harness_error.is_some() {
                        h ^= 0xdead;
                    }
                    out.lock().unwrap()[i as usize] = h;
                }
            });
        }
    });
    out.into_inner().unwrap()
}

// ------------------------------------------------------------------------------------ manifest

fn manifest() -> serde_json::Value {
    let hooks: serde_json::Value = std::fs::read_to_string(verif_dir().join("hooks.json"))
        .ok()
        .and_then(|s| serde_json::from_str(&s).ok())
        .unwrap_or_else(|| json!({}));
    let mut worlds: BTreeMap<String, Vec<String>> = BTreeMap::new();
    let checks: Vec<serde_json::Value> = registry::all_specs()
        .iter()
        .map(|s| {
            for e in &s.entries {
                worlds
                    .entry(e.world.name().split('.').next().unwrap_or("").to_string())
                    .or_default()
                    .push(s.property.to_string());
            }
            json!({
                "property_id": s.property,
                "quick_cmd": format!("./check {} quick", s.property),
                "thorough_cmd": format!("./check {} thorough", s.property),
                "evidence_file": format!("/verif/evidence/{}.json", s.property),
                "replay_cmd_template": "./check --replay {path}",
                "engine": "verif-sim",
                "level_claimed": {
                    "category": s.level,
                    "text": s.level_text,
                    "design_ref": s.design_ref,
                },
                "level_note": s.level_note,
                "technique": s.technique,
            })
        })
        .collect();
    let na: Vec<serde_json::Value> = registry::NOT_APPLICABLE
        .iter()
        .chain(registry::not_yet_claimed().iter())
        .map(|(id, reason)| json!({"property_id": id, "reason": reason}))
        .collect();
    let engines: Vec<serde_json::Value> = worlds
        .iter()
        .map(|(w, props)| {
            let mut p = props.clone();
            p.sort();
            p.dedup();
            json!({
                "name": format!("verif-sim world family `{w}`"),
                "path": format!("/verif/sim/src/worlds/{w}.rs"),
                "serves_properties": p,
                "kind_free_text": "deterministic simulation with fault injection (seeded chooser, paused tokio clock, libc clock/entropy seam, fault-injecting seams)",
            })
        })
        .collect();
    json!({
        "version": 1,
        "setup_cmd": "./check --build",
        "hooks": {
            "guard": "--cfg eigerco_lumina_verif",
            "enable": "RUSTFLAGS=\"--cfg eigerco_lumina_verif --cfg tokio_unstable\" via /verif/sim/.cargo/config.toml (cargo build --release in /verif/sim, path dependencies on /repo)",
            "baseline_off_cmd": "cd /repo && cargo nextest run --workspace --no-fail-fast --test-threads 8 --offline",
            "source_commits": hooks.get("source_commits").cloned().unwrap_or_else(|| json!([])),
            "add_only": true,
        },
        "engines": engines,
        "checks": checks,
        "not_applicable": na,
        "notes": "Every check is `./check <ID> <tier>`: it rebuilds /verif/sim against /repo's working tree (hooks on), runs seeded batches of simulated runs on 16 workers, shrinks and confirms any violation from its replay file in a fresh process, and rewrites /verif/evidence/<ID>.json. VERIF_SEED selects the batch seed (default 1). Exit 0 held / 1 VIOLATION / 2 harness error. Known findings: /verif/known_findings.json.",
    })
}

// ------------------------------------------------------------------------------------ known findings

#[derive(Deserialize, Default, Debug)]
struct KnownFindings {
    #[serde(default)]
    open: Vec<KnownEntry>,
    #[serde(default)]
    fixed: Vec<serde_json::Value>,
}

#[derive(Deserialize, Debug, Clone)]
struct KnownEntry {
    property: String,
    clause: String,
    key: String,
    what: String,
}

fn load_known() -> KnownFindings {
    let p = verif_dir().join("known_findings.json");
    match std::fs::read_to_string(&p) {
        Ok(s) => serde_json::from_str(&s).unwrap_or_default(),
        Err(_) => KnownFindings::default(),
    }
}

// ------------------------------------------------------------------------------------ check

fn check(id: &str, tier: Tier) -> i32 {
    let wall = Instant::now();
    let Some(spec) = registry::spec_for(id) else {
        eprintln!("no check registered for property {id}");
        return 2;
    };
    *crate::kernel::ctx::FOCUS.lock().unwrap() = Some(vec![id.to_string()]);
    let base_seed = env_u64("VERIF_SEED").unwrap_or(1);
    println!("VERIF_SEED={base_seed} property={id} tier={}", tier.as_str());
    let workers = env_u64("VERIF_WORKERS")
        .map(|v| v as usize)
        .unwrap_or_else(|| {
            std::thread::available_parallelism()
                .map(|n| n.get())
                .unwrap_or(8)
                .min(16)
        });
    let known = load_known();

    let mut reports: Vec<BatchReport> = Vec::new();
    let mut harness_errors: Vec<String> = Vec::new();
    let mut failing: Vec<(Arc<dyn World>, Outcome)> = Vec::new();
    let mut known_lines: Vec<String> = Vec::new();

    for e in &spec.entries {
        let runs = match tier {
            Tier::Quick => e.quick_runs,
            Tier::Thorough => e.thorough_runs,
        };
        if runs == 0 {
            continue;
        }
        let runs = env_u64("VERIF_RUNS").unwrap_or(runs);
        let cfg = BatchCfg {
            base_seed,
            runs,
            workers,
            wall_cap: Duration::from_secs(match tier {
                Tier::Quick => e.quick_wall_s,
                Tier::Thorough => e.thorough_wall_s,
            }),
            tier,
            properties: vec![id.to_string()],
            oracle_prefixes: vec![format!("{id}.")],
            max_failures: 8,
            known: known
                .open
                .iter()
                .map(|k| (k.property.clone(), k.clause.clone(), k.key.clone()))
                .collect(),
        };
        let r = runner::batch(&e.world, &cfg);
        println!(
            "world={} runs={} events={} vtime_s={} wall_s={:.1} distinct={} nontrivial={} failing={}",
            r.world,
            r.runs,
            r.events,
            r.vtime_ms / 1000,
            r.wall_s,
            r.distinct_hashes.len(),
            r.nontrivial_hashes.len(),
            r.failing.len()
        );
        harness_errors.extend(r.harness_errors.iter().cloned());
        let mut r = r;
        for ((clause, key), n) in &r.known_hits {
            if let Some(k) = known
                .open
                .iter()
                .find(|k| k.property == id && k.clause == *clause && k.key == *key)
            {
                let line = format!(
                    "KNOWN-FINDING: property={id} {} [{}::{}] (hit in {n} runs of {})",
                    k.what, clause, key, r.world
                );
                println!("{line}");
                known_lines.push(line);
            }
        }
        for o in std::mem::take(&mut r.failing) {
            failing.push((e.world.clone(), o));
        }
        reports.push(r);
    }

    if !harness_errors.is_empty() {
        for e in &harness_errors {
            eprintln!("HARNESS-ERROR {e}");
        }
        write_evidence(&spec, tier, base_seed, &reports, 0, wall.elapsed().as_secs_f64(), &[]);
        return 2;
    }

    // group failures by (clause, key)
    let mut groups: BTreeMap<(String, String), Vec<(Arc<dyn World>, Outcome, String)>> =
        BTreeMap::new();
    for (w, o) in failing {
        let mut seen = BTreeSet::new();
        for f in o.findings.iter().filter(|f| f.property == id) {
            if known
                .open
                .iter()
                .any(|k| k.property == id && k.clause == f.clause && k.key == f.key)
            {
                continue;
            }
            if seen.insert((f.clause.clone(), f.key.clone())) {
                groups
                    .entry((f.clause.clone(), f.key.clone()))
                    .or_default()
                    .push((w.clone(), o.clone(), f.detail.clone()));
            }
        }
    }

    let mut violations = 0;
    let mut exit_code = 0;
    for ((clause, key), list) in groups {
        // choose the failing run with the shortest decision trace
        let (w, o, detail) = list
            .into_iter()
            .min_by_key(|(_, o, _)| o.decisions.len())
            .unwrap();
        let (shrunk, shrink_runs) = shrink(
            &w,
            o.seed,
            tier,
            o.decisions.clone(),
            id,
            &clause,
            &key,
            400,
            Duration::from_secs(90),
        );
        // final verbose run of the minimised trace to capture the human-readable history
        let fin = run_once(&w, o.seed, tier, Some(shrunk.clone()), true);
        let reproduced = fin
            .findings
            .iter()
            .any(|f| f.property == id && f.clause == clause && f.key == key);
        let (decisions, trace, detail, hh, was_shrunk) = if reproduced {
            let d = fin
                .findings
                .iter()
                .find(|f| f.property == id && f.clause == clause && f.key == key)
                .map(|f| f.detail.clone())
                .unwrap_or(detail);
            (fin.decisions.clone(), fin.lines.clone(), d, fin.history_hash, true)
        } else {
            (o.decisions.clone(), vec![], detail, o.history_hash, false)
        };
        let rf = ReplayFile {
            property: id.to_string(),
            clause: clause.clone(),
            key: key.clone(),
            world: w.name().to_string(),
            tier: tier.as_str().to_string(),
            seed: o.seed,
            shrunk: was_shrunk,
            history_hash: hh,
            violation: detail.clone(),
            decisions,
            trace,
        };
        let dir = verif_dir().join("replays");
        let _ = std::fs::create_dir_all(&dir);
        let path = dir.join(format!(
            "{id}-{}-{:016x}.json",
            sanitize(&format!("{clause}-{key}")),
            o.seed
        ));
        if let Err(e) = std::fs::write(&path, serde_json::to_vec_pretty(&rf).unwrap()) {
            eprintln!("HARNESS-ERROR cannot write replay file {}: {e}", path.display());
            exit_code = 2;
            continue;
        }
        // confirm in a fresh process
        let confirmed = std::env::current_exe()
            .ok()
            .and_then(|exe| {
                std::process::Command::new(exe)
                    .arg("replay")
                    .arg(&path)
                    .arg("--quiet")
                    .output()
                    .ok()
            })
            .map(|o| o.status.code() == Some(1))
            .unwrap_or(false);
        if !confirmed {
            eprintln!(
                "HARNESS-ERROR violation {id}/{clause}/{key} (seed {}) did not reproduce from its replay file in a fresh process: {}",
                o.seed,
                path.display()
            );
            exit_code = 2;
            continue;
        }
        violations += 1;
        println!("VIOLATION property={id} replay={}", path.display());
        println!("  clause={clause} key={key} world={} seed={} shrink_runs={shrink_runs} decisions={}", w.name(), o.seed, rf.decisions.len());
        println!("  {detail}");
        for l in rf.trace.iter().rev().take(30).collect::<Vec<_>>().into_iter().rev() {
            println!("    {l}");
        }
        if exit_code == 0 {
            exit_code = 1;
        }
    }

    write_evidence(
        &spec,
        tier,
        base_seed,
        &reports,
        violations,
        wall.elapsed().as_secs_f64(),
        &known_lines,
    );
    if exit_code == 0 {
        println!("OK property={id} tier={} wall_s={:.1}", tier.as_str(), wall.elapsed().as_secs_f64());
    }
    exit_code
}

fn sanitize(s: &str) -> String {
    s.chars()
        .map(|c| if c.is_ascii_alphanumeric() || c == '-' || c == '_' { c } else { '_' })
        .take(60)
        .collect()
}

fn write_evidence(
    spec: &CheckSpec,
    tier: Tier,
    seed: u64,
    reports: &[BatchReport],
    violations: u64,
    wall_s: f64,
    known_lines: &[String],
) {
    let evaluations: u64 = reports.iter().map(|r| r.runs).sum();
    let distinct_nontrivial: usize = reports.iter().map(|r| r.nontrivial_hashes.len()).sum();
    let distinct: usize = reports.iter().map(|r| r.distinct_hashes.len()).sum();
    let vtime_s: u64 = reports.iter().map(|r| r.vtime_ms / 1000).sum();
    let events: u64 = reports.iter().map(|r| r.events).sum();
    let draws: u64 = reports.iter().map(|r| r.draws).sum();
    let mut faults: BTreeMap<String, u64> = BTreeMap::new();
    let mut probes: BTreeMap<String, u64> = BTreeMap::new();
    let mut oracles: BTreeMap<String, u64> = BTreeMap::new();
    let mut repo_panics: BTreeMap<String, u64> = BTreeMap::new();
    let mut samples = Vec::new();
    let mut per_world = Vec::new();
    for r in reports {
        for (k, v) in &r.faults {
            *faults.entry(k.clone()).or_insert(0) += v;
        }
        for (k, v) in &r.probes {
            *probes.entry(k.clone()).or_insert(0) += v;
        }
        for (k, v) in &r.oracles {
            *oracles.entry(k.clone()).or_insert(0) += v;
        }
        for (k, v) in &r.repo_panics {
            *repo_panics.entry(k.clone()).or_insert(0) += v;
        }
        samples.extend(r.samples.iter().cloned());
        per_world.push(json!({
            "world": r.world,
            "runs": r.runs,
            "runs_with_fault": r.runs_with_fault,
            "wall_s": r.wall_s,
            "runs_per_hour": if r.wall_s > 0.0 { (r.runs as f64 / r.wall_s * 3600.0) as u64 } else { 0 },
            "simulated_time_s": r.vtime_ms / 1000,
            "distinct_histories": r.distinct_hashes.len(),
            "first_seed": r.first_seed,
            "last_seed": r.last_seed,
        }));
    }
    // only the oracle clauses of this property are its verdict; others are listed as context
    let prefix = format!("{}.", spec.property);
    let own_oracles: BTreeMap<&String, &u64> =
        oracles.iter().filter(|(k, _)| k.starts_with(&prefix)).collect();
    let ev = json!({
        "property_id": spec.property,
        "tier": tier.as_str(),
        "seed": seed,
        "level": spec.level,
        "coverage": {
            "evaluations": evaluations,
            "distinct_nontrivial": distinct_nontrivial,
            "rule": spec.rule,
            "samples": samples,
            "distinct_histories": distinct,
            "events": events,
            "decisions": draws,
            "simulated_time_s": vtime_s,
            "runs_per_hour": if wall_s > 0.0 { (evaluations as f64 / wall_s * 3600.0) as u64 } else { 0 },
            "faults_fired": faults,
            "oracle_evaluations": own_oracles,
            "oracle_evaluations_other_properties": oracles.iter().filter(|(k, _)| !k.starts_with(&prefix)).collect::<BTreeMap<_, _>>(),
            "probes": probes,
            "panics_in_repo_or_deps": repo_panics,
            "worlds": per_world,
            "real_components": spec.real,
            "stubbed_components": spec.stubs,
            "known_findings_reported": known_lines,
            "exhaustive": false,
        },
        "assumptions": spec.assumptions,
        "wall_s": wall_s,
        "violations": violations,
    });
    let dir = verif_dir().join("evidence");
    let _ = std::fs::create_dir_all(&dir);
    let path = dir.join(format!("{}.json", spec.property));
    if let Err(e) = std::fs::write(&path, serde_json::to_vec_pretty(&ev).unwrap()) {
        eprintln!("cannot write evidence {}: {e}", path.display());
    }
}

// ------------------------------------------------------------------------------------ replay

fn replay(path: &Path, verbose: bool) -> i32 {
    let rf: ReplayFile = match std::fs::read_to_string(path)
        .map_err(|e| e.to_string())
        .and_then(|s| serde_json::from_str(&s).map_err(|e| e.to_string()))
    {
        Ok(r) => r,
        Err(e) => {
            eprintln!("cannot read replay file {}: {e}", path.display());
            return 2;
        }
    };
    let Some(w) = registry::world_by_name(&rf.world) else {
        eprintln!("unknown world {}", rf.world);
        return 2;
    };
    *crate::kernel::ctx::FOCUS.lock().unwrap() = Some(vec![rf.property.clone()]);
    let out = replay_file(&w, &rf, true);
    if verbose {
        for l in &out.lines {
            println!("{l}");
        }
        println!(
            "history_hash={:016x} (file: {:016x}) events={} decisions={}",
            out.history_hash, rf.history_hash, out.events, out.draws
        );
    }
    if let Some(e) = &out.harness_error {
        eprintln!("HARNESS-ERROR {e}");
        return 2;
    }
    if outcome_matches(&out, &rf) {
        println!("VIOLATION property={} replay={}", rf.property, path.display());
        if let Some(f) = out
            .findings
            .iter()
            .find(|f| f.property == rf.property && f.clause == rf.clause && f.key == rf.key)
        {
            println!("  clause={} key={} : {}", f.clause, f.key, f.detail);
        }
        1
    } else {
        println!(
            "NOT-REPRODUCED property={} clause={} key={}",
            rf.property, rf.clause, rf.key
        );
        0
    }
}

// ------------------------------------------------------------------------------------ selftest

/// Determinism: every world, N seeds, run in this process with 16 workers, and in two child
/// processes with 2 and 16 workers; all three hash lists must be identical.
fn selftest(only: Option<&str>) -> i32 {
    let n = env_u64("VERIF_SELFTEST_SEEDS").unwrap_or(200);
    let base = env_u64("VERIF_SEED").unwrap_or(1);
    let exe = std::env::current_exe().expect("current exe");
    let mut bad = 0;
    for w in registry::all_worlds() {
        if let Some(o) = only {
            if w.name() != o {
                continue;
            }
        }
        let t = Instant::now();
        let local = hashes(&w, base, n, 16, Tier::Quick);
        let mut lists = vec![local];
        for workers in [2usize, 16] {
            let out = std::process::Command::new(&exe)
                .args([
                    "hashes",
                    w.name(),
                    &base.to_string(),
                    &n.to_string(),
                    &workers.to_string(),
                ])
                .output()
                .expect("child");
            let text = String::from_utf8_lossy(&out.stdout);
            let l: Vec<u64> = text
                .lines()
                .filter_map(|l| l.split_whitespace().nth(1))
                .filter_map(|h| u64::from_str_radix(h, 16).ok())
                .collect();
            lists.push(l);
        }
        let distinct: BTreeSet<u64> = lists[0].iter().copied().collect();
        let ok = lists[1] == lists[0] && lists[2] == lists[0];
        if !ok {
            bad += 1;
            let diffs: Vec<usize> = (0..lists[0].len())
                .filter(|i| {
                    lists[1].get(*i) != lists[0].get(*i) || lists[2].get(*i) != lists[0].get(*i)
                })
                .take(10)
                .collect();
            println!(
                "NONDETERMINISM world={} seeds={} differing run indices (first 10): {:?}",
                w.name(),
                n,
                diffs
            );
        } else {
            println!(
                "deterministic world={} seeds={} x3 (3 processes, workers 16/2/16) distinct_hashes={} wall_s={:.1}",
                w.name(),
                n,
                distinct.len(),
                t.elapsed().as_secs_f64()
            );
        }
    }
    if bad > 0 { 2 } else { 0 }
}
