//! SimDisk: an in-memory `redb::StorageBackend` with a durable image, a list of unsynced
//! operations, crash injection at any call boundary (the durable image keeps a chooser-selected
//! subset of the unsynced whole writes) and I/O error injection.

use std::io;
use std::sync::{Arc, Mutex};

use redb::StorageBackend;

use crate::kernel::ctx::RunCtx;

#[derive(Clone, Debug)]
enum Pending {
    Write { off: u64, data: Vec<u8> },
    SetLen(u64),
}

#[derive(Clone, Copy, Debug, PartialEq, Eq)]
pub enum IoFault {
    Eio,
    Enospc,
}

#[derive(Debug)]
struct Inner {
    durable: Image,
    current: Image,
    pending: Vec<Pending>,
    calls: u64,
    writes: u64,
    syncs: u64,
    crash_at: Option<u64>,
    crashed: bool,
    fail_at: Option<(u64, IoFault)>,
    failed: bool,
    /// gate for W-COUNTER: park callers until released
    log_calls: bool,
    call_log: Vec<(u8, u64, u64)>,
}

#[derive(Clone)]
pub struct SimDisk {
    inner: Arc<Mutex<Inner>>,
    ctx: Arc<RunCtx>,
    /// W-COUNTER: while closed, every backend call parks its (blocking-pool) thread here
    gate: Arc<(Mutex<(bool, usize)>, std::sync::Condvar)>,
}

impl std::fmt::Debug for SimDisk {
    fn fmt(&self, f: &mut std::fmt::Formatter<'_>) -> std::fmt::Result {
        f.write_str("SimDisk")
    }
}

const PAGE: usize = 4096;

/// Sparse copy-on-write disk image: all-zero pages are implicit, pages are shared between the
/// durable image, the current image and snapshots until written (the redb file is megabytes of
/// mostly zeros, and page-faulting fresh multi-megabyte buffers dominated run time otherwise).
#[derive(Clone, Debug, Default)]
pub struct Image {
    pages: std::collections::BTreeMap<u64, Arc<[u8; PAGE]>>,
    len: u64,
}

impl Image {
    pub fn len(&self) -> u64 {
        self.len
    }

    pub fn from_bytes(b: &[u8]) -> Self {
        let mut img = Image::default();
        img.write(0, b);
        img.len = b.len() as u64;
        img
    }

    pub fn to_bytes(&self) -> Vec<u8> {
        self.read(0, self.len as usize)
    }

    pub fn set_len(&mut self, len: u64) {
        if len < self.len {
            // drop pages beyond, zero the tail of the last page
            let first_gone = len.div_ceil(PAGE as u64);
            let _ = self.pages.split_off(&first_gone);
            let rem = (len % PAGE as u64) as usize;
            if rem != 0 {
                if let Some(p) = self.pages.get_mut(&(len / PAGE as u64)) {
                    Arc::make_mut(p)[rem..].fill(0);
                }
            }
        }
        self.len = len;
    }

    pub fn write(&mut self, off: u64, data: &[u8]) {
        let end = off + data.len() as u64;
        if end > self.len {
            self.len = end;
        }
        let mut pos = 0usize;
        while pos < data.len() {
            let abs = off + pos as u64;
            let pno = abs / PAGE as u64;
            let in_page = (abs % PAGE as u64) as usize;
            let n = (PAGE - in_page).min(data.len() - pos);
            let chunk = &data[pos..pos + n];
            let zero = chunk.iter().all(|b| *b == 0);
            if n == PAGE && zero {
                self.pages.remove(&pno);
            } else if zero && !self.pages.contains_key(&pno) {
                // zeros onto an implicit zero page
            } else {
                let p = self.pages.entry(pno).or_insert_with(|| Arc::new([0u8; PAGE]));
                Arc::make_mut(p)[in_page..in_page + n].copy_from_slice(chunk);
            }
            pos += n;
        }
    }

    pub fn read(&self, off: u64, len: usize) -> Vec<u8> {
        let mut out = vec![0u8; len];
        let mut pos = 0usize;
        while pos < len {
            let abs = off + pos as u64;
            let pno = abs / PAGE as u64;
            let in_page = (abs % PAGE as u64) as usize;
            let n = (PAGE - in_page).min(len - pos);
            if let Some(p) = self.pages.get(&pno) {
                out[pos..pos + n].copy_from_slice(&p[in_page..in_page + n]);
            }
            pos += n;
        }
        out
    }

    pub fn content_hash(&self) -> u64 {
        let mut h = crate::kernel::rng::HistHash::default();
        h.word(self.len);
        for (k, p) in &self.pages {
            if p.iter().any(|b| *b != 0) {
                h.word(*k);
                h.bytes(&p[..]);
            }
        }
        h.finish()
    }
}

fn apply(img: &mut Image, p: &Pending) {
    match p {
        Pending::Write { off, data } => img.write(*off, data),
        Pending::SetLen(l) => img.set_len(*l),
    }
}

impl SimDisk {
    pub fn new(ctx: &Arc<RunCtx>) -> Self {
        Self::from_image(ctx, Image::default())
    }

    pub fn from_image(ctx: &Arc<RunCtx>, image: Image) -> Self {
        SimDisk {
            inner: Arc::new(Mutex::new(Inner {
                durable: image.clone(),
                current: image,
                pending: Vec::new(),
                calls: 0,
                writes: 0,
                syncs: 0,
                crash_at: None,
                crashed: false,
                fail_at: None,
                failed: false,
                log_calls: false,
                call_log: Vec::new(),
            })),
            ctx: ctx.clone(),
            gate: Arc::new((Mutex::new((false, 0)), std::sync::Condvar::new())),
        }
    }

    /// Park every subsequent backend call until `open_gate`.
    pub fn close_gate(&self) {
        self.gate.0.lock().unwrap().0 = true;
    }

    pub fn open_gate(&self) {
        self.gate.0.lock().unwrap().0 = false;
        self.gate.1.notify_all();
    }

    /// Number of threads currently parked at the gate.
    pub fn parked(&self) -> usize {
        self.gate.0.lock().unwrap().1
    }

    fn wait_gate(&self) {
        let mut g = self.gate.0.lock().unwrap();
        if g.0 {
            g.1 += 1;
            while g.0 {
                g = self.gate.1.wait(g).unwrap();
            }
            g.1 -= 1;
        }
    }

    /// Crash at the `n`-th mutating call (write / set_len / sync_data) from now, 1-based.
    pub fn arm_crash(&self, n: u64) {
        let mut g = self.inner.lock().unwrap();
        g.crash_at = Some(g.calls + n);
    }

    pub fn arm_io_fault(&self, n: u64, kind: IoFault) {
        let mut g = self.inner.lock().unwrap();
        g.fail_at = Some((g.calls + n, kind));
    }

    pub fn disarm(&self) {
        let mut g = self.inner.lock().unwrap();
        g.crash_at = None;
        g.fail_at = None;
    }

    pub fn calls(&self) -> u64 {
        self.inner.lock().unwrap().calls
    }
    pub fn crashed(&self) -> bool {
        self.inner.lock().unwrap().crashed
    }
    pub fn io_failed(&self) -> bool {
        self.inner.lock().unwrap().failed
    }
    pub fn pending_len(&self) -> usize {
        self.inner.lock().unwrap().pending.len()
    }

    /// Power loss now (between calls): pick which unsynced writes survive.
    pub fn crash_now(&self) {
        let mut g = self.inner.lock().unwrap();
        if !g.crashed {
            Self::do_crash(&self.ctx, &mut g);
        }
    }

    /// Image a restarted process would find: after a crash the durable image; after a clean
    /// drop or a mere I/O error (process alive, page cache intact) everything written.
    pub fn image_after_stop(&self) -> Image {
        let g = self.inner.lock().unwrap();
        if g.crashed {
            g.durable.clone()
        } else {
            g.current.clone()
        }
    }

    pub fn durable_image(&self) -> Image {
        self.inner.lock().unwrap().durable.clone()
    }

    fn do_crash(ctx: &RunCtx, g: &mut Inner) {
        g.crashed = true;
        let n = g.pending.len();
        // 0: drop all unsynced, 1: keep all, 2: keep a prefix, 3: arbitrary subset
        let mode = if n == 0 { 0 } else { ctx.choose("crash.mode", 4) };
        let mut kept = 0u64;
        let pending = std::mem::take(&mut g.pending);
        match mode {
            0 => {}
            1 => {
                for p in &pending {
                    apply(&mut g.durable, p);
                    kept += 1;
                }
            }
            2 => {
                let k = ctx.choose("crash.prefix", n as u32 + 1) as usize;
                for p in &pending[..k] {
                    apply(&mut g.durable, p);
                    kept += 1;
                }
            }
            _ => {
                for p in &pending {
                    if ctx.choose("crash.keep", 2) == 1 {
                        apply(&mut g.durable, p);
                        kept += 1;
                    }
                }
            }
        }
        ctx.fault("crash");
        if n > 0 && kept > 0 && kept < n as u64 {
            ctx.probe("crash_partial_unsynced_writes_survive");
        }
        if n > 0 {
            ctx.probe("crash_with_unsynced_writes");
        }
        ctx.ev("disk.crash", n as u64, kept);
    }

    /// Returns Err if this call must fail (crash or injected I/O error).
    fn gate(&self, g: &mut Inner, kind: u8, a: u64, b: u64, pending: Option<Pending>) -> io::Result<()> {
        if g.crashed {
            return Err(io::Error::other("simulated: process crashed"));
        }
        g.calls += 1;
        if g.log_calls {
            g.call_log.push((kind, a, b));
        }
        if let Some((at, k)) = g.fail_at {
            if g.calls == at || (g.failed && k == IoFault::Enospc && kind != 2) {
                g.failed = true;
                match k {
                    IoFault::Eio => {
                        g.fail_at = None;
                        self.ctx.fault("disk_eio");
                        self.ctx.ev("disk.eio", kind as u64, g.calls);
                        return Err(io::Error::other("simulated EIO"));
                    }
                    IoFault::Enospc => {
                        if kind != 2 {
                            self.ctx.fault("disk_enospc");
                            self.ctx.ev("disk.enospc", kind as u64, g.calls);
                            return Err(io::Error::new(
                                io::ErrorKind::StorageFull,
                                "simulated ENOSPC",
                            ));
                        }
                    }
                }
            }
        }
        if g.crash_at == Some(g.calls) {
            // the in-flight operation itself is an unsynced whole write that may or may not survive
            if let Some(p) = pending {
                g.pending.push(p);
            }
            Self::do_crash(&self.ctx, g);
            return Err(io::Error::other("simulated: power loss"));
        }
        Ok(())
    }
}

impl StorageBackend for SimDisk {
    fn len(&self) -> io::Result<u64> {
        self.wait_gate();
        let g = self.inner.lock().unwrap();
        if g.crashed {
            return Err(io::Error::other("simulated: process crashed"));
        }
        Ok(g.current.len())
    }

    fn read(&self, offset: u64, len: usize) -> io::Result<Vec<u8>> {
        self.wait_gate();
        let g = self.inner.lock().unwrap();
        if g.crashed {
            return Err(io::Error::other("simulated: process crashed"));
        }
        let end = offset + len as u64;
        if end > g.current.len() {
            return Err(io::Error::new(io::ErrorKind::UnexpectedEof, "read past end"));
        }
        Ok(g.current.read(offset, len))
    }

    fn set_len(&self, len: u64) -> io::Result<()> {
        self.wait_gate();
        let mut g = self.inner.lock().unwrap();
        self.gate(&mut g, 1, len, 0, Some(Pending::SetLen(len)))?;
        g.current.set_len(len);
        g.pending.push(Pending::SetLen(len));
        self.ctx.ev("disk.set_len", len, 0);
        Ok(())
    }

    fn sync_data(&self, eventual: bool) -> io::Result<()> {
        self.wait_gate();
        let mut g = self.inner.lock().unwrap();
        self.gate(&mut g, 2, eventual as u64, 0, None)?;
        g.syncs += 1;
        let pending = std::mem::take(&mut g.pending);
        for p in &pending {
            apply(&mut g.durable, p);
        }
        if eventual {
            self.ctx.probe("disk_eventual_sync");
        }
        self.ctx.ev("disk.sync", g.syncs, 0);
        Ok(())
    }

    fn write(&self, offset: u64, data: &[u8]) -> io::Result<()> {
        self.wait_gate();
        let mut g = self.inner.lock().unwrap();
        let p = Pending::Write {
            off: offset,
            data: data.to_vec(),
        };
        self.gate(&mut g, 0, offset, data.len() as u64, Some(p.clone()))?;
        g.writes += 1;
        apply(&mut g.current, &p);
        g.pending.push(p);
        self.ctx.ev("disk.write", offset, data.len() as u64);
        Ok(())
    }
}
