//! Deterministic extended data squares (pure functions of their parameters, cached off-thread)
//! and a chain whose headers commit to them.

use std::collections::BTreeMap;
use std::sync::{Arc, Mutex};

use celestia_types::consts::appconsts::{AppVersion, SHARE_SIZE};
use celestia_types::nmt::{NS_SIZE, Namespace};
use celestia_types::{DataAvailabilityHeader, ExtendedDataSquare, ExtendedHeader};
use tendermint::chain;

use crate::kernel::ctx::{WALL_BASE_SECS, time_from_ns};
use crate::kernel::rng::{Xoshiro, mix};
use crate::seams::chain::{HeaderSpec, KeyedSet, build_header, off_thread};

#[derive(Clone, Copy, Debug, PartialEq, Eq, PartialOrd, Ord, Hash)]
pub struct SquareParams {
    pub class: u64,
    /// original data square width (EDS width is twice that)
    pub ods_width: u16,
    /// number of distinct user namespaces (>= 1)
    pub namespaces: u16,
}

pub struct Square {
    pub eds: ExtendedDataSquare,
    pub dah: DataAvailabilityHeader,
    pub namespaces: Vec<Namespace>,
}

fn user_namespace(rng: &mut Xoshiro, ordinal: u32) -> Namespace {
    // ordinal in the high bytes keeps generated namespaces strictly increasing
    let mut id = [0u8; 10];
    id[..4].copy_from_slice(&(ordinal + 0x100).to_be_bytes());
    let mut r = [0u8; 6];
    rng.fill(&mut r);
    id[4..].copy_from_slice(&r);
    Namespace::new_v0(&id).expect("valid v0 namespace")
}

fn data_share(rng: &mut Xoshiro, ns: &Namespace) -> Vec<u8> {
    let mut s = vec![0u8; SHARE_SIZE];
    s[..NS_SIZE].copy_from_slice(ns.as_bytes());
    s[NS_SIZE] = 0; // info byte: version 0, not a sequence start
    rng.fill(&mut s[NS_SIZE + 1..]);
    s
}

fn tail_padding_share() -> Vec<u8> {
    let mut s = vec![0u8; SHARE_SIZE];
    s[..NS_SIZE].copy_from_slice(Namespace::TAIL_PADDING.as_bytes());
    s[NS_SIZE] = 1; // version 0, sequence start
    s
}

impl Square {
    pub fn generate(p: SquareParams) -> Square {
        let mut rng = Xoshiro::new(mix(&[0x5EA2, p.class, p.ods_width as u64, p.namespaces as u64]));
        let k = p.ods_width as usize;
        let total = k * k;
        let n_ns = (p.namespaces.max(1) as usize).min(total);
        let namespaces: Vec<Namespace> = (0..n_ns).map(|i| user_namespace(&mut rng, i as u32)).collect();
        // split `total` shares into n_ns runs (+ optional tail padding run)
        let tail = if total > n_ns && rng.below(2) == 0 { 1 + rng.below(((total - n_ns) as u64).min(k as u64 + 1)) as usize } else { 0 };
        let body = total - tail;
        let mut cuts: Vec<usize> = (0..n_ns - 1).map(|_| 1 + rng.below((body - 1).max(1) as u64) as usize).collect();
        cuts.sort();
        let mut shares: Vec<Vec<u8>> = Vec::with_capacity(total);
        let mut ns_idx = 0usize;
        for i in 0..body {
            while ns_idx < cuts.len() && i >= cuts[ns_idx] && ns_idx + 1 < n_ns {
                ns_idx += 1;
            }
            shares.push(data_share(&mut rng, &namespaces[ns_idx]));
        }
        for _ in 0..tail {
            shares.push(tail_padding_share());
        }
        let eds = ExtendedDataSquare::from_ods(shares, AppVersion::V2).expect("generated square is valid");
        let dah = DataAvailabilityHeader::from_eds(&eds);
        Square { eds, dah, namespaces }
    }

    pub fn cached(p: SquareParams) -> Arc<Square> {
        static CACHE: Mutex<BTreeMap<SquareParams, Arc<Square>>> = Mutex::new(BTreeMap::new());
        if let Some(s) = CACHE.lock().unwrap().get(&p) {
            return s.clone();
        }
        let s = off_thread(move || Arc::new(Square::generate(p)));
        let mut g = CACHE.lock().unwrap();
        if g.len() > 400 {
            g.clear();
        }
        g.entry(p).or_insert(s).clone()
    }

    pub fn width(&self) -> u16 {
        self.eds.square_width()
    }
}

// ------------------------------------------------------------------------------------ data chain

#[derive(Clone, Copy, Debug, PartialEq, Eq, PartialOrd, Ord, Hash)]
pub struct DataChainParams {
    pub class: u64,
    pub len: u64,
    pub block_time_ms: u64,
    pub head_offset_ms: i64,
    /// log2 of the largest ODS width used (0 => ODS 1x1 / EDS 2x2)
    pub max_ods_log2: u8,
}

/// An honest chain whose every header commits to a real square.
pub struct DataChain {
    pub chain_id: chain::Id,
    pub set: KeyedSet,
    pub headers: Vec<ExtendedHeader>,
    pub squares: Vec<Arc<Square>>,
    pub block_time_ms: u64,
    pub base_time_ns: i64,
}

impl DataChain {
    pub fn time_of(&self, height: u64) -> tendermint::Time {
        time_from_ns(self.base_time_ns + (height as i64) * (self.block_time_ms as i64) * 1_000_000)
    }
    pub fn get(&self, h: u64) -> &ExtendedHeader {
        &self.headers[(h - 1) as usize]
    }
    pub fn square(&self, h: u64) -> &Arc<Square> {
        &self.squares[(h - 1) as usize]
    }
    pub fn len(&self) -> u64 {
        self.headers.len() as u64
    }

    fn generate(p: DataChainParams) -> DataChain {
        let mut rng = Xoshiro::new(mix(&[0xDA7A, p.class, p.len, p.block_time_ms, p.head_offset_ms as u64, p.max_ods_log2 as u64]));
        let chain_id: chain::Id = "private".try_into().unwrap();
        let set = KeyedSet::generate(&mut rng, 1, 1000);
        let head_ns = WALL_BASE_SECS * 1_000_000_000 + p.head_offset_ms * 1_000_000;
        let base_time_ns = head_ns - (p.len as i64) * (p.block_time_ms as i64) * 1_000_000;
        let mut c = DataChain {
            chain_id,
            set,
            headers: Vec::new(),
            squares: Vec::new(),
            block_time_ms: p.block_time_ms,
            base_time_ns,
        };
        for h in 1..=p.len {
            let log2 = rng.below(p.max_ods_log2 as u64 + 1) as u32;
            let ods = 1u16 << log2;
            // a handful of distinct squares per width keep generation cheap
            let sq = Square::generate(SquareParams {
                class: mix(&[p.class, rng.below(3)]),
                ods_width: ods,
                namespaces: 1 + rng.below(4) as u16,
            });
            let sq = Arc::new(sq);
            let hdr = {
                let prev = c.headers.last();
                build_header(&mut rng, HeaderSpec {
                    chain_id: &c.chain_id,
                    height: h,
                    time: c.time_of(h),
                    prev,
                    set: &c.set,
                    next_set: &c.set,
                    dah: sq.dah.clone(),
                    app_version: 2,
                    votes: None,
                })
            };
            c.headers.push(hdr);
            c.squares.push(sq);
        }
        c
    }

    pub fn cached(p: DataChainParams) -> Arc<DataChain> {
        static CACHE: Mutex<BTreeMap<DataChainParams, Arc<DataChain>>> = Mutex::new(BTreeMap::new());
        if let Some(s) = CACHE.lock().unwrap().get(&p) {
            return s.clone();
        }
        let s = off_thread(move || Arc::new(DataChain::generate(p)));
        let mut g = CACHE.lock().unwrap();
        if g.len() > 64 {
            g.clear();
        }
        g.entry(p).or_insert(s).clone()
    }
}
