//! The abstract header-store model (reference oracle for C18–C23): three height sets, headers by
//! height and hash, CID-accumulating sampling metadata. Independent of `BlockRanges`.

use std::collections::{BTreeMap, BTreeSet};

use celestia_types::ExtendedHeader;
use celestia_types::hash::Hash;
use cid::Cid;

#[derive(Clone, Copy, Debug, PartialEq, Eq, PartialOrd, Ord, Hash)]
pub enum Kind {
    Ok,
    NotFound,
    HeadersVerification,
    NeighborsVerification,
    Constraints,
    HashExists,
    Fatal,
    Other,
}

pub fn kind_of(e: &lumina_node::store::StoreError) -> Kind {
    use lumina_node::store::{StoreError, StoreInsertionError};
    match e {
        StoreError::NotFound => Kind::NotFound,
        StoreError::InsertionFailed(StoreInsertionError::HeadersVerificationFailed(_)) => {
            Kind::HeadersVerification
        }
        StoreError::InsertionFailed(StoreInsertionError::NeighborsVerificationFailed(_)) => {
            Kind::NeighborsVerification
        }
        StoreError::InsertionFailed(StoreInsertionError::ConstraintsNotMet(_)) => Kind::Constraints,
        StoreError::InsertionFailed(StoreInsertionError::HashExists(_)) => Kind::HashExists,
        StoreError::FatalDatabaseError(_)
        | StoreError::StoredDataError(_)
        | StoreError::ExecutorError(_)
        | StoreError::OpenFailed(_) => Kind::Fatal,
        _ => Kind::Other,
    }
}

pub fn kind_of_res<T>(r: &Result<T, lumina_node::store::StoreError>) -> Kind {
    match r {
        Ok(_) => Kind::Ok,
        Err(e) => kind_of(e),
    }
}

#[derive(Clone, Debug, Default, PartialEq, Eq)]
pub struct Model {
    pub headers: BTreeMap<u64, ExtendedHeader>,
    pub by_hash: BTreeMap<Vec<u8>, u64>,
    pub sampled: BTreeSet<u64>,
    pub pruned: BTreeSet<u64>,
    pub meta: BTreeMap<u64, BTreeSet<Vec<u8>>>,
}

/// Independent "b is the adjacent successor of a" predicate (hash link, validator link, chain id,
/// increasing time, not more than 10 s ahead of `now_ns`).
pub fn linked(a: &ExtendedHeader, b: &ExtendedHeader, now_ns: i64) -> bool {
    b.height() == a.height() + 1
        && b.header.chain_id == a.header.chain_id
        && b.header.time.unix_timestamp_nanos() > a.header.time.unix_timestamp_nanos()
        && (b.header.time.unix_timestamp_nanos() as i64) < now_ns + 10_000_000_000
        && b.header
            .last_block_id
            .map(|id| id.hash == a.commit.block_id.hash)
            .unwrap_or(false)
        && b.header.validators_hash == a.header.next_validators_hash
}

/// Set-based admission rule of C18, on heights.
/// Returns Some((below_stored, above_stored)) if admitted.
pub fn admission(stored: &BTreeSet<u64>, lo: u64, hi: u64) -> Option<(bool, bool)> {
    if lo == 0 || lo > hi {
        return None;
    }
    if stored.range(lo..=hi).next().is_some() {
        return None;
    }
    let below = lo > 1 && stored.contains(&(lo - 1));
    let above = hi < u64::MAX && stored.contains(&(hi + 1));
    let max = stored.iter().next_back().copied();
    let ok = match max {
        None => true,
        Some(m) => lo > m || below || above,
    };
    ok.then_some((below, above))
}

impl Model {
    pub fn stored(&self) -> BTreeSet<u64> {
        self.headers.keys().copied().collect()
    }

    pub fn head(&self) -> Option<u64> {
        self.headers.keys().next_back().copied()
    }

    /// Set of rules a batch violates (empty = must be accepted). `safe` = the batch went through
    /// the verifying constructor, so internal linkage is part of the verdict.
    pub fn insert_violations(&self, batch: &[ExtendedHeader], safe: bool, now_ns: i64) -> BTreeSet<Kind> {
        let mut v = BTreeSet::new();
        if batch.is_empty() {
            return v;
        }
        if safe {
            for w in batch.windows(2) {
                if !linked(&w[0], &w[1], now_ns) {
                    v.insert(Kind::HeadersVerification);
                }
            }
            if !v.is_empty() {
                // the verifying constructor fails before the store is consulted
                return v;
            }
        }
        let lo = batch.first().unwrap().height();
        let hi = batch.last().unwrap().height();
        let stored = self.stored();
        match admission(&stored, lo, hi) {
            None => {
                v.insert(Kind::Constraints);
            }
            Some((below, above)) => {
                if below && !linked(&self.headers[&(lo - 1)], batch.first().unwrap(), now_ns) {
                    v.insert(Kind::NeighborsVerification);
                }
                if above && !linked(batch.last().unwrap(), &self.headers[&(hi + 1)], now_ns) {
                    v.insert(Kind::NeighborsVerification);
                }
            }
        }
        // duplicate hashes (only reachable with unchecked batches)
        let mut seen: BTreeSet<Vec<u8>> = BTreeSet::new();
        for h in batch {
            let k = h.hash().as_bytes().to_vec();
            if self.by_hash.contains_key(&k) || !seen.insert(k) {
                v.insert(Kind::HashExists);
            }
        }
        v
    }

    pub fn apply_insert(&mut self, batch: &[ExtendedHeader]) {
        for h in batch {
            let height = h.height();
            self.by_hash.insert(h.hash().as_bytes().to_vec(), height);
            self.headers.insert(height, h.clone());
            self.sampled.remove(&height);
            self.pruned.remove(&height);
        }
    }

    pub fn remove(&mut self, height: u64) -> Kind {
        let Some(h) = self.headers.remove(&height) else {
            return Kind::NotFound;
        };
        self.by_hash.remove(&h.hash().as_bytes().to_vec());
        self.sampled.remove(&height);
        self.meta.remove(&height);
        self.pruned.insert(height);
        Kind::Ok
    }

    pub fn mark_sampled(&mut self, height: u64) -> Kind {
        if !self.headers.contains_key(&height) {
            return Kind::NotFound;
        }
        self.sampled.insert(height);
        Kind::Ok
    }

    pub fn update_meta(&mut self, height: u64, cids: &[Cid]) -> Kind {
        if !self.headers.contains_key(&height) {
            return Kind::NotFound;
        }
        let e = self.meta.entry(height).or_default();
        for c in cids {
            e.insert(c.to_bytes());
        }
        Kind::Ok
    }

    pub fn get_by_hash(&self, hash: &Hash) -> Option<&ExtendedHeader> {
        self.by_hash
            .get(&hash.as_bytes().to_vec())
            .and_then(|h| self.headers.get(h))
    }
}

pub fn ranges_to_set(r: &lumina_node::store::BlockRanges) -> BTreeSet<u64> {
    let mut s = BTreeSet::new();
    for rg in <lumina_node::store::BlockRanges as AsRef<[std::ops::RangeInclusive<u64>]>>::as_ref(r) {
        for h in rg.clone() {
            s.insert(h);
        }
    }
    s
}

/// The representation invariant of a `BlockRanges` value (sorted, disjoint, non-adjacent, no 0).
pub fn ranges_well_formed(r: &lumina_node::store::BlockRanges) -> bool {
    let rs = <lumina_node::store::BlockRanges as AsRef<[std::ops::RangeInclusive<u64>]>>::as_ref(r);
    let mut prev_end: Option<u64> = None;
    for rg in rs {
        if *rg.start() == 0 || rg.start() > rg.end() {
            return false;
        }
        if let Some(pe) = prev_end {
            if *rg.start() <= pe + 1 {
                return false;
            }
        }
        prev_end = Some(*rg.end());
    }
    true
}
