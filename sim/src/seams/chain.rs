//! SimChain: a small simulated validator set that signs real tendermint headers with real
//! ed25519 keys for real DAHs. All randomness comes from a caller-provided PRNG, never from the
//! OS; all block times are explicit and strictly increasing.

use std::collections::BTreeMap;
use std::sync::{Arc, Mutex, OnceLock};

use celestia_types::block::CommitExt;
use celestia_types::hash::{Hash, HashExt};
use celestia_types::{DataAvailabilityHeader, ExtendedDataSquare, ExtendedHeader, ValidatorSet};
use ed25519_consensus::SigningKey;
use tendermint::block::header::{Header, Version};
use tendermint::block::{Commit, CommitSig, parts};
use tendermint::public_key::PublicKey;
use tendermint::{Signature, Time, chain};

use crate::kernel::ctx::{WALL_BASE_SECS, time_from_ns};
use crate::kernel::rng::Xoshiro;

pub const BLOCK_PROTOCOL: u64 = 11;

#[derive(Clone)]
pub struct ValKey {
    pub sk: SigningKey,
    pub pk: PublicKey,
    pub addr: tendermint::account::Id,
}

impl ValKey {
    pub fn generate(rng: &mut Xoshiro) -> Self {
        let mut seed = [0u8; 32];
        rng.fill(&mut seed);
        let sk = SigningKey::from(seed);
        let pk = PublicKey::from_raw_ed25519(&sk.verification_key().to_bytes()).unwrap();
        let addr = tendermint::account::Id::from(pk);
        ValKey { sk, pk, addr }
    }
}

/// A validator set with the signing keys of its members.
#[derive(Clone)]
pub struct KeyedSet {
    pub keys: Vec<ValKey>,
    pub powers: Vec<u64>,
}

impl KeyedSet {
    pub fn generate(rng: &mut Xoshiro, n: usize, max_power: u64) -> Self {
        let keys = (0..n).map(|_| ValKey::generate(rng)).collect();
        let powers = (0..n).map(|_| 1 + rng.below(max_power.max(1))).collect();
        KeyedSet { keys, powers }
    }

    pub fn total_power(&self) -> u128 {
        self.powers.iter().map(|p| *p as u128).sum()
    }

    /// tendermint validator set. NOTE: `ValidatorSet::new` sorts validators by (power desc,
    /// address asc); use `order()` to map sorted position -> index into `keys`.
    pub fn to_set(&self) -> ValidatorSet {
        let infos: Vec<tendermint::validator::Info> = self
            .keys
            .iter()
            .zip(&self.powers)
            .map(|(k, p)| tendermint::validator::Info {
                address: k.addr,
                pub_key: k.pk,
                power: tendermint::vote::Power::try_from(*p).unwrap(),
                name: None,
                proposer_priority: 0_i64.into(),
            })
            .collect();
        let proposer = infos.first().cloned();
        ValidatorSet::new(infos, proposer)
    }

    /// For each position in the (sorted) tendermint set, the index into `keys`.
    pub fn order(&self) -> Vec<usize> {
        let set = self.to_set();
        set.validators()
            .iter()
            .map(|v| self.keys.iter().position(|k| k.addr == v.address).unwrap())
            .collect()
    }
}

fn rand_hash(rng: &mut Xoshiro) -> Hash {
    let mut b = [0u8; 32];
    rng.fill(&mut b);
    Hash::Sha256(b)
}

/// Run a pure fixture computation on a fresh thread that belongs to no simulation run.
///
/// Cached fixtures must not perturb the calling simulation thread: whether a run hits or misses a
/// process-wide cache depends on what other runs did, and computing in place would consume the
/// run's entropy stream and advance its per-thread `RandomState` counter (changing the iteration
/// order of every later `HashMap`). On a helper thread neither happens, hit or miss.
pub fn off_thread<T: Send + 'static>(f: impl FnOnce() -> T + Send + 'static) -> T {
    std::thread::Builder::new()
        .name("fixture".into())
        .stack_size(8 << 20)
        .spawn(f)
        .expect("spawn fixture thread")
        .join()
        .expect("fixture computation panicked")
}

pub fn empty_dah() -> DataAvailabilityHeader {
    static D: OnceLock<DataAvailabilityHeader> = OnceLock::new();
    if let Some(d) = D.get() {
        return d.clone();
    }
    let d = off_thread(|| DataAvailabilityHeader::from_eds(&ExtendedDataSquare::empty()));
    D.get_or_init(|| d).clone()
}

/// How a validator votes in a commit.
#[derive(Clone, Copy, Debug, PartialEq, Eq)]
pub enum VoteKind {
    Commit,
    Nil,
    Absent,
}

pub struct HeaderSpec<'a> {
    pub chain_id: &'a chain::Id,
    pub height: u64,
    pub time: Time,
    pub prev: Option<&'a ExtendedHeader>,
    pub set: &'a KeyedSet,
    pub next_set: &'a KeyedSet,
    pub dah: DataAvailabilityHeader,
    pub app_version: u64,
    /// per position in the *sorted* validator set; None = everyone commits
    pub votes: Option<Vec<VoteKind>>,
}

/// Build and sign one extended header.
pub fn build_header(rng: &mut Xoshiro, spec: HeaderSpec<'_>) -> ExtendedHeader {
    let set = spec.set.to_set();
    let order = spec.set.order();
    let next_set_hash = spec.next_set.to_set().hash();
    let last_block_id = match spec.prev {
        Some(p) if p.height() + 1 == spec.height => Some(p.commit.block_id),
        _ if spec.height == 1 => None,
        _ => Some(tendermint::block::Id {
            hash: rand_hash(rng),
            part_set_header: parts::Header::new(1, rand_hash(rng)).unwrap(),
        }),
    };
    let proposer = set.validators()[0].address;
    let mut header = ExtendedHeader {
        header: Header {
            version: Version {
                block: BLOCK_PROTOCOL,
                app: spec.app_version,
            },
            chain_id: spec.chain_id.clone(),
            height: spec.height.try_into().unwrap(),
            time: spec.time,
            last_block_id,
            last_commit_hash: Some(Hash::default_sha256()),
            data_hash: Some(spec.dah.hash()),
            validators_hash: set.hash(),
            next_validators_hash: next_set_hash,
            consensus_hash: rand_hash(rng),
            app_hash: Hash::default_sha256().as_bytes().to_vec().try_into().unwrap(),
            last_results_hash: Some(Hash::default_sha256()),
            evidence_hash: Some(Hash::default_sha256()),
            proposer_address: proposer,
        },
        commit: Commit {
            height: spec.height.try_into().unwrap(),
            round: 0_u16.into(),
            block_id: tendermint::block::Id {
                hash: Hash::None,
                part_set_header: parts::Header::new(1, rand_hash(rng)).unwrap(),
            },
            signatures: vec![],
        },
        validator_set: set,
        dah: spec.dah,
    };
    header.commit.block_id.hash = header.header.hash();
    let votes = spec
        .votes
        .unwrap_or_else(|| vec![VoteKind::Commit; order.len()]);
    sign_commit(&mut header, spec.set, &order, &votes);
    header
}

/// (Re)create the commit signatures of `header` for the given votes (sorted-set positions).
pub fn sign_commit(header: &mut ExtendedHeader, set: &KeyedSet, order: &[usize], votes: &[VoteKind]) {
    let time = header.header.time;
    header.commit.signatures = order
        .iter()
        .zip(votes)
        .map(|(ki, v)| {
            let addr = set.keys[*ki].addr;
            match v {
                VoteKind::Absent => CommitSig::BlockIdFlagAbsent,
                VoteKind::Commit => CommitSig::BlockIdFlagCommit {
                    validator_address: addr,
                    timestamp: time,
                    signature: None,
                },
                VoteKind::Nil => CommitSig::BlockIdFlagNil {
                    validator_address: addr,
                    timestamp: time,
                    signature: None,
                },
            }
        })
        .collect();
    for (pos, ki) in order.iter().enumerate() {
        resign_entry(header, pos, &set.keys[*ki].sk);
    }
}

/// Sign commit entry `pos` with `sk` over the canonical vote bytes of that entry. For a nil vote
/// the signature is over a nil block id, as a real validator would produce.
pub fn resign_entry(header: &mut ExtendedHeader, pos: usize, sk: &SigningKey) {
    let chain_id = header.header.chain_id.clone();
    let is_nil = matches!(header.commit.signatures[pos], CommitSig::BlockIdFlagNil { .. });
    if matches!(header.commit.signatures[pos], CommitSig::BlockIdFlagAbsent) {
        return;
    }
    let bytes = if is_nil {
        nil_vote_bytes(header, pos)
    } else {
        header.commit.vote_sign_bytes(&chain_id, pos).unwrap()
    };
    let sig = Signature::new(sk.sign(&bytes).to_bytes()).unwrap();
    match &mut header.commit.signatures[pos] {
        CommitSig::BlockIdFlagAbsent => {}
        CommitSig::BlockIdFlagNil { signature, .. }
        | CommitSig::BlockIdFlagCommit { signature, .. } => *signature = sig,
    }
}

fn nil_vote_bytes(header: &ExtendedHeader, pos: usize) -> Vec<u8> {
    let (validator_address, timestamp) = match &header.commit.signatures[pos] {
        CommitSig::BlockIdFlagNil {
            validator_address,
            timestamp,
            ..
        }
        | CommitSig::BlockIdFlagCommit {
            validator_address,
            timestamp,
            ..
        } => (*validator_address, *timestamp),
        CommitSig::BlockIdFlagAbsent => unreachable!(),
    };
    let vote = tendermint::Vote {
        vote_type: tendermint::vote::Type::Precommit,
        height: header.commit.height,
        round: header.commit.round,
        block_id: None,
        timestamp: Some(timestamp),
        validator_address,
        validator_index: (pos as u32).try_into().unwrap(),
        signature: None,
        extension: Vec::new(),
        extension_signature: None,
    };
    vote.into_signable_vec(header.header.chain_id.clone())
}

/// Recompute the block hash after a header field was changed and re-sign with the given keys.
pub fn rehash_and_resign(header: &mut ExtendedHeader, set: &KeyedSet) {
    header.commit.block_id.hash = header.header.hash();
    let order: Vec<usize> = header
        .validator_set
        .validators()
        .iter()
        .map(|v| set.keys.iter().position(|k| k.addr == v.address))
        .map(|p| p.unwrap_or(usize::MAX))
        .collect();
    for (pos, ki) in order.iter().enumerate() {
        if *ki != usize::MAX && pos < header.commit.signatures.len() {
            resign_entry(header, pos, &set.keys[*ki].sk);
        }
    }
}

// ------------------------------------------------------------------------------------ fixtures

/// An honest chain 1..=len with a single validator set (cheap; used by the store/sync worlds),
/// plus forks generated on demand.
pub struct Chain {
    pub chain_id: chain::Id,
    pub set: KeyedSet,
    pub headers: Vec<ExtendedHeader>, // index 0 = height 1
    pub block_time_ms: u64,
    pub base_time_ns: i64,
}

#[derive(Clone, Copy, Debug, PartialEq, Eq, Hash, PartialOrd, Ord)]
pub struct ChainParams {
    pub class: u64,
    pub len: u64,
    pub validators: usize,
    pub block_time_ms: u64,
    /// chain head time relative to WALL_BASE, in ms (negative: in the past)
    pub head_offset_ms: i64,
}

impl Chain {
    pub fn time_of(&self, height: u64) -> Time {
        time_from_ns(self.base_time_ns + (height as i64) * (self.block_time_ms as i64) * 1_000_000)
    }

    pub fn generate(p: ChainParams) -> Chain {
        let mut rng = Xoshiro::new(crate::kernel::rng::mix(&[
            0xC4A1,
            p.class,
            p.len,
            p.validators as u64,
            p.block_time_ms,
            p.head_offset_ms as u64,
        ]));
        let chain_id: chain::Id = "private".try_into().unwrap();
        let set = KeyedSet::generate(&mut rng, p.validators.max(1), 1000);
        let head_ns = WALL_BASE_SECS * 1_000_000_000 + p.head_offset_ms * 1_000_000;
        let base_time_ns = head_ns - (p.len as i64) * (p.block_time_ms as i64) * 1_000_000;
        let mut chain = Chain {
            chain_id,
            set,
            headers: Vec::with_capacity(p.len as usize),
            block_time_ms: p.block_time_ms,
            base_time_ns,
        };
        for h in 1..=p.len {
            let hdr = {
                let prev = chain.headers.last();
                build_header(
                    &mut rng,
                    HeaderSpec {
                        chain_id: &chain.chain_id,
                        height: h,
                        time: chain.time_of(h),
                        prev,
                        set: &chain.set,
                        next_set: &chain.set,
                        dah: empty_dah(),
                        app_version: 1 + (h % 3),
                        votes: None,
                    },
                )
            };
            chain.headers.push(hdr);
        }
        chain
    }

    pub fn cached(p: ChainParams) -> Arc<Chain> {
        static CACHE: Mutex<BTreeMap<ChainParams, Arc<Chain>>> = Mutex::new(BTreeMap::new());
        let cache = &CACHE;
        if let Some(c) = cache.lock().unwrap().get(&p) {
            return c.clone();
        }
        // generate outside the lock (pure function of p, so a race only duplicates work), and
        // off the simulation thread (see `off_thread`)
        let c = off_thread(move || Arc::new(Chain::generate(p)));
        let mut g = cache.lock().unwrap();
        if g.len() > 256 {
            g.clear();
        }
        g.entry(p).or_insert(c).clone()
    }

    pub fn get(&self, height: u64) -> &ExtendedHeader {
        &self.headers[(height - 1) as usize]
    }

    pub fn len(&self) -> u64 {
        self.headers.len() as u64
    }

    /// A fork: headers `from..=to` signed by the same validator set, linked to honest `from-1`
    /// (or unlinked if from == 1), different from the honest headers at those heights.
    pub fn fork(&self, rng: &mut Xoshiro, from: u64, to: u64) -> Vec<ExtendedHeader> {
        let mut out: Vec<ExtendedHeader> = Vec::new();
        for h in from..=to {
            let hdr = {
                let prev = if h == from {
                    if h > 1 { Some(self.get(h - 1)) } else { None }
                } else {
                    out.last()
                };
                build_header(
                    rng,
                    HeaderSpec {
                        chain_id: &self.chain_id,
                        height: h,
                        time: self.time_of(h),
                        prev,
                        set: &self.set,
                        next_set: &self.set,
                        dah: empty_dah(),
                        app_version: 1,
                        votes: None,
                    },
                )
            };
            out.push(hdr);
        }
        out
    }
}
