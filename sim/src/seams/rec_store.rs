//! RecordingStore: a `Store` wrapper handed to each component with a caller tag. It records every
//! call and result in the run history, inserts chooser-driven virtual delays before calls (this
//! is where the simulator decides the interleaving of components that share a store) and lets an
//! observer run invariants before/after each call. It never changes results.

use std::fmt::Display;
use std::ops::RangeBounds;
use std::sync::Arc;

use async_trait::async_trait;
use celestia_types::ExtendedHeader;
use celestia_types::hash::Hash;
use cid::Cid;
use libp2p::identity::Keypair;
use lumina_node::store::{
    BlockRanges, SamplingMetadata, Store, StoreError, VerifiedExtendedHeaders,
};

use crate::kernel::ctx::RunCtx;
use crate::seams::store_model::{Kind, kind_of};

#[derive(Clone, Debug)]
pub enum Call {
    GetHead,
    GetByHash(Hash),
    GetByHeight(u64),
    WaitNewHead,
    WaitHeight(u64),
    HeadHeight,
    Has(Hash),
    HasAt(u64),
    UpdateMeta(u64, Vec<Cid>),
    GetMeta(u64),
    MarkSampled(u64),
    Insert(Vec<ExtendedHeader>),
    GetStored,
    GetSampled,
    GetPruned,
    Remove(u64),
    GetIdentity,
}

impl Call {
    pub fn name(&self) -> &'static str {
        match self {
            Call::GetHead => "get_head",
            Call::GetByHash(_) => "get_by_hash",
            Call::GetByHeight(_) => "get_by_height",
            Call::WaitNewHead => "wait_new_head",
            Call::WaitHeight(_) => "wait_height",
            Call::HeadHeight => "head_height",
            Call::Has(_) => "has",
            Call::HasAt(_) => "has_at",
            Call::UpdateMeta(..) => "update_sampling_metadata",
            Call::GetMeta(_) => "get_sampling_metadata",
            Call::MarkSampled(_) => "mark_as_sampled",
            Call::Insert(_) => "insert",
            Call::GetStored => "get_stored_header_ranges",
            Call::GetSampled => "get_sampled_ranges",
            Call::GetPruned => "get_pruned_ranges",
            Call::Remove(_) => "remove_height",
            Call::GetIdentity => "get_identity",
        }
    }
    pub fn arg(&self) -> u64 {
        match self {
            Call::GetByHeight(h)
            | Call::WaitHeight(h)
            | Call::HasAt(h)
            | Call::UpdateMeta(h, _)
            | Call::GetMeta(h)
            | Call::MarkSampled(h)
            | Call::Remove(h) => *h,
            Call::Insert(b) => b.first().map(|h| h.height()).unwrap_or(0),
            _ => 0,
        }
    }
    pub fn is_mutation(&self) -> bool {
        matches!(
            self,
            Call::UpdateMeta(..) | Call::MarkSampled(_) | Call::Insert(_) | Call::Remove(_)
        )
    }
}

#[derive(Clone, Debug)]
pub enum Ret {
    Unit,
    Bool(bool),
    Height(u64),
    Header(Box<ExtendedHeader>),
    Ranges(BlockRanges),
    Meta(Option<Vec<Cid>>),
    Err(Kind),
}

/// Observer of store traffic (oracles live here). Calls are synchronous and must not block.
pub trait StoreObserver: Send + Sync {
    fn before(&self, _tag: &'static str, _call: &Call) {}
    fn after(&self, _tag: &'static str, _call: &Call, _ret: &Ret) {}
}

pub struct NoObserver;
impl StoreObserver for NoObserver {}

pub struct RecStore<S: Store> {
    pub inner: Arc<S>,
    pub tag: &'static str,
    pub ctx: Arc<RunCtx>,
    pub obs: Arc<dyn StoreObserver>,
    /// max virtual delay (ms) inserted before a call; 0 = none
    pub max_delay_ms: u32,
}

impl<S: Store> std::fmt::Debug for RecStore<S> {
    fn fmt(&self, f: &mut std::fmt::Formatter<'_>) -> std::fmt::Result {
        write!(f, "RecStore[{}]", self.tag)
    }
}

impl<S: Store> RecStore<S> {
    pub fn new(
        inner: Arc<S>,
        tag: &'static str,
        ctx: &Arc<RunCtx>,
        obs: Arc<dyn StoreObserver>,
        max_delay_ms: u32,
    ) -> Arc<Self> {
        Arc::new(RecStore {
            inner,
            tag,
            ctx: ctx.clone(),
            obs,
            max_delay_ms,
        })
    }

    async fn pre(&self, call: &Call) {
        if self.max_delay_ms > 0 {
            // 0: run straight through, 1: yield once, else sleep
            match self.ctx.choose("store.delay", self.max_delay_ms + 2) {
                0 => {}
                1 => tokio::task::yield_now().await,
                v => tokio::time::sleep(std::time::Duration::from_millis((v - 1) as u64)).await,
            }
        }
        self.obs.before(self.tag, call);
    }

    fn post(&self, call: &Call, ret: Ret) {
        let code = match &ret {
            Ret::Err(k) => 100 + *k as u64,
            Ret::Bool(b) => *b as u64,
            Ret::Height(h) => *h,
            _ => 0,
        };
        self.ctx.ev_with(call.name(), call.arg(), code, || {
            format!("[{}] {}", self.tag, describe(call, &ret))
        });
        self.obs.after(self.tag, call, &ret);
    }
}

fn describe(call: &Call, ret: &Ret) -> String {
    let c = match call {
        Call::Insert(b) => format!(
            "insert[{}..={}]",
            b.first().map(|h| h.height()).unwrap_or(0),
            b.last().map(|h| h.height()).unwrap_or(0)
        ),
        c => format!("{}({})", c.name(), c.arg()),
    };
    let r = match ret {
        Ret::Unit => "ok".to_string(),
        Ret::Bool(b) => b.to_string(),
        Ret::Height(h) => h.to_string(),
        Ret::Header(h) => format!("header {}", h.height()),
        Ret::Ranges(r) => r.to_string(),
        Ret::Meta(m) => format!("meta {:?}", m.as_ref().map(|c| c.len())),
        Ret::Err(k) => format!("Err({k:?})"),
    };
    format!("{c} -> {r}")
}

fn err_ret(e: &StoreError) -> Ret {
    Ret::Err(kind_of(e))
}

#[async_trait]
impl<S: Store> Store for RecStore<S> {
    async fn get_head(&self) -> Result<ExtendedHeader, StoreError> {
        let c = Call::GetHead;
        self.pre(&c).await;
        let r = self.inner.get_head().await;
        self.post(&c, match &r { Ok(h) => Ret::Header(Box::new(h.clone())), Err(e) => err_ret(e) });
        r
    }

    async fn get_by_hash(&self, hash: &Hash) -> Result<ExtendedHeader, StoreError> {
        let c = Call::GetByHash(*hash);
        self.pre(&c).await;
        let r = self.inner.get_by_hash(hash).await;
        self.post(&c, match &r { Ok(h) => Ret::Header(Box::new(h.clone())), Err(e) => err_ret(e) });
        r
    }

    async fn get_by_height(&self, height: u64) -> Result<ExtendedHeader, StoreError> {
        let c = Call::GetByHeight(height);
        self.pre(&c).await;
        let r = self.inner.get_by_height(height).await;
        self.post(&c, match &r { Ok(h) => Ret::Header(Box::new(h.clone())), Err(e) => err_ret(e) });
        r
    }

    async fn wait_new_head(&self) -> u64 {
        let c = Call::WaitNewHead;
        self.obs.before(self.tag, &c);
        let r = self.inner.wait_new_head().await;
        self.post(&c, Ret::Height(r));
        r
    }

    async fn wait_height(&self, height: u64) -> Result<(), StoreError> {
        let c = Call::WaitHeight(height);
        self.obs.before(self.tag, &c);
        let r = self.inner.wait_height(height).await;
        self.post(&c, match &r { Ok(()) => Ret::Unit, Err(e) => err_ret(e) });
        r
    }

    async fn get_range<R>(&self, range: R) -> Result<Vec<ExtendedHeader>, StoreError>
    where
        R: RangeBounds<u64> + Send,
    {
        self.inner.get_range(range).await
    }

    async fn head_height(&self) -> Result<u64, StoreError> {
        let c = Call::HeadHeight;
        self.pre(&c).await;
        let r = self.inner.head_height().await;
        self.post(&c, match &r { Ok(h) => Ret::Height(*h), Err(e) => err_ret(e) });
        r
    }

    async fn has(&self, hash: &Hash) -> bool {
        let c = Call::Has(*hash);
        self.pre(&c).await;
        let r = self.inner.has(hash).await;
        self.post(&c, Ret::Bool(r));
        r
    }

    async fn has_at(&self, height: u64) -> bool {
        let c = Call::HasAt(height);
        self.pre(&c).await;
        let r = self.inner.has_at(height).await;
        self.post(&c, Ret::Bool(r));
        r
    }

    async fn update_sampling_metadata(&self, height: u64, cids: Vec<Cid>) -> Result<(), StoreError> {
        let c = Call::UpdateMeta(height, cids.clone());
        self.pre(&c).await;
        let r = self.inner.update_sampling_metadata(height, cids).await;
        self.post(&c, match &r { Ok(()) => Ret::Unit, Err(e) => err_ret(e) });
        r
    }

    async fn get_sampling_metadata(&self, height: u64) -> Result<Option<SamplingMetadata>, StoreError> {
        let c = Call::GetMeta(height);
        self.pre(&c).await;
        let r = self.inner.get_sampling_metadata(height).await;
        self.post(&c, match &r { Ok(m) => Ret::Meta(m.as_ref().map(|m| m.cids.clone())), Err(e) => err_ret(e) });
        r
    }

    async fn mark_as_sampled(&self, height: u64) -> Result<(), StoreError> {
        let c = Call::MarkSampled(height);
        self.pre(&c).await;
        let r = self.inner.mark_as_sampled(height).await;
        self.post(&c, match &r { Ok(()) => Ret::Unit, Err(e) => err_ret(e) });
        r
    }

    async fn insert<R>(&self, headers: R) -> Result<(), StoreError>
    where
        R: TryInto<VerifiedExtendedHeaders> + Send,
        <R as TryInto<VerifiedExtendedHeaders>>::Error: Display,
    {
        // run the verifying constructor here (same conversion the inner store would do) so that
        // the batch can be recorded; a conversion failure is reported exactly as the store does
        let converted = headers.try_into().map_err(|e| e.to_string());
        let verified: VerifiedExtendedHeaders = match converted {
            Ok(v) => v,
            Err(e) => {
                let err = StoreError::InsertionFailed(
                    lumina_node::store::StoreInsertionError::HeadersVerificationFailed(e),
                );
                let c = Call::Insert(vec![]);
                self.pre(&c).await;
                self.post(&c, err_ret(&err));
                return Err(err);
            }
        };
        let batch: Vec<ExtendedHeader> = verified.as_ref().to_vec();
        let c = Call::Insert(batch);
        self.pre(&c).await;
        let r = self.inner.insert(verified).await;
        self.post(&c, match &r { Ok(()) => Ret::Unit, Err(e) => err_ret(e) });
        r
    }

    async fn get_stored_header_ranges(&self) -> Result<BlockRanges, StoreError> {
        let c = Call::GetStored;
        self.pre(&c).await;
        let r = self.inner.get_stored_header_ranges().await;
        self.post(&c, match &r { Ok(x) => Ret::Ranges(x.clone()), Err(e) => err_ret(e) });
        r
    }

    async fn get_sampled_ranges(&self) -> Result<BlockRanges, StoreError> {
        let c = Call::GetSampled;
        self.pre(&c).await;
        let r = self.inner.get_sampled_ranges().await;
        self.post(&c, match &r { Ok(x) => Ret::Ranges(x.clone()), Err(e) => err_ret(e) });
        r
    }

    async fn get_pruned_ranges(&self) -> Result<BlockRanges, StoreError> {
        let c = Call::GetPruned;
        self.pre(&c).await;
        let r = self.inner.get_pruned_ranges().await;
        self.post(&c, match &r { Ok(x) => Ret::Ranges(x.clone()), Err(e) => err_ret(e) });
        r
    }

    async fn remove_height(&self, height: u64) -> Result<(), StoreError> {
        let c = Call::Remove(height);
        self.pre(&c).await;
        let r = self.inner.remove_height(height).await;
        self.post(&c, match &r { Ok(()) => Ret::Unit, Err(e) => err_ret(e) });
        r
    }

    async fn get_identity(&self) -> Result<Keypair, StoreError> {
        self.inner.get_identity().await
    }

    async fn close(self) -> Result<(), StoreError> {
        Ok(())
    }
}
