//! SimStream: an in-memory byte pipe (writer half -> reader half) whose delivery is decided by the
//! run's chooser. It stands where a libp2p substream stands for the header-ex codec and the shrex
//! client: `futures::AsyncWrite` on one end, `futures::AsyncRead` on the other.
//!
//! The link between the two halves can
//!  * deliver bytes in chunks (whole buffer, fixed size, or a fresh chooser draw 1..=N per chunk),
//!  * stall: a read stays pending for a virtual duration (a `tokio::time::sleep` on the paused
//!    clock) before the byte at a chosen offset, and/or before every chunk ("drip"),
//!  * end the stream early at a chosen offset (truncation) or fail there with an `io::Error`,
//!  * flip bits at chosen offsets, duplicate one segment, swap two adjacent segments, prepend
//!    garbage,
//!  * on the writer side: accept limited chunks and block the writer once for a virtual duration.
//!
//! The whole fault plan (`LinkPlan`) is drawn up front (value 0 = no fault); only the size of each
//! chunk in `Chunking::Random` mode is drawn while the stream runs. A fault is counted with
//! `ctx.fault(..)` when it fires, i.e. when it changed what the reader observes. Everything the
//! reader consumed is kept (`LinkHandle::delivered`) so that oracles can label a stream by
//! construction: complete / strict prefix / corrupted.
//!
//! Single-threaded: both halves live on the simulation thread; the mutex is never contended.

use std::future::Future;
use std::io;
use std::pin::Pin;
use std::sync::{Arc, Mutex};
use std::task::{Context, Poll, Waker};
use std::time::Duration;

use futures::{AsyncRead, AsyncWrite};
use tokio::time::Sleep;

use crate::kernel::ctx::RunCtx;

#[derive(Clone, Copy, Debug, PartialEq, Eq, Default)]
pub enum Chunking {
    /// as much as the caller's buffer takes
    #[default]
    Whole,
    /// fixed chunks of this many bytes
    Fixed(usize),
    /// every chunk is a chooser draw in 1..=N
    Random(usize),
}

#[derive(Clone, Copy, Debug, PartialEq, Eq)]
pub enum SegmentOp {
    /// raw[a..b] is delivered twice in a row
    Dup { a: usize, b: usize },
    /// raw[a..b] and raw[c..d] change places (b <= c; the bytes between stay where they are)
    Swap { a: usize, b: usize, c: usize, d: usize },
}

impl SegmentOp {
    fn span(&self) -> (usize, usize) {
        match *self {
            SegmentOp::Dup { a, b } => (a, b),
            SegmentOp::Swap { a, d, .. } => (a, d),
        }
    }
}

/// What the link does to one stream. Offsets of `stalls`, `eof_at`, `err_at` and `flips` are
/// offsets into the stream as the reader sees it (after garbage prefix / segment operation);
/// offsets of `segment` and `write_stall` are offsets into what the writer wrote.
#[derive(Clone, Debug, Default)]
pub struct LinkPlan {
    pub chunking: Chunking,
    /// virtual delay before every chunk but the first (slow peer)
    pub drip_ms: u64,
    /// (offset, ms), sorted by offset: the read that would deliver the byte at `offset` (or report
    /// the end of the stream there) first stays pending for `ms`
    pub stalls: Vec<(usize, u64)>,
    pub eof_at: Option<usize>,
    pub err_at: Option<usize>,
    /// (offset, bit)
    pub flips: Vec<(usize, u8)>,
    pub garbage_prefix: Vec<u8>,
    pub segment: Option<SegmentOp>,
    /// bytes accepted per `poll_write` (0 = everything)
    pub write_chunk: usize,
    /// (offset, ms): the writer blocks once before accepting the byte at `offset`
    pub write_stall: Option<(usize, u64)>,
}

/// Which kinds of fault `LinkPlan::draw` may choose, and where.
#[derive(Clone, Debug)]
pub struct Profile {
    /// length of the honest stream (faults are placed inside it)
    pub len: usize,
    /// positions worth hitting exactly (message boundaries, length prefixes)
    pub hot: Vec<usize>,
    /// segment operations and half of the truncations are aligned to this (share size); 0 = none
    pub align: usize,
    /// offset of the first aligned position (a frame in front of the shares)
    pub align_off: usize,
    /// the reader's time budget; stalls are drawn short, just below, just above and far above it
    pub limit_ms: u64,
    /// weights of: none, truncate, bit flip, duplicate segment, swap segments, garbage prefix,
    /// io error, stall, drip, writer stall
    pub weights: [u32; 10],
    /// permille of a second, independent fault
    pub second_fault: u32,
    /// upper bound on the number of chunks of a stream (bounds chooser draws)
    pub max_chunks: usize,
}

impl LinkPlan {
    pub fn clean() -> LinkPlan {
        LinkPlan::default()
    }

    fn draw_pos(ctx: &RunCtx, p: &Profile, aligned: bool) -> usize {
        let len = p.len;
        if aligned && p.align > 0 && len >= p.align + p.align_off {
            let units = (len - p.align_off) / p.align;
            return p.align_off + p.align * ctx.range("link.pos_aligned", 0, units as u64) as usize;
        }
        match if p.hot.is_empty() { 0 } else { ctx.choose("link.pos_kind", 3) } {
            0 => ctx.range("link.pos", 0, len as u64) as usize,
            1 => *ctx.pick("link.pos_hot", &p.hot),
            _ => {
                // just after a hot position: inside the next length prefix
                let h = *ctx.pick("link.pos_hot", &p.hot);
                (h + ctx.range("link.pos_delta", 0, 3) as usize).min(len)
            }
        }
    }

    fn draw_chunking(ctx: &RunCtx, p: &Profile) -> Chunking {
        let floor = (p.len / p.max_chunks.max(1)).max(1);
        match ctx.choose("link.chunking", 4) {
            0 => Chunking::Whole,
            1 => Chunking::Fixed(floor.max(ctx.range("link.chunk_fixed", 1, 64) as usize)),
            2 => Chunking::Random(floor * 2 + ctx.range("link.chunk_max", 0, 16) as usize),
            _ => Chunking::Random(floor * 2 + ctx.range("link.chunk_max", 0, 4096) as usize),
        }
    }

    fn draw_stall_ms(ctx: &RunCtx, p: &Profile) -> u64 {
        let l = p.limit_ms.max(2);
        match ctx.choose("link.stall_class", 4) {
            0 => ctx.range("link.stall_ms", 1, (l / 10).max(1)),
            1 => l - ctx.range("link.stall_below", 1, (l / 4).max(1)),
            2 => l + ctx.range("link.stall_above", 0, (l / 4).max(1)),
            _ => l * ctx.range("link.stall_times", 2, 20),
        }
    }

    /// Draw a plan for a stream of `p.len` honest bytes. All-zero draws give the clean link.
    pub fn draw(ctx: &RunCtx, p: &Profile) -> LinkPlan {
        let mut plan = LinkPlan {
            chunking: Self::draw_chunking(ctx, p),
            ..LinkPlan::default()
        };
        let mut faults = 1;
        if p.second_fault > 0 && ctx.coin("link.second_fault", p.second_fault) {
            faults = 2;
        }
        for _ in 0..faults {
            match ctx.weighted("link.fault", &p.weights) {
                0 => {}
                1 => {
                    let aligned = p.align > 0 && ctx.coin("link.trunc_aligned", 500);
                    let pos = Self::draw_pos(ctx, p, aligned);
                    plan.eof_at = Some(plan.eof_at.map_or(pos, |e| e.min(pos)));
                }
                2 => {
                    let n = 1 + ctx.choose("link.flips", 3) as usize;
                    for _ in 0..n {
                        let pos = Self::draw_pos(ctx, p, false);
                        plan.flips.push((pos, ctx.choose("link.flip_bit", 8) as u8));
                    }
                }
                3 => {
                    if plan.segment.is_none() && p.len > 0 {
                        let a = Self::draw_pos(ctx, p, p.align > 0).min(p.len - 1);
                        let max = if p.align > 0 { p.align } else { 1 + ctx.range("link.seg_len", 0, 600) as usize };
                        let b = (a + max).min(p.len);
                        plan.segment = Some(SegmentOp::Dup { a, b });
                    }
                }
                4 => {
                    if plan.segment.is_none() && p.len > 1 {
                        let unit = if p.align > 0 { p.align } else { 1 + ctx.range("link.seg_len", 0, 600) as usize };
                        let a = Self::draw_pos(ctx, p, p.align > 0).min(p.len - 1);
                        // second segment: adjacent or some units further (then the middle moves too;
                        // still a permutation of the honest bytes)
                        let b = (a + unit).min(p.len);
                        let gap = if ctx.coin("link.swap_far", 400) {
                            unit * ctx.range("link.swap_gap", 1, 40) as usize
                        } else {
                            0
                        };
                        let c = (b + gap).min(p.len);
                        let d = (c + unit).min(p.len);
                        plan.segment = Some(SegmentOp::Swap { a, b, c, d });
                    }
                }
                5 => {
                    let n = 1 + ctx.range("link.garbage_len", 0, 40) as usize;
                    let mut rng = ctx.fixture_rng(0x6A5B);
                    let mut g = vec![0u8; n];
                    rng.fill(&mut g);
                    // value 0 of the class draw = all-zero garbage (simplest)
                    match ctx.choose("link.garbage_class", 3) {
                        0 => g.iter_mut().for_each(|b| *b = 0),
                        1 => g.iter_mut().for_each(|b| *b |= 0x80), // endless varint
                        _ => {}
                    }
                    plan.garbage_prefix = g;
                }
                6 => {
                    let pos = Self::draw_pos(ctx, p, false);
                    plan.err_at = Some(plan.err_at.map_or(pos, |e| e.min(pos)));
                }
                7 => {
                    let pos = Self::draw_pos(ctx, p, false);
                    plan.stalls.push((pos, Self::draw_stall_ms(ctx, p)));
                }
                8 => {
                    // total drip time spread around the limit
                    let chunks = p.max_chunks.max(1) as u64;
                    plan.drip_ms = 1 + Self::draw_stall_ms(ctx, p) / chunks.min(16);
                    if matches!(plan.chunking, Chunking::Whole) {
                        plan.chunking = Chunking::Fixed((p.len / 8).max(1));
                    }
                }
                _ => {
                    let pos = Self::draw_pos(ctx, p, false);
                    plan.write_stall = Some((pos, Self::draw_stall_ms(ctx, p)));
                    plan.write_chunk = (p.len / 4).max(1);
                }
            }
        }
        plan.stalls.sort();
        plan
    }
}

/// What actually happened on a link.
#[derive(Clone, Debug, Default)]
pub struct Fired {
    pub truncated: bool,
    pub error: bool,
    pub flips: u32,
    pub dup: bool,
    pub swap: bool,
    pub garbage: bool,
    pub stalls: u32,
    /// sum of all reader-side sleeps (stalls + drips) that were started
    pub read_stalled_ms: u64,
    /// longest single reader-side stall
    pub max_stall_ms: u64,
    pub write_stalled_ms: u64,
    /// the reader was told the natural end of the stream
    pub eof_seen: bool,
    pub chunks: u64,
}

impl Fired {
    /// did the link change content (as opposed to cutting or delaying it)?
    pub fn content_fault(&self) -> bool {
        self.flips > 0 || self.dup || self.swap || self.garbage
    }
}

#[derive(Default)]
struct Shared {
    raw: Vec<u8>,
    closed: bool,
    reader_waker: Option<Waker>,
    /// the stream as the reader sees it, as far as it has been produced
    out: Vec<u8>,
    delivered: usize,
    fired: Fired,
}

/// Observer handle of a link (kept by the world).
#[derive(Clone)]
pub struct LinkHandle(Arc<Mutex<Shared>>);

impl LinkHandle {
    /// every byte the reader consumed
    pub fn delivered(&self) -> Vec<u8> {
        let s = self.0.lock().unwrap();
        s.out[..s.delivered].to_vec()
    }
    pub fn delivered_len(&self) -> usize {
        self.0.lock().unwrap().delivered
    }
    pub fn written_len(&self) -> usize {
        self.0.lock().unwrap().raw.len()
    }
    pub fn written(&self) -> Vec<u8> {
        self.0.lock().unwrap().raw.clone()
    }
    pub fn fired(&self) -> Fired {
        self.0.lock().unwrap().fired.clone()
    }
}

pub struct SimWriter {
    sh: Arc<Mutex<Shared>>,
    ctx: Arc<RunCtx>,
    chunk: usize,
    stall: Option<(usize, u64)>,
    written: usize,
    sleep: Option<Pin<Box<Sleep>>>,
}

pub struct SimReader {
    sh: Arc<Mutex<Shared>>,
    ctx: Arc<RunCtx>,
    plan: LinkPlan,
    raw_pos: usize,
    seg_done: bool,
    garbage_done: bool,
    flip_done: Vec<bool>,
    next_stall: usize,
    dripped_at: Option<usize>,
    sleep: Option<Pin<Box<Sleep>>>,
}

/// A fresh pipe.
pub fn pipe(ctx: &Arc<RunCtx>, plan: LinkPlan) -> (SimWriter, SimReader, LinkHandle) {
    let sh = Arc::new(Mutex::new(Shared::default()));
    let mut plan = plan;
    plan.stalls.sort();
    let w = SimWriter {
        sh: sh.clone(),
        ctx: ctx.clone(),
        chunk: plan.write_chunk,
        stall: plan.write_stall,
        written: 0,
        sleep: None,
    };
    let r = SimReader {
        sh: sh.clone(),
        ctx: ctx.clone(),
        flip_done: vec![false; plan.flips.len()],
        plan,
        raw_pos: 0,
        seg_done: false,
        garbage_done: false,
        next_stall: 0,
        dripped_at: None,
        sleep: None,
    };
    (w, r, LinkHandle(sh))
}

/// A pipe whose writer already wrote `bytes` and closed.
pub fn preloaded(ctx: &Arc<RunCtx>, plan: LinkPlan, bytes: Vec<u8>) -> (SimReader, LinkHandle) {
    let (w, r, h) = pipe(ctx, plan);
    {
        let mut s = w.sh.lock().unwrap();
        s.raw = bytes;
        s.closed = true;
    }
    drop(w); // closing is idempotent
    (r, h)
}

impl SimReader {
    /// Move newly written raw bytes through the content transformations into `out`.
    fn pump(&mut self, sh: &mut Shared) {
        let Shared { raw, out, fired, closed, .. } = sh;
        let closed = *closed;
        let before = out.len();
        if !self.garbage_done {
            self.garbage_done = true;
            if !self.plan.garbage_prefix.is_empty() {
                out.extend_from_slice(&self.plan.garbage_prefix);
                fired.garbage = true;
                self.ctx.fault("stream.garbage_prefix");
                self.ctx.ev("link.garbage", self.plan.garbage_prefix.len() as u64, 0);
            }
        }
        loop {
            let avail = raw.len();
            match (self.plan.segment, self.seg_done) {
                (Some(op), false) => {
                    let (a, end) = op.span();
                    if self.raw_pos < a {
                        let upto = avail.min(a);
                        if upto > self.raw_pos {
                            out.extend_from_slice(&raw[self.raw_pos..upto]);
                            self.raw_pos = upto;
                        }
                        if self.raw_pos < a {
                            if closed {
                                self.seg_done = true; // the stream ended before the segment
                            }
                            break;
                        }
                    }
                    if avail < end && !closed {
                        break; // wait until the whole span was written
                    }
                    let end = end.min(avail);
                    match op {
                        SegmentOp::Dup { a, b } => {
                            let b = b.min(end);
                            if b > a {
                                out.extend_from_slice(&raw[a..b]);
                                out.extend_from_slice(&raw[a..b]);
                                fired.dup = true;
                                self.ctx.fault("stream.dup_segment");
                                self.ctx.ev("link.dup", a as u64, b as u64);
                            }
                        }
                        SegmentOp::Swap { a, b, c, d } => {
                            let b = b.min(end);
                            let c = c.clamp(b, end);
                            let d = d.clamp(c, end);
                            if d > c && b > a {
                                out.extend_from_slice(&raw[c..d]);
                                out.extend_from_slice(&raw[b..c]);
                                out.extend_from_slice(&raw[a..b]);
                                fired.swap = true;
                                self.ctx.fault("stream.swap_segments");
                                self.ctx.ev("link.swap", a as u64, c as u64);
                            } else if end > a {
                                out.extend_from_slice(&raw[a..end]);
                            }
                        }
                    }
                    self.raw_pos = self.raw_pos.max(end);
                    self.seg_done = true;
                }
                _ => {
                    if avail > self.raw_pos {
                        out.extend_from_slice(&raw[self.raw_pos..avail]);
                        self.raw_pos = avail;
                    }
                    break;
                }
            }
        }
        let after = out.len();
        if after > before {
            for (i, (pos, bit)) in self.plan.flips.iter().enumerate() {
                if !self.flip_done[i] && *pos >= before && *pos < after {
                    self.flip_done[i] = true;
                    out[*pos] ^= 1u8 << (bit % 8);
                    fired.flips += 1;
                    self.ctx.fault("stream.bit_flip");
                    self.ctx.ev("link.flip", *pos as u64, *bit as u64);
                }
            }
        }
    }

    /// Start a virtual sleep; returns Pending unless it is already over.
    fn start_sleep(&mut self, cx: &mut Context<'_>, ms: u64) -> Poll<()> {
        let mut s = Box::pin(tokio::time::sleep(Duration::from_millis(ms)));
        match s.as_mut().poll(cx) {
            Poll::Ready(()) => Poll::Ready(()),
            Poll::Pending => {
                self.sleep = Some(s);
                Poll::Pending
            }
        }
    }
}

impl AsyncRead for SimReader {
    fn poll_read(
        mut self: Pin<&mut Self>,
        cx: &mut Context<'_>,
        buf: &mut [u8],
    ) -> Poll<io::Result<usize>> {
        let this = &mut *self;
        if buf.is_empty() {
            return Poll::Ready(Ok(0));
        }
        loop {
            if let Some(s) = this.sleep.as_mut() {
                match s.as_mut().poll(cx) {
                    Poll::Ready(()) => this.sleep = None,
                    Poll::Pending => return Poll::Pending,
                }
            }
            let sh_arc = this.sh.clone();
            let mut sh = sh_arc.lock().unwrap();
            this.pump(&mut sh);
            let delivered = sh.delivered;

            // what may be delivered right now
            let mut limit = sh.out.len();
            if let Some(e) = this.plan.eof_at {
                limit = limit.min(e.max(delivered));
            }
            if let Some(e) = this.plan.err_at {
                limit = limit.min(e.max(delivered));
            }
            let at_err = this.plan.err_at.is_some_and(|e| delivered >= e);
            let at_cut = this.plan.eof_at.is_some_and(|e| delivered >= e);
            let natural_end = sh.closed && this.raw_pos >= sh.raw.len() && delivered >= sh.out.len();
            if limit == delivered && !at_err && !at_cut && !natural_end {
                // nothing to deliver yet
                sh.reader_waker = Some(cx.waker().clone());
                return Poll::Pending;
            }

            // stalls placed at this offset come before whatever happens here
            if this.next_stall < this.plan.stalls.len() {
                let (pos, ms) = this.plan.stalls[this.next_stall];
                if pos <= delivered {
                    this.next_stall += 1;
                    if pos == delivered && ms > 0 {
                        sh.fired.stalls += 1;
                        sh.fired.read_stalled_ms += ms;
                        sh.fired.max_stall_ms = sh.fired.max_stall_ms.max(ms);
                        drop(sh);
                        this.ctx.fault("stream.stall");
                        this.ctx.ev("link.stall", delivered as u64, ms);
                        if this.start_sleep(cx, ms).is_pending() {
                            return Poll::Pending;
                        }
                    }
                    continue;
                }
            }

            if at_err {
                if !sh.fired.error {
                    sh.fired.error = true;
                    drop(sh);
                    this.ctx.fault("stream.io_error");
                    this.ctx.ev("link.io_error", delivered as u64, 0);
                }
                return Poll::Ready(Err(io::Error::new(
                    io::ErrorKind::ConnectionReset,
                    "simulated stream reset",
                )));
            }
            if at_cut {
                // a cut at or beyond the natural end of a closed stream is no fault
                let more = !natural_end;
                if more && !sh.fired.truncated {
                    sh.fired.truncated = true;
                    drop(sh);
                    this.ctx.fault("stream.truncate");
                    this.ctx.ev("link.truncate", delivered as u64, 0);
                } else if !more {
                    sh.fired.eof_seen = true;
                }
                return Poll::Ready(Ok(0));
            }
            if natural_end {
                sh.fired.eof_seen = true;
                return Poll::Ready(Ok(0));
            }

            // drip: every chunk but the first waits
            if this.plan.drip_ms > 0 && sh.fired.chunks > 0 && this.dripped_at != Some(delivered) {
                this.dripped_at = Some(delivered);
                let ms = this.plan.drip_ms;
                sh.fired.read_stalled_ms += ms;
                drop(sh);
                this.ctx.fault("stream.drip");
                if this.start_sleep(cx, ms).is_pending() {
                    return Poll::Pending;
                }
                continue;
            }

            let mut n = buf.len().min(limit - delivered);
            match this.plan.chunking {
                Chunking::Whole => {}
                Chunking::Fixed(k) => n = n.min(k.max(1)),
                Chunking::Random(k) => {
                    n = n.min(1 + this.ctx.choose("link.chunk", k.max(1) as u32) as usize)
                }
            }
            // never run across a stall point
            if this.next_stall < this.plan.stalls.len() {
                let pos = this.plan.stalls[this.next_stall].0;
                if pos > delivered {
                    n = n.min(pos - delivered);
                }
            }
            buf[..n].copy_from_slice(&sh.out[delivered..delivered + n]);
            sh.delivered += n;
            sh.fired.chunks += 1;
            return Poll::Ready(Ok(n));
        }
    }
}

impl SimWriter {
    fn close_now(&mut self) {
        let mut sh = self.sh.lock().unwrap();
        sh.closed = true;
        if let Some(w) = sh.reader_waker.take() {
            w.wake();
        }
    }
}

impl AsyncWrite for SimWriter {
    fn poll_write(
        mut self: Pin<&mut Self>,
        cx: &mut Context<'_>,
        buf: &[u8],
    ) -> Poll<io::Result<usize>> {
        let this = &mut *self;
        if let Some(s) = this.sleep.as_mut() {
            match s.as_mut().poll(cx) {
                Poll::Ready(()) => this.sleep = None,
                Poll::Pending => return Poll::Pending,
            }
        }
        if buf.is_empty() {
            return Poll::Ready(Ok(0));
        }
        if let Some((pos, ms)) = this.stall {
            if this.written >= pos {
                this.stall = None;
                if ms > 0 {
                    this.sh.lock().unwrap().fired.write_stalled_ms += ms;
                    this.ctx.fault("stream.write_stall");
                    this.ctx.ev("link.write_stall", this.written as u64, ms);
                    let mut s = Box::pin(tokio::time::sleep(Duration::from_millis(ms)));
                    if s.as_mut().poll(cx).is_pending() {
                        this.sleep = Some(s);
                        return Poll::Pending;
                    }
                }
            }
        }
        let mut n = buf.len();
        if this.chunk > 0 {
            n = n.min(this.chunk);
        }
        if let Some((pos, _)) = this.stall {
            if pos > this.written {
                n = n.min(pos - this.written);
            }
        }
        let mut sh = this.sh.lock().unwrap();
        if sh.closed {
            return Poll::Ready(Err(io::Error::new(io::ErrorKind::BrokenPipe, "stream closed")));
        }
        sh.raw.extend_from_slice(&buf[..n]);
        this.written += n;
        if let Some(w) = sh.reader_waker.take() {
            w.wake();
        }
        Poll::Ready(Ok(n))
    }

    fn poll_flush(self: Pin<&mut Self>, _cx: &mut Context<'_>) -> Poll<io::Result<()>> {
        Poll::Ready(Ok(()))
    }

    fn poll_close(mut self: Pin<&mut Self>, _cx: &mut Context<'_>) -> Poll<io::Result<()>> {
        self.close_now();
        Poll::Ready(Ok(()))
    }
}

impl Drop for SimWriter {
    fn drop(&mut self) {
        self.close_now();
    }
}
