pub mod chain;
pub mod disk;
pub mod store_model;
pub mod rec_store;
pub mod squares;
pub mod stream;
