//! `verif` — deterministic simulation with fault injection for eigerco/lumina.
//!
//!   verif check <ID> <quick|thorough>     run the check of one property, write evidence
//!   verif replay <file>                   re-run a replay file (exit 1 if it reproduces)
//!   verif selftest determinism [world]    every world: seeds run twice must hash identically
//!   verif run <world> <seed> [tier]       run one world once, print its history
//!   verif list                            list properties and worlds

mod driver;
mod kernel;
mod registry;
mod seams;
mod worlds;

fn main() {
    let args: Vec<String> = std::env::args().skip(1).collect();
    let code = driver::main(&args);
    std::process::exit(code);
}
