//! Small deterministic PRNGs. Nothing here reads a clock or the OS.

#[inline]
pub fn splitmix64(state: &mut u64) -> u64 {
    *state = state.wrapping_add(0x9E37_79B9_7F4A_7C15);
    let mut z = *state;
    z = (z ^ (z >> 30)).wrapping_mul(0xBF58_476D_1CE4_E5B9);
    z = (z ^ (z >> 27)).wrapping_mul(0x94D0_49BB_1331_11EB);
    z ^ (z >> 31)
}

/// Mix several integers into one seed (order-sensitive).
pub fn mix(parts: &[u64]) -> u64 {
    let mut s = 0x243F_6A88_85A3_08D3u64;
    let mut out = 0u64;
    for p in parts {
        s ^= *p;
        out = splitmix64(&mut s) ^ out.rotate_left(17);
    }
    out
}

pub fn hash_str(s: &str) -> u64 {
    // FNV-1a 64
    let mut h = 0xcbf2_9ce4_8422_2325u64;
    for b in s.as_bytes() {
        h ^= *b as u64;
        h = h.wrapping_mul(0x0000_0100_0000_01B3);
    }
    h
}

#[derive(Clone, Debug)]
pub struct Xoshiro {
    s: [u64; 4],
}

impl Xoshiro {
    pub fn new(seed: u64) -> Self {
        let mut sm = seed;
        let s = [
            splitmix64(&mut sm),
            splitmix64(&mut sm),
            splitmix64(&mut sm),
            splitmix64(&mut sm),
        ];
        Xoshiro { s }
    }

    #[inline]
    pub fn next_u64(&mut self) -> u64 {
        let result = self.s[1].wrapping_mul(5).rotate_left(7).wrapping_mul(9);
        let t = self.s[1] << 17;
        self.s[2] ^= self.s[0];
        self.s[3] ^= self.s[1];
        self.s[1] ^= self.s[2];
        self.s[0] ^= self.s[3];
        self.s[2] ^= t;
        self.s[3] = self.s[3].rotate_left(45);
        result
    }

    /// Uniform in 0..n (n > 0), unbiased enough for simulation purposes (128-bit multiply).
    #[inline]
    pub fn below(&mut self, n: u64) -> u64 {
        debug_assert!(n > 0);
        ((self.next_u64() as u128 * n as u128) >> 64) as u64
    }

    pub fn fill(&mut self, buf: &mut [u8]) {
        let mut chunks = buf.chunks_exact_mut(8);
        for c in &mut chunks {
            c.copy_from_slice(&self.next_u64().to_le_bytes());
        }
        let rem = chunks.into_remainder();
        if !rem.is_empty() {
            let v = self.next_u64().to_le_bytes();
            rem.copy_from_slice(&v[..rem.len()]);
        }
    }
}

/// Streaming 64-bit hasher for event histories (FNV-1a over u64 words, then finalised).
#[derive(Clone, Debug)]
pub struct HistHash(u64);

impl Default for HistHash {
    fn default() -> Self {
        HistHash(0xcbf2_9ce4_8422_2325)
    }
}

impl HistHash {
    #[inline]
    pub fn word(&mut self, w: u64) {
        let mut x = self.0 ^ w;
        x = x.wrapping_mul(0x0000_0100_0000_01B3);
        x ^= x >> 29;
        self.0 = x.wrapping_mul(0xBF58_476D_1CE4_E5B9);
    }
    pub fn bytes(&mut self, b: &[u8]) {
        for c in b.chunks(8) {
            let mut w = [0u8; 8];
            w[..c.len()].copy_from_slice(c);
            self.word(u64::from_le_bytes(w));
        }
        self.word(b.len() as u64);
    }
    pub fn finish(&self) -> u64 {
        let mut s = self.0;
        splitmix64(&mut s)
    }
}
