pub mod ctx;
pub mod libc_seam;
pub mod rng;
pub mod runner;

pub use ctx::{Decision, Finding, RunCtx, Tier};
pub use runner::{World, WorldFut};
