//! Run one world once (fresh OS thread, fresh paused current-thread runtime, run context
//! installed), run batches on worker threads, replay, shrink.

use std::collections::{BTreeMap, BTreeSet};
use std::future::Future;
use std::pin::Pin;
use std::sync::atomic::{AtomicBool, AtomicU64, Ordering};
use std::sync::{Arc, Mutex, Once};
use std::time::{Duration, Instant};

use serde::{Deserialize, Serialize};

use super::ctx::{Decision, Finding, PanicInfo, RunCtx, Tier};
use super::libc_seam::{self, Role};
use super::rng::mix;

pub type WorldFut<'a> = Pin<Box<dyn Future<Output = ()> + 'a>>;

/// A scenario harness. `run` drives real lumina components inside the simulated environment and
/// reports through `ctx` (events, faults, probes, oracle evaluations, violations).
pub trait World: Send + Sync + 'static {
    fn name(&self) -> &'static str;
    fn run<'a>(&'a self, ctx: &'a Arc<RunCtx>) -> WorldFut<'a>;
    /// virtual-time cap of a run
    fn vtime_cap(&self) -> Duration {
        Duration::from_secs(3600 * 24 * 40)
    }
}

#[derive(Clone, Debug, Serialize, Deserialize)]
pub struct Outcome {
    pub seed: u64,
    pub history_hash: u64,
    pub events: u64,
    pub draws: u64,
    pub vtime_ms: u64,
    pub findings: Vec<Finding>,
    pub panics: Vec<PanicInfo>,
    pub faults: BTreeMap<String, u64>,
    pub probes: BTreeMap<String, u64>,
    pub oracles: BTreeMap<String, u64>,
    pub notes: BTreeMap<String, String>,
    pub harness_error: Option<String>,
    #[serde(skip)]
    pub decisions: Vec<Decision>,
    #[serde(skip)]
    pub lines: Vec<String>,
}

static HOOK: Once = Once::new();

/// Global panic hook: record location + message into the run context of the panicking thread
/// (if any) and stay quiet; panics on non-simulation threads print as usual.
pub fn install_panic_hook() {
    HOOK.call_once(|| {
        let default = std::panic::take_hook();
        std::panic::set_hook(Box::new(move |info| {
            if let Some(ctx) = libc_seam::current_ctx() {
                let location = info
                    .location()
                    .map(|l| format!("{}:{}:{}", l.file(), l.line(), l.column()))
                    .unwrap_or_else(|| "<unknown>".into());
                let message = if let Some(s) = info.payload().downcast_ref::<&str>() {
                    s.to_string()
                } else if let Some(s) = info.payload().downcast_ref::<String>() {
                    s.clone()
                } else {
                    "<non-string panic payload>".into()
                };
                let thread = std::thread::current().name().unwrap_or("?").to_string();
                ctx.panics.lock().unwrap().push(PanicInfo {
                    location,
                    message,
                    thread,
                });
                if std::env::var_os("VERIF_SHOW_PANICS").is_some() {
                    default(info);
                }
            } else {
                default(info);
            }
        }));
    });
}

/// Is this panic location inside the harness (=> harness error) rather than in /repo or a
/// dependency (=> an observation about the system)?
pub fn is_harness_location(loc: &str) -> bool {
    loc.starts_with("src/") || loc.contains("/verif/")
}

/// Stable short form of a panic location: registry prefix and /repo/ stripped, column dropped.
pub fn short_location(loc: &str) -> String {
    let mut s = loc;
    if let Some(i) = s.find("/registry/src/") {
        let rest = &s[i + "/registry/src/".len()..];
        s = rest.split_once('/').map(|(_, r)| r).unwrap_or(rest);
    } else if let Some(r) = s.strip_prefix("/repo/") {
        s = r;
    }
    let mut parts: Vec<&str> = s.split(':').collect();
    if parts.len() >= 3 {
        parts.pop();
    }
    parts.join(":")
}

pub fn run_once(
    world: &Arc<dyn World>,
    seed: u64,
    tier: Tier,
    replay: Option<Vec<Decision>>,
    verbose: bool,
) -> Outcome {
    install_panic_hook();
    let world = world.clone();
    let name = world.name();
    let handle = std::thread::Builder::new()
        .name(format!("sim-{name}-{seed:x}"))
        .stack_size(16 << 20)
        .spawn(move || run_on_this_thread(world, seed, tier, replay, verbose))
        .expect("spawn sim thread");
    match handle.join() {
        Ok(o) => o,
        Err(_) => Outcome {
            seed,
            history_hash: 0,
            events: 0,
            draws: 0,
            vtime_ms: 0,
            findings: vec![],
            panics: vec![],
            faults: BTreeMap::new(),
            probes: BTreeMap::new(),
            oracles: BTreeMap::new(),
            notes: BTreeMap::new(),
            harness_error: Some("simulation thread panicked outside the world future".into()),
            decisions: vec![],
            lines: vec![],
        },
    }
}

fn run_on_this_thread(
    world: Arc<dyn World>,
    seed: u64,
    tier: Tier,
    replay: Option<Vec<Decision>>,
    verbose: bool,
) -> Outcome {
    let ctx = RunCtx::new(seed, world.name(), tier, replay, verbose);
    ctx.mono_base_ns.store(
        libc_seam::raw_clock_ns(libc::CLOCK_MONOTONIC),
        Ordering::Relaxed,
    );
    let installed = libc_seam::install(&ctx, Role::Sim);

    let ctx_for_threads = ctx.clone();
    let rt = tokio::runtime::Builder::new_current_thread()
        .enable_time()
        .start_paused(true)
        .rng_seed(tokio::runtime::RngSeed::from_bytes(
            &ctx.select_seed.to_le_bytes(),
        ))
        .max_blocking_threads(1)
        .on_thread_start(move || {
            // blocking-pool threads of this run share its clock and entropy
            let keep = libc_seam::install(&ctx_for_threads, Role::Blocking);
            libc_seam::set_rt_ok(true);
            std::mem::forget(keep); // removed in on_thread_stop
        })
        .on_thread_stop(|| {
            libc_seam::uninstall();
        })
        .build()
        .expect("runtime");

    let cap = world.vtime_cap();
    let mut harness_error = None;
    let t0 = libc_seam::raw_clock_ns(libc::CLOCK_MONOTONIC);
    let res = std::panic::catch_unwind(std::panic::AssertUnwindSafe(|| {
        rt.block_on(async {
            let _ = ctx.tokio_start.set(tokio::time::Instant::now());
            libc_seam::set_rt_ok(true);
            ctx.clock_ready.store(true, Ordering::Release);
            let r = tokio::time::timeout(cap, world.run(&ctx)).await;
            if r.is_err() {
                ctx.probe("vtime_cap_hit");
            }
            ctx.refresh_elapsed();
        });
    }));
    libc_seam::set_rt_ok(false);
    ctx.clock_ready.store(false, Ordering::Release);
    if res.is_err() {
        // The world future itself panicked (not a spawned task). Worlds must isolate calls into
        // the code under test that may panic (spawn / catch_unwind), so this is a harness error
        // wherever the panic location is.
        let panics = ctx.panics.lock().unwrap();
        harness_error = Some(format!(
            "world future panicked at {}: {}",
            panics.last().map(|p| p.location.clone()).unwrap_or_default(),
            panics.last().map(|p| p.message.clone()).unwrap_or_default()
        ));
    }
    let t1 = libc_seam::raw_clock_ns(libc::CLOCK_MONOTONIC);
    drop(rt);
    let t2 = libc_seam::raw_clock_ns(libc::CLOCK_MONOTONIC);
    if std::env::var_os("VERIF_TIMING").is_some() {
        eprintln!("timing seed={seed} block_on={}us drop_rt={}us", (t1 - t0) / 1000, (t2 - t1) / 1000);
    }
    // harness panics inside spawned tasks
    if harness_error.is_none() {
        for p in ctx.panics.lock().unwrap().iter() {
            if is_harness_location(&p.location) {
                harness_error = Some(format!("harness panic at {}: {}", p.location, p.message));
                break;
            }
        }
    }
    drop(installed);

    let (history_hash, events, lines) = {
        let mut h = ctx.hist.lock().unwrap();
        (h.hash.finish(), h.seq, std::mem::take(&mut h.lines))
    };
    let (decisions, draws) = {
        let mut c = ctx.chooser.lock().unwrap();
        (std::mem::take(&mut c.trace), c.draws)
    };
    let to_map = |m: &Mutex<BTreeMap<&'static str, u64>>| {
        m.lock()
            .unwrap()
            .iter()
            .map(|(k, v)| (k.to_string(), *v))
            .collect::<BTreeMap<_, _>>()
    };
    Outcome {
        seed,
        history_hash,
        events,
        draws,
        vtime_ms: ctx.elapsed_ns.load(Ordering::Relaxed) / 1_000_000,
        findings: ctx.findings.lock().unwrap().clone(),
        panics: ctx.panics.lock().unwrap().clone(),
        faults: to_map(&ctx.faults),
        probes: to_map(&ctx.probes),
        oracles: to_map(&ctx.oracles),
        notes: ctx.notes.lock().unwrap().clone(),
        harness_error,
        decisions,
        lines,
    }
}

// ------------------------------------------------------------------------------------ batches

#[derive(Default, Debug)]
pub struct BatchReport {
    pub world: String,
    pub runs: u64,
    pub events: u64,
    pub draws: u64,
    pub vtime_ms: u64,
    pub wall_s: f64,
    pub faults: BTreeMap<String, u64>,
    pub probes: BTreeMap<String, u64>,
    pub oracles: BTreeMap<String, u64>,
    pub distinct_hashes: BTreeSet<u64>,
    pub nontrivial_hashes: BTreeSet<u64>,
    pub runs_with_fault: u64,
    pub failing: Vec<Outcome>,
    pub harness_errors: Vec<String>,
    pub samples: Vec<serde_json::Value>,
    pub repo_panics: BTreeMap<String, u64>,
    pub first_seed: u64,
    pub last_seed: u64,
    pub known_hits: BTreeMap<(String, String), u64>,
}

pub fn run_seed(base: u64, world: &str, i: u64) -> u64 {
    mix(&[base, super::rng::hash_str(world), i])
}

pub struct BatchCfg {
    pub base_seed: u64,
    pub runs: u64,
    pub workers: usize,
    pub wall_cap: Duration,
    pub tier: Tier,
    /// only findings of these properties count as failures (others => inconclusive runs)
    pub properties: Vec<String>,
    /// oracle-clause prefixes that make a run "non-trivial" for this property
    pub oracle_prefixes: Vec<String>,
    pub max_failures: usize,
    /// (property, clause, key) triples listed as open known findings: runs failing only with
    /// these do not count as failures (they are tallied in `known_hits`)
    pub known: Vec<(String, String, String)>,
}

pub fn batch(world: &Arc<dyn World>, cfg: &BatchCfg) -> BatchReport {
    let start = Instant::now();
    let next = AtomicU64::new(0);
    let stop = AtomicBool::new(false);
    let report = Mutex::new(BatchReport {
        world: world.name().to_string(),
        first_seed: run_seed(cfg.base_seed, world.name(), 0),
        ..Default::default()
    });
    std::thread::scope(|s| {
        for _ in 0..cfg.workers.max(1) {
            s.spawn(|| {
                loop {
                    if stop.load(Ordering::Relaxed) {
                        break;
                    }
                    let i = next.fetch_add(1, Ordering::Relaxed);
                    if i >= cfg.runs {
                        break;
                    }
                    if start.elapsed() > cfg.wall_cap {
                        stop.store(true, Ordering::Relaxed);
                        break;
                    }
                    let seed = run_seed(cfg.base_seed, world.name(), i);
                    let sample = i < 3;
                    let out = run_once(world, seed, cfg.tier, None, sample);
                    let mut r = report.lock().unwrap();
                    r.runs += 1;
                    r.events += out.events;
                    r.draws += out.draws;
                    r.vtime_ms += out.vtime_ms;
                    r.last_seed = seed;
                    let any_fault = out.faults.values().any(|v| *v > 0);
                    if any_fault {
                        r.runs_with_fault += 1;
                    }
                    for (k, v) in &out.faults {
                        *r.faults.entry(k.clone()).or_insert(0) += v;
                    }
                    for (k, v) in &out.probes {
                        *r.probes.entry(k.clone()).or_insert(0) += v;
                    }
                    let mut oracle_hit = false;
                    for (k, v) in &out.oracles {
                        *r.oracles.entry(k.clone()).or_insert(0) += v;
                        if *v > 0 && cfg.oracle_prefixes.iter().any(|p| k.starts_with(p.as_str())) {
                            oracle_hit = true;
                        }
                    }
                    for p in &out.panics {
                        if !is_harness_location(&p.location) {
                            *r.repo_panics.entry(p.location.clone()).or_insert(0) += 1;
                        }
                    }
                    r.distinct_hashes.insert(out.history_hash);
                    if oracle_hit && out.events > 2 {
                        r.nontrivial_hashes.insert(out.history_hash);
                    }
                    if let Some(e) = &out.harness_error {
                        r.harness_errors.push(format!("seed {seed}: {e}"));
                        stop.store(true, Ordering::Relaxed);
                    }
                    if sample {
                        let lines: Vec<&String> = out.lines.iter().take(40).collect();
                        r.samples.push(serde_json::json!({
                            "world": world.name(),
                            "seed": seed,
                            "events": out.events,
                            "decisions": out.draws,
                            "vtime_ms": out.vtime_ms,
                            "faults": out.faults,
                            "history_head": lines,
                        }));
                    }
                    let mut relevant = false;
                    for f in out
                        .findings
                        .iter()
                        .filter(|f| cfg.properties.iter().any(|p| *p == f.property))
                    {
                        let is_known = cfg.known.iter().any(|(p, c, k)| {
                            *p == f.property && *c == f.clause && *k == f.key
                        });
                        if is_known {
                            *r.known_hits
                                .entry((f.clause.clone(), f.key.clone()))
                                .or_insert(0) += 1;
                        } else {
                            relevant = true;
                        }
                    }
                    if relevant {
                        r.failing.push(out);
                        if r.failing.len() >= cfg.max_failures {
                            stop.store(true, Ordering::Relaxed);
                        }
                    }
                }
            });
        }
    });
    let mut r = report.into_inner().unwrap();
    r.wall_s = start.elapsed().as_secs_f64();
    r
}

// ------------------------------------------------------------------------------------ replay files

#[derive(Clone, Debug, Serialize, Deserialize)]
pub struct ReplayFile {
    pub property: String,
    pub clause: String,
    pub key: String,
    pub world: String,
    pub tier: String,
    pub seed: u64,
    pub shrunk: bool,
    pub history_hash: u64,
    pub violation: String,
    pub decisions: Vec<Decision>,
    #[serde(default)]
    pub trace: Vec<String>,
}

fn same_failure(out: &Outcome, property: &str, clause: &str, key: &str) -> bool {
    out.harness_error.is_none()
        && out
            .findings
            .iter()
            .any(|f| f.property == property && f.clause == clause && f.key == key)
}

/// Hypothesis-style shrinking of the decision trace. Keeps a candidate iff the same
/// (property, clause, key) still fails.
pub fn shrink(
    world: &Arc<dyn World>,
    seed: u64,
    tier: Tier,
    failing: Vec<Decision>,
    property: &str,
    clause: &str,
    key: &str,
    max_runs: usize,
    max_wall: Duration,
) -> (Vec<Decision>, usize) {
    let start = Instant::now();
    let mut best = failing;
    let mut runs = 0usize;
    let mut try_candidate = |cand: &Vec<Decision>, runs: &mut usize| -> Option<Vec<Decision>> {
        if *runs >= max_runs || start.elapsed() > max_wall {
            return None;
        }
        *runs += 1;
        let out = run_once(world, seed, tier, Some(cand.clone()), false);
        if same_failure(&out, property, clause, key) {
            // normalise: adopt what the run actually consumed
            Some(out.decisions)
        } else {
            None
        }
    };

    // pass 0: normalise (replaying the full trace must fail)
    match try_candidate(&best, &mut runs) {
        Some(d) => best = d,
        None => return (best, runs),
    }

    let mut improved = true;
    while improved && runs < max_runs && start.elapsed() < max_wall {
        improved = false;

        // pass 1: truncate the tail (binary search on length)
        let mut lo = 0usize;
        let mut hi = best.len();
        while lo + 1 < hi && runs < max_runs {
            let mid = (lo + hi) / 2;
            let cand: Vec<Decision> = best[..mid].to_vec();
            if let Some(d) = try_candidate(&cand, &mut runs) {
                if d.len() < best.len() {
                    improved = true;
                }
                best = d;
                hi = best.len().min(mid);
            } else {
                lo = mid;
            }
        }

        // pass 2: delete whole spans (largest first is approximated by order of appearance)
        let mut i = 0usize;
        while i < best.len() && runs < max_runs {
            if best[i].is_open() {
                // find matching close
                let mut nest = 0usize;
                let mut j = i + 1;
                while j < best.len() {
                    if best[j].is_open() {
                        nest += 1;
                    } else if best[j].is_close() {
                        if nest == 0 {
                            break;
                        }
                        nest -= 1;
                    }
                    j += 1;
                }
                if j < best.len() {
                    let mut cand = best[..i].to_vec();
                    cand.extend_from_slice(&best[j + 1..]);
                    if let Some(d) = try_candidate(&cand, &mut runs) {
                        if d.len() < best.len() {
                            improved = true;
                            best = d;
                            continue; // same i: next span moved here
                        }
                    }
                }
            }
            i += 1;
        }

        // pass 3: zero draws in blocks, then lower individually
        let mut block = (best.len() / 2).max(1);
        while block >= 1 && runs < max_runs {
            let mut i = 0usize;
            while i < best.len() && runs < max_runs {
                let end = (i + block).min(best.len());
                if best[i..end].iter().any(|d| d.1 != 0 && d.2 != 0) {
                    let mut cand = best.clone();
                    for d in &mut cand[i..end] {
                        if d.1 != 0 {
                            d.2 = 0;
                        }
                    }
                    if let Some(d) = try_candidate(&cand, &mut runs) {
                        if d != best {
                            improved = true;
                        }
                        best = d;
                    }
                }
                i += block;
            }
            if block == 1 {
                break;
            }
            block /= 2;
        }
        // pass 4: halve individual values
        let mut i = 0usize;
        while i < best.len() && runs < max_runs {
            if best[i].1 != 0 && best[i].2 > 1 {
                let mut cand = best.clone();
                cand[i].2 /= 2;
                if let Some(d) = try_candidate(&cand, &mut runs) {
                    if d != best {
                        improved = true;
                    }
                    best = d;
                    continue;
                }
            }
            i += 1;
        }
    }
    (best, runs)
}

pub fn replay_file(world: &Arc<dyn World>, rf: &ReplayFile, verbose: bool) -> Outcome {
    let tier = if rf.tier == "thorough" {
        Tier::Thorough
    } else {
        Tier::Quick
    };
    run_once(world, rf.seed, tier, Some(rf.decisions.clone()), verbose)
}

pub fn outcome_matches(out: &Outcome, rf: &ReplayFile) -> bool {
    same_failure(out, &rf.property, &rf.clause, &rf.key)
}
