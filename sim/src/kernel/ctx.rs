//! Per-run context: chooser (every simulator decision), entropy served to the code under test,
//! simulated clocks, event history, fault/probe/oracle counters and findings.

use std::collections::BTreeMap;
use std::sync::atomic::{AtomicBool, AtomicI64, AtomicU64, Ordering};
use std::sync::{Arc, Mutex};
use std::time::Duration;

use serde::{Deserialize, Serialize};

use super::rng::{HistHash, Xoshiro, mix};

#[derive(Clone, Copy, Debug, PartialEq, Eq)]
pub enum Tier {
    Quick,
    Thorough,
}

impl Tier {
    pub fn as_str(&self) -> &'static str {
        match self {
            Tier::Quick => "quick",
            Tier::Thorough => "thorough",
        }
    }
}

/// Properties whose violations end up in `findings` (None = all). Set once per process by the
/// driver (`check <ID>`: that property; `replay`: the replay file's property).
pub static FOCUS: std::sync::Mutex<Option<Vec<String>>> = std::sync::Mutex::new(None);

/// One recorded decision. `n == 0` marks span boundaries: tag "<name" opens, ">" closes.
#[derive(Clone, Debug, Serialize, Deserialize, PartialEq, Eq)]
pub struct Decision(pub String, pub u32, pub u32);

impl Decision {
    pub fn is_open(&self) -> bool {
        self.1 == 0 && self.0.starts_with('<')
    }
    pub fn is_close(&self) -> bool {
        self.1 == 0 && self.0 == ">"
    }
}

#[derive(Debug)]
pub struct Chooser {
    rng: Xoshiro,
    pub trace: Vec<Decision>,
    replay: Option<Vec<Decision>>,
    pos: usize,
    exhausted: bool,
    depth: usize,
    pub draws: u64,
}

impl Chooser {
    fn new(seed: u64, replay: Option<Vec<Decision>>) -> Self {
        Chooser {
            rng: Xoshiro::new(mix(&[seed, 0xA])),
            trace: Vec::new(),
            replay,
            pos: 0,
            exhausted: false,
            depth: 0,
            draws: 0,
        }
    }

    fn choose(&mut self, tag: &'static str, n: u32) -> u32 {
        if n <= 1 {
            return 0;
        }
        self.draws += 1;
        let v = match &self.replay {
            None => self.rng.below(n as u64) as u32,
            Some(rec) => {
                if self.exhausted || self.pos >= rec.len() {
                    0
                } else {
                    let d = &rec[self.pos];
                    if d.1 != 0 && d.0 == tag {
                        self.pos += 1;
                        d.2.min(n - 1)
                    } else {
                        // marker or other tag: this span needs more draws than recorded
                        0
                    }
                }
            }
        };
        self.trace.push(Decision(tag.to_string(), n, v));
        v
    }

    fn begin_span(&mut self, name: &'static str) {
        self.depth += 1;
        let mut tag = String::with_capacity(name.len() + 1);
        tag.push('<');
        tag.push_str(name);
        if let Some(rec) = &self.replay {
            if !self.exhausted {
                // resynchronise: skip to the next opening marker with this name
                let mut p = self.pos;
                let mut found = false;
                while p < rec.len() {
                    if rec[p].1 == 0 && rec[p].0 == tag {
                        found = true;
                        break;
                    }
                    p += 1;
                }
                if found {
                    self.pos = p + 1;
                } else {
                    self.exhausted = true;
                }
            }
        }
        self.trace.push(Decision(tag, 0, 0));
    }

    fn end_span(&mut self) {
        self.depth = self.depth.saturating_sub(1);
        if let Some(rec) = &self.replay {
            if !self.exhausted {
                // skip unused draws of this span up to its closing marker
                let mut p = self.pos;
                let mut nest = 0usize;
                while p < rec.len() {
                    if rec[p].is_open() {
                        nest += 1;
                    } else if rec[p].is_close() {
                        if nest == 0 {
                            break;
                        }
                        nest -= 1;
                    }
                    p += 1;
                }
                self.pos = (p + 1).min(rec.len());
            }
        }
        self.trace.push(Decision(">".to_string(), 0, 0));
    }
}

#[derive(Clone, Debug, Serialize, Deserialize, PartialEq, Eq)]
pub struct Finding {
    pub property: String,
    pub clause: String,
    /// stable key naming the failing call site / history class (used by known_findings.json)
    pub key: String,
    pub detail: String,
    pub event_seq: u64,
    pub vtime_ms: u64,
}

#[derive(Clone, Debug, Serialize, Deserialize)]
pub struct PanicInfo {
    pub location: String,
    pub message: String,
    pub thread: String,
}

#[derive(Default, Debug)]
pub struct History {
    pub hash: HistHash,
    pub seq: u64,
    pub lines: Vec<String>,
}

pub struct RunCtx {
    pub seed: u64,
    pub world: &'static str,
    pub tier: Tier,
    pub chooser: Mutex<Chooser>,
    entropy: Mutex<Xoshiro>,
    pub select_seed: u64,
    /// record human-readable history lines (replay / samples); hashing is always on
    pub verbose: bool,
    pub hist: Mutex<History>,
    pub findings: Mutex<Vec<Finding>>,
    pub panics: Mutex<Vec<PanicInfo>>,
    pub faults: Mutex<BTreeMap<&'static str, u64>>,
    pub probes: Mutex<BTreeMap<&'static str, u64>>,
    pub oracles: Mutex<BTreeMap<&'static str, u64>>,
    pub notes: Mutex<BTreeMap<String, String>>,
    // --- clocks (all in ns) ---
    /// real CLOCK_MONOTONIC at run start (base for the virtual monotonic clock)
    pub mono_base_ns: AtomicI64,
    /// simulated wall clock at virtual elapsed 0
    pub wall_base_ns: AtomicI64,
    /// wall clock skew added by clock faults
    pub wall_skew_ns: AtomicI64,
    /// last computed virtual elapsed
    pub elapsed_ns: AtomicU64,
    /// tokio instant of run start (set once the runtime is entered)
    pub tokio_start: std::sync::OnceLock<tokio::time::Instant>,
    pub clock_ready: AtomicBool,
    pub entropy_bytes: AtomicU64,
    pub steps: AtomicU64,
    pub step_cap: AtomicU64,
}

/// Simulated wall clock base: 2025-06-01T00:00:00Z, fixed so that runs are reproducible.
pub const WALL_BASE_SECS: i64 = 1_748_736_000;

impl RunCtx {
    pub fn new(
        seed: u64,
        world: &'static str,
        tier: Tier,
        replay: Option<Vec<Decision>>,
        verbose: bool,
    ) -> Arc<Self> {
        Arc::new(RunCtx {
            seed,
            world,
            tier,
            chooser: Mutex::new(Chooser::new(seed, replay)),
            entropy: Mutex::new(Xoshiro::new(mix(&[seed, 0xB]))),
            select_seed: mix(&[seed, 0xC]),
            verbose,
            hist: Mutex::new(History::default()),
            findings: Mutex::new(Vec::new()),
            panics: Mutex::new(Vec::new()),
            faults: Mutex::new(BTreeMap::new()),
            probes: Mutex::new(BTreeMap::new()),
            oracles: Mutex::new(BTreeMap::new()),
            notes: Mutex::new(BTreeMap::new()),
            mono_base_ns: AtomicI64::new(0),
            wall_base_ns: AtomicI64::new(WALL_BASE_SECS * 1_000_000_000),
            wall_skew_ns: AtomicI64::new(0),
            elapsed_ns: AtomicU64::new(0),
            tokio_start: std::sync::OnceLock::new(),
            clock_ready: AtomicBool::new(false),
            entropy_bytes: AtomicU64::new(0),
            steps: AtomicU64::new(0),
            step_cap: AtomicU64::new(2_000_000),
        })
    }

    // ---------------------------------------------------------------- chooser

    /// Uniform decision in 0..n; 0 is always the simplest alternative.
    pub fn choose(&self, tag: &'static str, n: u32) -> u32 {
        self.chooser.lock().unwrap().choose(tag, n)
    }

    pub fn range(&self, tag: &'static str, lo: u64, hi_incl: u64) -> u64 {
        debug_assert!(hi_incl >= lo);
        let n = (hi_incl - lo + 1).min(u32::MAX as u64) as u32;
        lo + self.choose(tag, n) as u64
    }

    /// True with probability `permille`/1000; value 0 (the shrink target) is "false".
    pub fn coin(&self, tag: &'static str, permille: u32) -> bool {
        if permille == 0 {
            return false;
        }
        let v = self.choose(tag, 1000);
        v >= 1000 - permille.min(1000)
    }

    pub fn pick<'a, T>(&self, tag: &'static str, items: &'a [T]) -> &'a T {
        &items[self.choose(tag, items.len() as u32) as usize]
    }

    /// Index chosen with the given weights (index 0 should be the simplest).
    pub fn weighted(&self, tag: &'static str, weights: &[u32]) -> usize {
        let total: u32 = weights.iter().sum();
        if total == 0 {
            return 0;
        }
        let mut v = self.choose(tag, total);
        for (i, w) in weights.iter().enumerate() {
            if v < *w {
                return i;
            }
            v -= *w;
        }
        weights.len() - 1
    }

    pub fn begin_span(&self, name: &'static str) {
        self.chooser.lock().unwrap().begin_span(name)
    }
    pub fn end_span(&self) {
        self.chooser.lock().unwrap().end_span()
    }

    /// A virtual delay for a seam crossing: 0, or 1..=max_ms milliseconds.
    pub fn delay(&self, tag: &'static str, max_ms: u32) -> Duration {
        let v = self.choose(tag, max_ms + 2);
        match v {
            0 | 1 => Duration::ZERO,
            v => Duration::from_millis((v - 1) as u64),
        }
    }

    // ---------------------------------------------------------------- entropy (stream B)

    pub fn fill_entropy(&self, buf: &mut [u8]) {
        self.entropy.lock().unwrap().fill(buf);
        let total = self
            .entropy_bytes
            .fetch_add(buf.len() as u64, Ordering::Relaxed);
        if self.verbose && std::env::var_os("VERIF_TRACE_ENTROPY").is_some() {
            let th = std::thread::current().name().unwrap_or("?").to_string();
            self.hist.lock().unwrap().lines.push(format!("   entropy {} bytes at {total} by {th}", buf.len()));
        }
    }

    /// Harness-side randomness that must not perturb the chooser trace (fixtures etc.).
    pub fn fixture_rng(&self, salt: u64) -> Xoshiro {
        Xoshiro::new(mix(&[self.seed, 0xD, salt]))
    }

    // ---------------------------------------------------------------- history

    /// Record an event: always hashed; text only kept when verbose.
    pub fn ev(&self, tag: &'static str, a: u64, b: u64) {
        let mut h = self.hist.lock().unwrap();
        h.seq += 1;
        h.hash.word(super::rng::hash_str(tag));
        h.hash.word(a);
        h.hash.word(b);
        if self.verbose {
            let t = self.elapsed_ns.load(Ordering::Relaxed) / 1_000_000;
            let seq = h.seq;
            h.lines.push(format!("#{seq} t={t}ms {tag} {a} {b}"));
        }
        drop(h);
        self.step();
    }

    pub fn ev_with(&self, tag: &'static str, a: u64, b: u64, text: impl FnOnce() -> String) {
        let mut h = self.hist.lock().unwrap();
        h.seq += 1;
        h.hash.word(super::rng::hash_str(tag));
        h.hash.word(a);
        h.hash.word(b);
        if self.verbose {
            let t = self.elapsed_ns.load(Ordering::Relaxed) / 1_000_000;
            let seq = h.seq;
            let s = text();
            h.lines.push(format!("#{seq} t={t}ms {tag} {a} {b} {s}"));
        }
        drop(h);
        self.step();
    }

    pub fn hash_bytes(&self, b: &[u8]) {
        self.hist.lock().unwrap().hash.bytes(b);
    }

    pub fn seq(&self) -> u64 {
        self.hist.lock().unwrap().seq
    }

    fn step(&self) {
        self.steps.fetch_add(1, Ordering::Relaxed);
    }

    pub fn over_step_cap(&self) -> bool {
        self.steps.load(Ordering::Relaxed) > self.step_cap.load(Ordering::Relaxed)
    }

    // ---------------------------------------------------------------- counters

    pub fn fault(&self, kind: &'static str) {
        *self.faults.lock().unwrap().entry(kind).or_insert(0) += 1;
    }
    pub fn probe(&self, name: &'static str) {
        *self.probes.lock().unwrap().entry(name).or_insert(0) += 1;
    }
    pub fn oracle(&self, clause: &'static str) {
        *self.oracles.lock().unwrap().entry(clause).or_insert(0) += 1;
    }
    pub fn oracle_n(&self, clause: &'static str, n: u64) {
        *self.oracles.lock().unwrap().entry(clause).or_insert(0) += n;
    }
    pub fn note(&self, k: &str, v: String) {
        self.notes.lock().unwrap().insert(k.to_string(), v);
    }

    pub fn violation(&self, property: &str, clause: &str, key: &str, detail: String) {
        // A check of property P must not have its runs cut short by a violation of another
        // property Q (which the check of Q reports): outside the focus a violation is only noted.
        if let Some(focus) = FOCUS.lock().unwrap().as_ref() {
            if !focus.iter().any(|p| p == property) {
                self.note(&format!("violation_of_other_property {property}/{clause} [{key}]"), detail);
                return;
            }
        }
        let (seq, t) = {
            let h = self.hist.lock().unwrap();
            (h.seq, self.elapsed_ns.load(Ordering::Relaxed) / 1_000_000)
        };
        let mut f = self.findings.lock().unwrap();
        if f.iter()
            .any(|x| x.property == property && x.clause == clause && x.key == key)
        {
            return;
        }
        if self.verbose {
            self.hist.lock().unwrap().lines.push(format!(
                "!! VIOLATION {property}/{clause} [{key}] at #{seq}: {detail}"
            ));
        }
        f.push(Finding {
            property: property.to_string(),
            clause: clause.to_string(),
            key: key.to_string(),
            detail,
            event_seq: seq,
            vtime_ms: t,
        });
    }

    // ---------------------------------------------------------------- clock

    /// Virtual time elapsed since the run started (tokio paused clock), for harness code.
    pub fn now_ms(&self) -> u64 {
        self.refresh_elapsed() / 1_000_000
    }

    pub fn refresh_elapsed(&self) -> u64 {
        if self.clock_ready.load(Ordering::Acquire) {
            if let Some(ns) = super::libc_seam::tokio_elapsed_ns(self) {
                self.elapsed_ns.store(ns, Ordering::Relaxed);
                return ns;
            }
        }
        self.elapsed_ns.load(Ordering::Relaxed)
    }

    /// Simulated wall-clock now, in ns since the Unix epoch (what the node sees).
    pub fn wall_now_ns(&self) -> i64 {
        self.wall_base_ns.load(Ordering::Relaxed)
            + self.refresh_elapsed() as i64
            + self.wall_skew_ns.load(Ordering::Relaxed)
    }

    pub fn wall_now(&self) -> tendermint::Time {
        let ns = self.wall_now_ns();
        tendermint::Time::from_unix_timestamp(ns.div_euclid(1_000_000_000), ns.rem_euclid(1_000_000_000) as u32)
            .expect("valid time")
    }

    /// Clock fault: shift the node's wall clock by `delta` (may be negative).
    pub fn jump_wall_clock(&self, delta_ns: i64) {
        self.wall_skew_ns.fetch_add(delta_ns, Ordering::Relaxed);
        self.fault(if delta_ns >= 0 {
            "clock_jump_forward"
        } else {
            "clock_jump_backward"
        });
        self.ev("clock_jump", delta_ns as u64, 0);
    }
}

pub fn time_from_ns(ns: i64) -> tendermint::Time {
    tendermint::Time::from_unix_timestamp(
        ns.div_euclid(1_000_000_000),
        ns.rem_euclid(1_000_000_000) as u32,
    )
    .expect("valid time")
}

pub fn time_to_ns(t: tendermint::Time) -> i64 {
    t.unix_timestamp_nanos() as i64
}
