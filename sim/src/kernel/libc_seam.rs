//! The libc seam: `clock_gettime`, `getrandom` and `syscall(SYS_getrandom)` defined in this binary
//! pre-empt libc's for the whole process. On a thread that belongs to a simulation run they serve
//! the run's virtual clocks and entropy stream; on any other thread they forward to the kernel.
//!
//! x86_64 Linux only (raw syscalls via inline asm).

use std::arch::asm;
use std::cell::Cell;
use std::sync::Arc;
use std::sync::atomic::Ordering;

use libc::{c_int, c_long, c_uint, c_void, size_t, ssize_t, timespec};

use super::ctx::RunCtx;

#[derive(Clone, Copy, PartialEq, Eq)]
pub enum Role {
    None,
    /// the simulation thread: monotonic + realtime virtualised
    Sim,
    /// a runtime blocking thread of the run: realtime virtualised only
    Blocking,
}

thread_local! {
    static CTX_PTR: Cell<*const RunCtx> = const { Cell::new(std::ptr::null()) };
    static ROLE: Cell<Role> = const { Cell::new(Role::None) };
    static IN_HOOK: Cell<bool> = const { Cell::new(false) };
    /// true while the thread is inside a tokio runtime context where `tokio::time::Instant::now`
    /// is safe to call
    static RT_OK: Cell<bool> = const { Cell::new(false) };
}

/// Install the run context on the current thread. Returns a guard that removes it.
pub struct Installed {
    _keep: Arc<RunCtx>,
}

pub fn install(ctx: &Arc<RunCtx>, role: Role) -> Installed {
    CTX_PTR.with(|c| c.set(Arc::as_ptr(ctx)));
    ROLE.with(|r| r.set(role));
    Installed { _keep: ctx.clone() }
}

impl Drop for Installed {
    fn drop(&mut self) {
        uninstall();
    }
}

pub fn uninstall() {
    RT_OK.with(|r| r.set(false));
    ROLE.with(|r| r.set(Role::None));
    CTX_PTR.with(|c| c.set(std::ptr::null()));
}

pub fn set_rt_ok(ok: bool) {
    RT_OK.with(|r| r.set(ok));
}

pub fn current_ctx() -> Option<&'static RunCtx> {
    let p = CTX_PTR.with(|c| c.get());
    if p.is_null() {
        None
    } else {
        // Safety: the pointer is removed (uninstall) before the Arc kept by `Installed` is dropped.
        Some(unsafe { &*p })
    }
}

/// Virtual elapsed ns according to tokio's paused clock, if callable from this thread now.
pub fn tokio_elapsed_ns(ctx: &RunCtx) -> Option<u64> {
    if !RT_OK.with(|r| r.get()) || IN_HOOK.with(|r| r.get()) {
        return None;
    }
    IN_HOOK.with(|r| r.set(true));
    let start = ctx.tokio_start.get().copied();
    let res = start.map(|s| {
        let now = tokio::time::Instant::now();
        now.saturating_duration_since(s).as_nanos() as u64
    });
    IN_HOOK.with(|r| r.set(false));
    res
}

#[inline]
unsafe fn raw_syscall6(n: c_long, a1: usize, a2: usize, a3: usize, a4: usize, a5: usize, a6: usize) -> c_long {
    let ret: c_long;
    unsafe {
        asm!(
            "syscall",
            inlateout("rax") n => ret,
            in("rdi") a1,
            in("rsi") a2,
            in("rdx") a3,
            in("r10") a4,
            in("r8") a5,
            in("r9") a6,
            lateout("rcx") _,
            lateout("r11") _,
            options(nostack),
        );
    }
    ret
}

#[inline]
unsafe fn ret_errno(ret: c_long) -> c_long {
    if (-4095..0).contains(&ret) {
        unsafe {
            *libc::__errno_location() = (-ret) as c_int;
        }
        -1
    } else {
        ret
    }
}

pub fn raw_clock_ns(clk: libc::clockid_t) -> i64 {
    let mut ts = timespec {
        tv_sec: 0,
        tv_nsec: 0,
    };
    unsafe {
        raw_syscall6(
            libc::SYS_clock_gettime,
            clk as usize,
            &mut ts as *mut timespec as usize,
            0,
            0,
            0,
            0,
        );
    }
    ts.tv_sec as i64 * 1_000_000_000 + ts.tv_nsec as i64
}

fn virtual_elapsed(ctx: &RunCtx) -> u64 {
    if ctx.clock_ready.load(Ordering::Acquire) {
        if let Some(ns) = tokio_elapsed_ns(ctx) {
            ctx.elapsed_ns.store(ns, Ordering::Relaxed);
            return ns;
        }
    }
    ctx.elapsed_ns.load(Ordering::Relaxed)
}

#[unsafe(no_mangle)]
pub unsafe extern "C" fn clock_gettime(clk: libc::clockid_t, ts: *mut timespec) -> c_int {
    let role = ROLE.with(|r| r.get());
    if role != Role::None && !ts.is_null() {
        if let Some(ctx) = current_ctx() {
            let ns: Option<i64> = match clk {
                libc::CLOCK_MONOTONIC
                | libc::CLOCK_MONOTONIC_RAW
                | libc::CLOCK_MONOTONIC_COARSE
                | libc::CLOCK_BOOTTIME
                    if role == Role::Sim =>
                {
                    Some(ctx.mono_base_ns.load(Ordering::Relaxed) + virtual_elapsed(ctx) as i64)
                }
                libc::CLOCK_REALTIME | libc::CLOCK_REALTIME_COARSE => Some(
                    ctx.wall_base_ns.load(Ordering::Relaxed)
                        + virtual_elapsed(ctx) as i64
                        + ctx.wall_skew_ns.load(Ordering::Relaxed),
                ),
                _ => None,
            };
            if let Some(ns) = ns {
                unsafe {
                    (*ts).tv_sec = ns.div_euclid(1_000_000_000) as libc::time_t;
                    (*ts).tv_nsec = ns.rem_euclid(1_000_000_000) as c_long;
                }
                return 0;
            }
        }
    }
    let r = unsafe { raw_syscall6(libc::SYS_clock_gettime, clk as usize, ts as usize, 0, 0, 0, 0) };
    unsafe { ret_errno(r) as c_int }
}

#[unsafe(no_mangle)]
pub unsafe extern "C" fn getrandom(buf: *mut c_void, len: size_t, flags: c_uint) -> ssize_t {
    if ROLE.with(|r| r.get()) != Role::None {
        if let Some(ctx) = current_ctx() {
            if !buf.is_null() && len > 0 {
                let slice = unsafe { std::slice::from_raw_parts_mut(buf as *mut u8, len) };
                ctx.fill_entropy(slice);
            }
            return len as ssize_t;
        }
    }
    let r = unsafe { raw_syscall6(libc::SYS_getrandom, buf as usize, len, flags as usize, 0, 0, 0) };
    unsafe { ret_errno(r) as ssize_t }
}

/// `syscall(2)` wrapper. On x86_64 SysV a variadic callee receives its integer arguments in the
/// same registers (and stack slot for the 7th) as a fixed-arity one, so this definition is
/// call-compatible with libc's variadic prototype.
#[unsafe(no_mangle)]
pub unsafe extern "C" fn syscall(
    num: c_long,
    a1: usize,
    a2: usize,
    a3: usize,
    a4: usize,
    a5: usize,
    a6: usize,
) -> c_long {
    if num == libc::SYS_getrandom {
        return unsafe { getrandom(a1 as *mut c_void, a2, a3 as c_uint) as c_long };
    }
    let r = unsafe { raw_syscall6(num, a1, a2, a3, a4, a5, a6) };
    unsafe { ret_errno(r) }
}
