#!/bin/sh
# Run every claimed check at the thorough tier, one after the other; summary lines to stdout.
cd "$(dirname "$0")/.." || exit 2
for p in $(./check --list | awk '{print $1}'); do
  out=$(./check $p thorough 2>&1); rc=$?
  echo "== $p rc=$rc"
  echo "$out" | grep -E '^(world=|OK|VIOLATION|KNOWN-FINDING|HARNESS)|!! VIOL' | cut -c1-600
done
