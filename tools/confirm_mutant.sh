#!/bin/bash
# Confirm a seeded change produced in /tmp/mut/<ID>/SEEDED: the patch applies to the clean tree,
# the demonstration passes without it and fails with it, and the existing unit tests of the touched
# crates still pass with it. Prints a summary; leaves the worktree clean.
ID=$1; W=/tmp/mut/$ID; S=$W/SEEDED
export CARGO_NET_OFFLINE=true CARGO_TARGET_DIR=/tmp/mut/target
cd $W || exit 2
git checkout -q -- . && git clean -qfd -e SEEDED
echo "== meta"; cat $S/meta.json | head -40
DEMO=$(python3 -c "import json;print(json.load(open('$S/meta.json'))['demo_command'])")
DEMO=$(echo "$DEMO" | sed -e "s#^cd [^&]*&& *##")
echo "== demo command: $DEMO"
git apply $S/demo.diff || { echo "DEMO DIFF DOES NOT APPLY"; exit 2; }
echo "== demo WITHOUT patch"; bash -c "$DEMO" > /tmp/mut/$ID.demo_without.log 2>&1; echo "exit=$?"; grep -E '^test result|passed|failed' /tmp/mut/$ID.demo_without.log | tail -3
git apply $S/patch.diff || { echo "PATCH DOES NOT APPLY"; exit 2; }
echo "== demo WITH patch"; bash -c "$DEMO" > /tmp/mut/$ID.demo_with.log 2>&1; echo "exit=$?"; grep -E '^test result|panicked|passed|failed' /tmp/mut/$ID.demo_with.log | tail -4
echo "== existing tests WITH patch (demo present)"
CRATES=$(git diff --name-only | cut -d/ -f1 | sort -u)
for c in $CRATES; do
  case $c in node) P=lumina-node;; types) P=celestia-types;; utils) P=lumina-utils;; grpc) P=celestia-grpc;; rpc) P=celestia-rpc;; proto) P=celestia-proto;; client) P=celestia-client;; *) P="";; esac
  [ -z "$P" ] && continue
  cargo test -p $P --lib --offline > /tmp/mut/$ID.tests_$c.log 2>&1
  echo "crate $P: $(grep -E '^test result' /tmp/mut/$ID.tests_$c.log | tail -1)"
  grep -E '^test .* FAILED' /tmp/mut/$ID.tests_$c.log | head -10
done
git checkout -q -- . && git clean -qfd -e SEEDED
