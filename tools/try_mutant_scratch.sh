#!/bin/bash
# Like try_mutant.sh, but without touching /repo (for use while a background run is building from
# /repo): a scratch worktree of /repo HEAD at /tmp/ms/repo gets the patch, a copy of /verif
# (sim, check, known findings) at /tmp/ms/verif is pointed at it.
# usage: try_mutant_scratch.sh <patch-file> <PROP> [PROP...]
PATCH=$(realpath "$1"); shift
M=/tmp/ms
mkdir -p $M/verif
if [ ! -d $M/repo ]; then git -C /repo worktree add --detach $M/repo HEAD -q || exit 2; fi
git -C $M/repo checkout -q --detach $(git -C /repo rev-parse HEAD) && git -C $M/repo checkout -q -- . && git -C $M/repo clean -qfd
rsync -a --delete --exclude target --exclude replays --exclude evidence --exclude .git /verif/ $M/verif/
sed -i "s#\"/repo/#\"$M/repo/#g" $M/verif/sim/Cargo.toml
git -C $M/repo apply "$PATCH" || { echo "patch does not apply"; exit 2; }
for p in "$@"; do
  out=$(cd $M/verif && ./check $p ${TIER:-quick} 2>&1)
  echo "$out" | grep -E '^(world=|OK|VIOLATION|KNOWN|HARNESS)' | cut -c1-260
  echo "$out" | grep -E '!! VIOLATION' | head -3 | cut -c1-400
  echo "$out" | grep -E '^error' -A8 | head -20
done
git -C $M/repo checkout -q -- . && git -C $M/repo clean -qfd
