#!/bin/sh
# usage: some_thorough.sh ID [ID...] : the thorough tier of the given checks, summary lines only
cd "$(dirname "$0")/.." || exit 2
for p in "$@"; do
  out=$(./check $p thorough 2>&1); rc=$?
  echo "== $p rc=$rc"
  echo "$out" | grep -E '^(world=|OK|VIOLATION|KNOWN-FINDING|HARNESS)|!! VIOL' | cut -c1-600
done
