#!/bin/bash
# Apply a kept seeded change to /repo, run the given checks (quick), and undo it.
# usage: try_mutant.sh <seeded-dir-name> <PROP> [PROP...]
D=/verif/seeded/$1; shift
git -C /repo diff --quiet || { echo "/repo is dirty"; exit 2; }
git -C /repo apply $D/patch.diff || { echo "patch does not apply"; exit 2; }
for p in "$@"; do
  out=$(cd /verif && ./check $p ${TIER:-quick} 2>&1)
  echo "$out" | grep -E '^(world=|OK|VIOLATION|KNOWN|HARNESS)' | cut -c1-260
  echo "$out" | grep -E '!! VIOLATION' | head -3 | cut -c1-400
done
git -C /repo checkout -- .
git -C /repo status --short | head -3
